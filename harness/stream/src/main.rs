//! Harness for the streaming-SSR property C07.  `h_stream c07` reads cases on stdin
//! (one sexp per line) and prints one observation per line.
//!
//! case   = (0 mode drive tree init sched)
//!   mode  : bit 0: 0 = in-order stream, 1 = out-of-order stream; bit 1 (+2): the `_branching`
//!           entry point (mark_branches = true); bit 2 (+4): a nonce is provided (leptos `Nonce`
//!           context / the `nonce` argument of push_async_out_of_order_with_nonce), logged as (12 bytes)
//!   drive : 0 = follow the schedule literally, then complete what is left and poll to the end
//!           1 = behave like an executor: poll only after a wake-up (Poll events ignored)
//!           2 = like 1, but every poll brings a new waker and only the newest one is live
//!   tree  : view (see `Node`)
//!   init  : futures already complete when the view is rendered
//!   sched : events  (0 f) = complete future f,  (1) = poll the stream once
//! obs    = (ref ref2 events)
//!   ref   : all futures complete before rendering, in-order stream, concatenated
//!   ref2  : (bytes) = `view.resolve().await.to_html()` when the tree has only real views, else ()
//!   events: (0) Pending | (1 bytes) Ready(Some) | (2) Ready(None) | (3 w) completion that woke
//!           the stream's task w times | (4 w) the preceding poll (or a task it unblocked) woke the
//!           stream's task (never without spawned tasks) | (8) stalled (executor drive: all futures complete, the
//!           stream neither finished nor asked to be polled) | (9) poll bound exceeded
use futures::{channel::oneshot, FutureExt, Stream};
use reactive_graph::owner::Owner;

/// a root owner with an SSR shared context (Suspense marks incomplete chunks there)
fn new_owner() -> Owner {
    use hydration_context::{SharedContext, SsrSharedContext};
    Owner::new_root(Some(Arc::new(SsrSharedContext::new()) as Arc<dyn SharedContext + Send + Sync>))
}
use std::{
    collections::{BTreeMap, VecDeque},
    future::Future,
    pin::Pin,
    sync::{
        atomic::{AtomicUsize, Ordering},
        Arc,
    },
    task::{Context, Poll, Wake, Waker},
};
use tachys::{
    html::{
        attribute::{any_attribute::AnyAttribute, Attribute},
        element::{b, div, p, span, ElementChild},
    },
    hydration::Cursor,
    reactive_graph::Suspend,
    ssr::{StreamBuilder, StreamChunk},
    view::{
        add_attr::AddAnyAttr,
        any_view::{AnyView, IntoAny},
        Position, PositionState, Render, RenderHtml,
    },
};
use vsexp::{Lst, Num, Sexp};

pub const POLL_BOUND: usize = 64;

// ------------------------------------------------------------------ view description
#[derive(Clone, Debug)]
enum Node {
    /// 0: text node (`String`)
    Text(String),
    /// 1: element `<tag>child</tag>` (div p span b)
    Elem(usize, Box<Node>),
    /// 2: tuple of 0..=4 views (`()`, `(A,)`, `(A, B)` …)
    Tuple(Vec<Node>),
    /// 3: `Suspend::new(async { f.await; view })`
    Suspend(u32, Box<Node>),
    /// 4: Suspense-like boundary: the StreamBuilder calls of leptos' `SuspenseBoundary`
    /// (next_id, push_fallback + push_async_out_of_order / push_async) around a oneshot;
    /// `some = false`: the future yields `None` (keep the fallback)
    Boundary { f: u32, fallback: Box<Node>, content: Box<Node>, some: bool },
    /// 5: what leptos' `ErrorBoundary` does: render into `StreamBuilder::new(clone_id())`, `append`
    Append(Box<Node>),
    /// 6: `push_sync(text)` and nothing else
    RawSync(String),
    /// 7: `push_async(async { f.await; render view into StreamBuilder::new(clone_id()); finish().take_chunks() })`
    RawAsync(u32, Box<Node>),
    /// 8: `Vec<AnyView>`
    VecOf(Vec<Node>),
    /// 9: `Option<AnyView>`: `None` when the list is empty
    Opt(Option<Box<Node>>),
    /// 10: the real leptos `<ErrorBoundary>` around the child (never any error)
    ErrB(Box<Node>),
    /// 11: the real leptos `<Suspense fallback>` around the child; flag: no `fallback` prop at all
    Suspense(Box<Node>, Box<Node>, bool),
    /// 12: the real leptos `<Transition fallback>` around the child; flag: with `set_pending`
    Transition(Box<Node>, Box<Node>, bool),
    /// 13: `move || res.get().map(|_| child)`: a synchronous read of the resource
    /// (`ArcAsyncDerived`) that loads when future f completes; the child has no futures
    Res(u32, Box<Node>),
    /// 14: `Suspend::new(async { [local.await;] f.await; [local.await;] child })` where `local`
    /// is a `LocalResource` (always pending on the server): flags pre / post
    LocalSuspend { f: u32, pre: bool, post: bool, content: Box<Node> },
    /// 15: a wrapper that renders exactly its child: 0 `Either::Left`, 1 `Either::Right`,
    /// 2 `EitherOf3::B`, 3 `Result::Ok`, 4 `OwnedView::new`, 5 leptos `View<T>` (`into_view()`),
    /// 6 `EitherOf4::D`, 7 `[T; 1]`
    Wrap(u8, Box<Node>),
    /// 16: a sequence without end marker: 0 `[AnyView; N]` (N <= 4), 1 `StaticVec`, 2 `Fragment`
    Seq(u8, Vec<Node>),
    /// 26: a text node in another representation: 0 `&'static str`, 1 `Cow::Borrowed`,
    /// 2 `Cow::Owned`, 3 `Arc<str>`, 4 `Oco::Borrowed`, 5 `Oco::Owned`, 6 `Oco::Counted`,
    /// 7 `u32`, 8 `i64` (the text is the decimal number), 9 `ArcRwSignal<String>`,
    /// 10 `RwSignal<String>` (signals as views: `.get()`, then the text)
    TextRep(u8, String),
    /// 27: element whose children are added by chained `.child(a).child(b)…` calls (2..=4)
    ElemN(usize, Vec<Node>),
    /// 17: `move || child` (a `ReactiveFunction`: called again for dry_resolve / resolve / render;
    /// the futures below it are `Shared`)
    Closure(Box<Node>),
    /// 18: leptos `Unsuspend::new(move || child)`
    Unsuspend(Box<Node>),
    /// 19: a leptos_server `Resource<String>` used as a view: loads the text when f completes
    ResView(u32, String),
    /// 20: leptos `<Await future=f blocking children=|_| child/>`
    Await(u32, bool, Box<Node>),
    /// 21: element with an `id` attribute (when the label is not empty) and/or raw-text content:
    /// tag 0 div, 1 textarea, 2 style, 3 span
    Rich(u8, String, Box<Node>),
    /// 22: void element: 0 br, 1 input, 2 hr
    Void(u8),
    /// 23: `div().inner_html(raw)`
    InnerHtml(String),
    /// 24: `child.add_any_attr(data-k="v")` on the erased view (`AnyViewWithAttrs`: extra_attrs)
    WithAttr(Box<Node>),
    /// 25: `Suspend::new(async { f.await; span().child(child) }).add_any_attr(data-j="v")` (typed)
    SuspendAttr(u32, Box<Node>),
    /// 28: `move || local.get().map(|_| child)`: synchronous read of a `LocalResource` (None on
    /// the server; tells the enclosing `<Suspense>` that it can never resolve)
    LocalRead(Box<Node>),
    /// 29: a keyed list (`tachys::view::keyed::keyed`, what `<For>` renders): items keyed by index
    Keyed(Vec<Node>),
}

fn parse(s: &Sexp) -> Node {
    let k = s.at(0).num();
    match k {
        0 => Node::Text(s.at(1).string().unwrap_or_default()),
        1 => Node::Elem(s.at(1).num() as usize % 4, Box::new(parse(s.at(2)))),
        2 => Node::Tuple(s.list()[1..].iter().map(parse).collect()),
        3 => Node::Suspend(s.at(1).num() as u32, Box::new(parse(s.at(2)))),
        4 => Node::Boundary {
            f: s.at(1).num() as u32,
            fallback: Box::new(parse(s.at(2))),
            content: Box::new(parse(s.at(3))),
            some: s.at(4).num() != 0,
        },
        5 => Node::Append(Box::new(parse(s.at(1)))),
        6 => Node::RawSync(s.at(1).string().unwrap_or_default()),
        7 => Node::RawAsync(s.at(1).num() as u32, Box::new(parse(s.at(2)))),
        8 => Node::VecOf(s.list()[1..].iter().map(parse).collect()),
        9 => Node::Opt(s.list().get(1).map(|n| Box::new(parse(n)))),
        10 => Node::ErrB(Box::new(parse(s.at(1)))),
        11 => Node::Suspense(
            Box::new(parse(s.at(1))),
            Box::new(parse(s.at(2))),
            s.list().get(3).map(|x| x.num() != 0).unwrap_or(false),
        ),
        12 => Node::Transition(
            Box::new(parse(s.at(1))),
            Box::new(parse(s.at(2))),
            s.list().get(3).map(|x| x.num() != 0).unwrap_or(false),
        ),
        17 => Node::Closure(Box::new(parse(s.at(1)))),
        18 => Node::Unsuspend(Box::new(parse(s.at(1)))),
        19 => Node::ResView(s.at(1).num() as u32, s.at(2).string().unwrap_or_default()),
        20 => Node::Await(s.at(1).num() as u32, s.at(2).num() != 0, Box::new(parse(s.at(3)))),
        21 => Node::Rich(s.at(1).num() as u8, s.at(2).string().unwrap_or_default(), Box::new(parse(s.at(3)))),
        22 => Node::Void(s.at(1).num() as u8),
        23 => Node::InnerHtml(s.at(1).string().unwrap_or_default()),
        24 => Node::WithAttr(Box::new(parse(s.at(1)))),
        25 => Node::SuspendAttr(s.at(1).num() as u32, Box::new(parse(s.at(2)))),
        28 => Node::LocalRead(Box::new(parse(s.at(1)))),
        29 => Node::Keyed(s.list()[1..].iter().map(parse).collect()),
        13 => Node::Res(s.at(1).num() as u32, Box::new(parse(s.at(2)))),
        14 => Node::LocalSuspend {
            f: s.at(1).num() as u32,
            pre: s.at(2).num() != 0,
            post: s.at(3).num() != 0,
            content: Box::new(parse(s.at(4))),
        },
        15 => Node::Wrap(s.at(1).num() as u8, Box::new(parse(s.at(2)))),
        16 => Node::Seq(s.at(1).num() as u8, s.list()[2..].iter().map(parse).collect()),
        26 => Node::TextRep(s.at(1).num() as u8, s.at(2).string().unwrap_or_default()),
        27 => Node::ElemN(s.at(1).num() as usize % 4, s.list()[2..].iter().map(parse).collect()),
        _ => panic!("bad node kind {k}"),
    }
}

/// direct sub-views
fn kids(n: &Node) -> Vec<&Node> {
    match n {
        Node::Text(_) | Node::RawSync(_) | Node::TextRep(..) | Node::ResView(..) | Node::Void(_) | Node::InnerHtml(_) => {
            vec![]
        }
        Node::Elem(_, c)
        | Node::Append(c)
        | Node::ErrB(c)
        | Node::Wrap(_, c)
        | Node::Suspend(_, c)
        | Node::RawAsync(_, c)
        | Node::Res(_, c)
        | Node::Closure(c)
        | Node::Unsuspend(c)
        | Node::Await(_, _, c)
        | Node::Rich(_, _, c)
        | Node::WithAttr(c)
        | Node::LocalRead(c)
        | Node::SuspendAttr(_, c) => vec![c],
        Node::LocalSuspend { content, .. } => vec![content],
        Node::Suspense(a, b, _) | Node::Transition(a, b, _) => vec![a, b],
        Node::Boundary { fallback, content, .. } => vec![fallback, content],
        Node::Tuple(cs) | Node::VecOf(cs) | Node::Seq(_, cs) | Node::ElemN(_, cs) | Node::Keyed(cs) => {
            cs.iter().collect()
        }
        Node::Opt(c) => c.iter().map(|c| &**c).collect(),
    }
}

fn own_future(n: &Node) -> Option<u32> {
    match n {
        Node::Suspend(f, _)
        | Node::RawAsync(f, _)
        | Node::Res(f, _)
        | Node::ResView(f, _)
        | Node::Await(f, _, _)
        | Node::SuspendAttr(f, _) => Some(*f),
        Node::LocalSuspend { f, .. } | Node::Boundary { f, .. } => Some(*f),
        _ => None,
    }
}

fn futures_of(n: &Node, out: &mut Vec<u32>) {
    if let Some(f) = own_future(n) {
        out.push(f);
    }
    for c in kids(n) {
        futures_of(c, out)
    }
}

/// futures that are awaited by more than one future object (views below a closure are built
/// again for every call; resources): `Shared`
fn shared_futures(n: &Node, under_closure: bool, out: &mut Vec<u32>) {
    let shared = under_closure || matches!(n, Node::ResView(..) | Node::Await(..));
    if shared {
        if let Some(f) = own_future(n) {
            out.push(f);
        }
    }
    let below = under_closure || matches!(n, Node::Closure(_));
    for c in kids(n) {
        shared_futures(c, below, out)
    }
}

fn is_leptos_node(n: &Node) -> bool {
    matches!(
        n,
        Node::ErrB(_)
            | Node::Suspense(..)
            | Node::Transition(..)
            | Node::Res(..)
            | Node::LocalSuspend { .. }
            | Node::Closure(_)
            | Node::Unsuspend(_)
            | Node::ResView(..)
            | Node::Await(..)
            | Node::LocalRead(_)
    )
}

fn has_leptos(n: &Node) -> bool {
    is_leptos_node(n) || kids(n).into_iter().any(has_leptos)
}

fn has_raw(n: &Node) -> bool {
    is_leptos_node(n)
        || matches!(n, Node::RawSync(_) | Node::RawAsync(..) | Node::Boundary { .. } | Node::Append(_))
        || kids(n).into_iter().any(has_raw)
}

enum Rx {
    Once(oneshot::Receiver<()>),
    Shared(futures::future::Shared<oneshot::Receiver<()>>),
}
type Rxs = Arc<std::sync::Mutex<BTreeMap<u32, Rx>>>;
type BoxFut = Pin<Box<dyn Future<Output = ()> + Send + Sync>>;

fn take_rx(rxs: &Rxs, f: u32) -> oneshot::Receiver<()> {
    match rxs.lock().unwrap().remove(&f) {
        Some(Rx::Once(rx)) => rx,
        Some(Rx::Shared(_)) => panic!("future {f} is shared"),
        None => panic!("future {f} used twice"),
    }
}

fn shared_rx(rxs: &Rxs, f: u32) -> futures::future::Shared<oneshot::Receiver<()>> {
    match rxs.lock().unwrap().get(&f) {
        Some(Rx::Shared(s)) => s.clone(),
        Some(Rx::Once(_)) => panic!("future {f} is not shared"),
        None => panic!("future {f} used twice"),
    }
}

/// the future of a Suspend body: the receiver itself, or a clone of the shared one
fn take_fut(rxs: &Rxs, f: u32) -> BoxFut {
    let mut g = rxs.lock().unwrap();
    if let Some(Rx::Shared(s)) = g.get(&f) {
        let s = s.clone();
        return Box::pin(async move {
            let _ = s.await;
        });
    }
    match g.remove(&f) {
        Some(Rx::Once(rx)) => Box::pin(async move {
            let _ = rx.await;
        }),
        _ => panic!("future {f} used twice"),
    }
}

thread_local! {
    /// nonce handed to `push_async_out_of_order_with_nonce` by the Suspense-like boundary (kind 4)
    static CASE_NONCE: std::cell::RefCell<Option<Arc<str>>> = std::cell::RefCell::new(None);
}

/// `&'static str` for a label (labels repeat across cases: bounded)
fn intern(s: &str) -> &'static str {
    thread_local! {
        static POOL: std::cell::RefCell<std::collections::HashMap<String, &'static str>> =
            std::cell::RefCell::new(std::collections::HashMap::new());
    }
    POOL.with(|p| {
        let mut p = p.borrow_mut();
        if let Some(r) = p.get(s) {
            return *r;
        }
        let r: &'static str = Box::leak(s.to_string().into_boxed_str());
        p.insert(s.to_string(), r);
        r
    })
}

fn build(n: &Node, rxs: &Rxs) -> AnyView {
    match n {
        Node::Text(s) => s.clone().into_any(),
        Node::Elem(t, c) => {
            let c = build(c, rxs);
            match t {
                0 => div().child(c).into_any(),
                1 => p().child(c).into_any(),
                2 => span().child(c).into_any(),
                _ => b().child(c).into_any(),
            }
        }
        Node::Tuple(cs) => {
            let mut v: VecDeque<AnyView> = cs.iter().map(|c| build(c, rxs)).collect();
            let mut next = || v.pop_front().unwrap();
            macro_rules! tup {
                ($($x:tt)*) => { ($({ let _ = stringify!($x); next() },)*).into_any() };
            }
            match cs.len() {
                0 => ().into_any(),
                1 => tup!(1),
                2 => tup!(1 2),
                3 => tup!(1 2 3),
                4 => tup!(1 2 3 4),
                5 => tup!(1 2 3 4 5),
                6 => tup!(1 2 3 4 5 6),
                7 => tup!(1 2 3 4 5 6 7),
                8 => tup!(1 2 3 4 5 6 7 8),
                12 => tup!(1 2 3 4 5 6 7 8 9 10 11 12),
                16 => tup!(1 2 3 4 5 6 7 8 9 10 11 12 13 14 15 16),
                25 => tup!(1 2 3 4 5 6 7 8 9 10 11 12 13 14 15 16 17 18 19 20 21 22 23 24 25),
                26 => tup!(1 2 3 4 5 6 7 8 9 10 11 12 13 14 15 16 17 18 19 20 21 22 23 24 25 26),
                n => panic!("tuple arity {n}"),
            }
        }
        Node::Wrap(w, c) => {
            use leptos::either::{Either, EitherOf3, EitherOf4};
            let c = build(c, rxs);
            match w {
                0 => Either::<AnyView, ()>::Left(c).into_any(),
                1 => Either::<(), AnyView>::Right(c).into_any(),
                2 => EitherOf3::<(), AnyView, ()>::B(c).into_any(),
                3 => Ok::<AnyView, std::fmt::Error>(c).into_any(),
                4 => tachys::reactive_graph::OwnedView::new(c).into_any(),
                5 => leptos::IntoView::into_view(c).into_any(),
                6 => EitherOf4::<(), (), (), AnyView>::D(c).into_any(),
                _ => [c].into_any(),
            }
        }
        Node::Seq(k, cs) => {
            let mut v: Vec<AnyView> = cs.iter().map(|c| build(c, rxs)).collect();
            match k {
                0 => {
                    let mut it = v.into_iter();
                    let mut next = || it.next().unwrap();
                    match cs.len() {
                        0 => ([] as [AnyView; 0]).into_any(),
                        1 => [next()].into_any(),
                        2 => [next(), next()].into_any(),
                        3 => [next(), next(), next()].into_any(),
                        4 => [next(), next(), next(), next()].into_any(),
                        n => panic!("array length {n}"),
                    }
                }
                1 => tachys::view::iterators::StaticVec::from(std::mem::take(&mut v)).into_any(),
                _ => AnyView::from(tachys::view::fragment::Fragment::new(std::mem::take(&mut v))),
            }
        }
        Node::TextRep(r, s) => {
            use leptos::oco::Oco;
            use std::borrow::Cow;
            match r {
                0 => intern(s).into_any(),
                1 => Cow::<'static, str>::Borrowed(intern(s)).into_any(),
                2 => Cow::<'static, str>::Owned(s.clone()).into_any(),
                3 => Arc::<str>::from(s.as_str()).into_any(),
                4 => Oco::<'static, str>::Borrowed(intern(s)).into_any(),
                5 => Oco::<'static, str>::Owned(s.clone()).into_any(),
                6 => Oco::<'static, str>::Counted(Arc::from(s.as_str())).into_any(),
                7 => s.parse::<u32>().expect("number").into_any(),
                8 => s.parse::<i64>().expect("number").into_any(),
                9 => leptos::prelude::ArcRwSignal::new(s.clone()).into_any(),
                _ => leptos::prelude::RwSignal::new(s.clone()).into_any(),
            }
        }
        Node::ElemN(t, cs) => {
            let mut v: VecDeque<AnyView> = cs.iter().map(|c| build(c, rxs)).collect();
            let mut next = || v.pop_front().unwrap();
            macro_rules! chain {
                ($el:expr) => {
                    match cs.len() {
                        2 => $el.child(next()).child(next()).into_any(),
                        3 => $el.child(next()).child(next()).child(next()).into_any(),
                        4 => $el.child(next()).child(next()).child(next()).child(next()).into_any(),
                        n => panic!("chained children {n}"),
                    }
                };
            }
            match t {
                0 => chain!(div()),
                1 => chain!(p()),
                2 => chain!(span()),
                _ => chain!(b()),
            }
        }
        Node::Suspend(f, c) => {
            let fut = take_fut(rxs, *f);
            let c = build(c, rxs);
            Suspend::new(async move {
                fut.await;
                c
            })
            .into_any()
        }
        Node::Boundary { f, fallback, content, some } => Raw(RawKind::Boundary {
            rx: take_rx(rxs, *f),
            fallback: build(fallback, rxs),
            content: build(content, rxs),
            some: *some,
            nonce: CASE_NONCE.with(|n| n.borrow().clone()),
        })
        .into_any(),
        Node::Append(c) => Raw(RawKind::Append(build(c, rxs))).into_any(),
        Node::RawSync(s) => Raw(RawKind::Sync(s.clone())).into_any(),
        Node::RawAsync(f, c) => {
            let rx = take_rx(rxs, *f);
            Raw(RawKind::Async(rx, build(c, rxs))).into_any()
        }
        Node::VecOf(cs) => cs.iter().map(|c| build(c, rxs)).collect::<Vec<_>>().into_any(),
        Node::Opt(c) => c.as_ref().map(|c| build(c, rxs)).into_any(),
        // the children of the leptos components are built inside the component's children closure
        // (as `view!` does), so that they are created under the component's owner
        Node::ErrB(c) => {
            use leptos::prelude::*;
            let (c, rxs) = ((**c).clone(), rxs.clone());
            view! { <ErrorBoundary fallback=|_errors| "ERR">{build(&c, &rxs)}</ErrorBoundary> }.into_any()
        }
        Node::Suspense(fb, c, nofb) => {
            use leptos::prelude::*;
            let (fb, c, rxs, rxs2) = ((**fb).clone(), (**c).clone(), rxs.clone(), rxs.clone());
            if *nofb {
                view! { <Suspense>{build(&c, &rxs)}</Suspense> }.into_any()
            } else {
                view! { <Suspense fallback=move || build(&fb, &rxs2)>{build(&c, &rxs)}</Suspense> }.into_any()
            }
        }
        Node::Transition(fb, c, setp) => {
            use leptos::prelude::*;
            let (fb, c, rxs, rxs2) = ((**fb).clone(), (**c).clone(), rxs.clone(), rxs.clone());
            if *setp {
                let pending = RwSignal::new(false);
                view! {
                    <Transition fallback=move || build(&fb, &rxs2) set_pending=pending>
                        {build(&c, &rxs)}
                    </Transition>
                }
                .into_any()
            } else {
                view! { <Transition fallback=move || build(&fb, &rxs2)>{build(&c, &rxs)}</Transition> }.into_any()
            }
        }
        Node::Closure(c) => {
            let (c, rxs) = ((**c).clone(), rxs.clone());
            (move || build(&c, &rxs)).into_any()
        }
        Node::Unsuspend(c) => {
            let (c, rxs) = ((**c).clone(), rxs.clone());
            leptos::prelude::Unsuspend::new(move || build(&c, &rxs)).into_any()
        }
        Node::ResView(f, text) => {
            let (fut, text) = (shared_rx(rxs, *f), text.clone());
            let res = leptos::prelude::Resource::new(
                || (),
                move |_| {
                    let (fut, text) = (fut.clone(), text.clone());
                    async move {
                        let _ = fut.await;
                        text
                    }
                },
            );
            res.into_any()
        }
        Node::Await(f, blocking, c) => {
            use leptos::prelude::*;
            let fut = shared_rx(rxs, *f);
            let (c, rxs, blocking) = ((**c).clone(), rxs.clone(), *blocking);
            view! {
                <Await
                    future=async move {
                        let _ = fut.await;
                    }
                    blocking=blocking
                    children=move |_: &()| build(&c, &rxs)
                />
            }
            .into_any()
        }
        Node::Rich(t, label, c) => {
            use leptos::prelude::*;
            use tachys::html::element::{style, textarea};
            let c = build(c, rxs);
            match (t, label.is_empty()) {
                (0, true) => div().child(c).into_any(),
                (0, false) => div().id(label.clone()).child(c).into_any(),
                (1, true) => textarea().child(c).into_any(),
                (1, false) => textarea().id(label.clone()).child(c).into_any(),
                (2, true) => style().child(c).into_any(),
                (2, false) => style().id(label.clone()).child(c).into_any(),
                (_, true) => span().child(c).into_any(),
                (_, false) => span().id(label.clone()).child(c).into_any(),
            }
        }
        Node::Void(k) => {
            use tachys::html::element::{br, hr, input};
            match k {
                0 => br().into_any(),
                1 => input().into_any(),
                _ => hr().into_any(),
            }
        }
        Node::InnerHtml(raw) => {
            use leptos::prelude::*;
            div().inner_html(raw.clone()).into_any()
        }
        Node::WithAttr(c) => {
            use tachys::html::attribute::custom::custom_attribute;
            let attr = custom_attribute("data-k", "v");
            // the typed `AddAnyAttr` impls of tuples / Vec / Option / the Suspense boundary where
            // the child has that shape, else the erased view (`AnyViewWithAttrs`)
            match &**c {
                Node::Tuple(cs) if cs.len() == 2 => {
                    (build(&cs[0], rxs), build(&cs[1], rxs)).add_any_attr(attr).into_any()
                }
                Node::Tuple(cs) if cs.len() == 3 => {
                    (build(&cs[0], rxs), build(&cs[1], rxs), build(&cs[2], rxs)).add_any_attr(attr).into_any()
                }
                Node::VecOf(cs) => cs.iter().map(|c| build(c, rxs)).collect::<Vec<_>>().add_any_attr(attr).into_any(),
                Node::Opt(Some(c)) => Some(build(c, rxs)).add_any_attr(attr).into_any(),
                Node::Suspense(fb, c, false) => {
                    use leptos::prelude::*;
                    let (fb, c, rxs, rxs2) = ((**fb).clone(), (**c).clone(), rxs.clone(), rxs.clone());
                    view! { <Suspense fallback=move || build(&fb, &rxs2)>{build(&c, &rxs)}</Suspense> }
                        .add_any_attr(attr)
                        .into_any()
                }
                Node::Transition(fb, c, false) => {
                    use leptos::prelude::*;
                    let (fb, c, rxs, rxs2) = ((**fb).clone(), (**c).clone(), rxs.clone(), rxs.clone());
                    view! { <Transition fallback=move || build(&fb, &rxs2)>{build(&c, &rxs)}</Transition> }
                        .add_any_attr(attr)
                        .into_any()
                }
                _ => build(c, rxs).add_any_attr(attr).into_any(),
            }
        }
        Node::Keyed(cs) => {
            let (cs, rxs) = (cs.clone(), rxs.clone());
            let items: Vec<usize> = (0..cs.len()).collect();
            tachys::view::keyed::keyed(items, |i: &usize| *i, move |_, i: usize| (|_: usize| (), build(&cs[i], &rxs)))
                .into_any()
        }
        Node::LocalRead(c) => {
            use leptos::prelude::*;
            let (c, rxs) = ((**c).clone(), rxs.clone());
            let local = LocalResource::new(|| async { 42 });
            (move || local.get().map(|_| build(&c, &rxs))).into_any()
        }
        Node::SuspendAttr(f, c) => {
            use tachys::html::attribute::custom::custom_attribute;
            let fut = take_fut(rxs, *f);
            let c = build(c, rxs);
            Suspend::new(async move {
                fut.await;
                span().child(c)
            })
            .add_any_attr(custom_attribute("data-j", "v"))
            .into_any()
        }
        Node::Res(f, c) => {
            use leptos::prelude::*;
            let res = RES
                .with(|r| r.borrow().get(f).cloned())
                .unwrap_or_else(|| panic!("resource {f} not created"));
            let (c, rxs) = ((**c).clone(), rxs.clone());
            (move || res.get().map(|_| build(&c, &rxs))).into_any()
        }
        Node::LocalSuspend { f, pre, post, content } => {
            use leptos::prelude::*;
            let rx = take_fut(rxs, *f);
            let c = build(content, rxs);
            let (pre, post) = (*pre, *post);
            let local = LocalResource::new(|| async { 42 });
            Suspend::new(async move {
                if pre {
                    let _ = local.await;
                }
                rx.await;
                if post {
                    let _ = local.await;
                }
                c
            })
            .into_any()
        }
    }
}

thread_local! {
    /// the resources of the current case (created by `create_resources`)
    static RES: std::cell::RefCell<BTreeMap<u32, leptos::prelude::ArcAsyncDerived<()>>> =
        std::cell::RefCell::new(BTreeMap::new());
}

fn res_ids(n: &Node, out: &mut Vec<u32>) {
    if let Node::Res(f, _) = n {
        out.push(*f);
    }
    for c in kids(n) {
        res_ids(c, out)
    }
}

/// creates the `ArcAsyncDerived` of every `Res` node (spawns their tasks; nothing runs yet)
fn create_resources(tree: &Node, rxs: &Rxs) {
    use futures::FutureExt as _;
    let mut ids = vec![];
    res_ids(tree, &mut ids);
    for f in ids {
        let rx = match rxs.lock().unwrap().remove(&f) {
            Some(Rx::Once(rx)) => rx.shared(),
            Some(Rx::Shared(s)) => s,
            None => panic!("future {f} used twice"),
        };
        let res = leptos::prelude::ArcAsyncDerived::new(move || {
            let rx = rx.clone();
            async move {
                let _ = rx.await;
            }
        });
        RES.with(|r| r.borrow_mut().insert(f, res));
    }
}

// ------------------------------------------------------------------ a deterministic executor
// (leptos' Suspense spawns an effect; nothing runs unless the harness says so)
mod exec {
    use std::{
        cell::RefCell,
            collections::{BTreeMap, VecDeque},
        future::Future,
        pin::Pin,
        sync::{Arc, Mutex},
        task::{Context, Poll, Wake, Waker},
    };
    type Fut = Pin<Box<dyn Future<Output = ()>>>;
    thread_local! {
        static TASKS: RefCell<BTreeMap<usize, Fut>> = RefCell::new(BTreeMap::new());
        static NEXT: RefCell<usize> = RefCell::new(0);
    }
    static READY: Mutex<VecDeque<usize>> = Mutex::new(VecDeque::new());
    struct IdWaker(usize);
    impl Wake for IdWaker {
        fn wake(self: Arc<Self>) {
            READY.lock().unwrap().push_back(self.0);
        }
    }
    fn add(fut: Fut) {
        let id = NEXT.with(|n| {
            let mut n = n.borrow_mut();
            *n += 1;
            *n
        });
        TASKS.with(|t| t.borrow_mut().insert(id, fut));
        READY.lock().unwrap().push_back(id);
    }
    pub struct Det;
    impl any_spawner::CustomExecutor for Det {
        fn spawn(&self, fut: any_spawner::PinnedFuture<()>) {
            add(fut)
        }
        fn spawn_local(&self, fut: any_spawner::PinnedLocalFuture<()>) {
            add(fut)
        }
        fn poll_local(&self) {}
    }
    /// run every runnable task until nothing is runnable
    pub fn settle() {
        for _ in 0..100_000 {
            let id = match READY.lock().unwrap().pop_front() {
                Some(id) => id,
                None => return,
            };
            let fut = TASKS.with(|t| t.borrow_mut().remove(&id));
            if let Some(mut fut) = fut {
                let waker = Waker::from(Arc::new(IdWaker(id)));
                let mut cx = Context::from_waker(&waker);
                if let Poll::Pending = fut.as_mut().poll(&mut cx) {
                    TASKS.with(|t| t.borrow_mut().insert(id, fut));
                }
            }
        }
        panic!("executor does not settle");
    }
    pub fn reset() {
        // dropping a task may spawn or wake others
        loop {
            let t = TASKS.with(|t| std::mem::take(&mut *t.borrow_mut()));
            READY.lock().unwrap().clear();
            if t.is_empty() {
                break;
            }
            drop(t);
        }
    }
}

// ------------------------------------------------------------------ views that call the StreamBuilder API directly
enum RawKind {
    Boundary { rx: oneshot::Receiver<()>, fallback: AnyView, content: AnyView, some: bool, nonce: Option<Arc<str>> },
    Append(AnyView),
    Sync(String),
    Async(oneshot::Receiver<()>, AnyView),
}
struct Raw(RawKind);

impl Render for Raw {
    type State = ();
    fn build(self) -> Self::State {}
    fn rebuild(self, _state: &mut Self::State) {}
}

impl AddAnyAttr for Raw {
    type Output<SomeNewAttr: Attribute> = Raw;
    fn add_any_attr<NewAttr: Attribute>(self, _attr: NewAttr) -> Self::Output<NewAttr> {
        self
    }
}

impl RenderHtml for Raw {
    type AsyncOutput = Raw;
    type Owned = Raw;
    const MIN_LENGTH: usize = 0;

    fn dry_resolve(&mut self) {}

    async fn resolve(self) -> Self::AsyncOutput {
        self
    }

    fn to_html_with_buf(
        self,
        buf: &mut String,
        position: &mut Position,
        escape: bool,
        mark_branches: bool,
        extra_attrs: Vec<AnyAttribute>,
    ) {
        match self.0 {
            RawKind::Sync(s) => buf.push_str(&s),
            RawKind::Async(rx, view) => {
                if rx.now_or_never().is_some() {
                    let mut pos = *position;
                    view.to_html_with_buf(buf, &mut pos, escape, mark_branches, extra_attrs);
                }
            }
            RawKind::Append(view) => {
                // leptos/src/error_boundary.rs, to_html_with_buf, no-error path
                let mut new_buf = String::new();
                let mut new_pos = *position;
                view.to_html_with_buf(&mut new_buf, &mut new_pos, escape, mark_branches, extra_attrs);
                buf.push_str(&new_buf);
                *position = new_pos;
            }
            // SuspenseBoundary::to_html_with_buf renders the fallback
            RawKind::Boundary { fallback, .. } => {
                fallback.to_html_with_buf(buf, position, escape, mark_branches, extra_attrs)
            }
        }
    }

    fn to_html_async_with_buf<const OUT_OF_ORDER: bool>(
        self,
        buf: &mut StreamBuilder,
        position: &mut Position,
        escape: bool,
        mark_branches: bool,
        extra_attrs: Vec<AnyAttribute>,
    ) {
        match self.0 {
            RawKind::Sync(s) => buf.push_sync(&s),
            RawKind::Async(rx, view) => {
                let id = buf.clone_id();
                let mut position = *position;
                buf.push_async(async move {
                    let _ = rx.await;
                    let mut builder = StreamBuilder::new(id);
                    view.to_html_async_with_buf::<OUT_OF_ORDER>(
                        &mut builder,
                        &mut position,
                        escape,
                        mark_branches,
                        extra_attrs,
                    );
                    builder.finish().take_chunks()
                });
            }
            RawKind::Append(view) => {
                // leptos/src/error_boundary.rs, to_html_async_with_buf, no-error path
                let mut new_buf = StreamBuilder::new(buf.clone_id());
                let mut new_pos = *position;
                view.to_html_async_with_buf::<OUT_OF_ORDER>(
                    &mut new_buf,
                    &mut new_pos,
                    escape,
                    mark_branches,
                    extra_attrs,
                );
                buf.append(new_buf);
                *position = new_pos;
            }
            RawKind::Boundary { rx, fallback, content, some, nonce } => {
                // leptos/src/suspense_component.rs, SuspenseBoundary::to_html_async_with_buf,
                // with the task-set/children future replaced by a oneshot
                buf.next_id();
                let mut fut = Box::pin(async move {
                    let _ = rx.await;
                    if some {
                        Some(content)
                    } else {
                        None
                    }
                });
                match fut.as_mut().now_or_never() {
                    Some(Some(resolved)) => resolved.to_html_async_with_buf::<OUT_OF_ORDER>(
                        buf,
                        position,
                        escape,
                        mark_branches,
                        extra_attrs,
                    ),
                    Some(None) => fallback.to_html_async_with_buf::<OUT_OF_ORDER>(
                        buf,
                        position,
                        escape,
                        mark_branches,
                        extra_attrs,
                    ),
                    None => {
                        let id = buf.clone_id();
                        if OUT_OF_ORDER {
                            let mut fallback_position = *position;
                            buf.push_fallback(
                                fallback,
                                &mut fallback_position,
                                mark_branches,
                                extra_attrs.clone(),
                            );
                            buf.push_async_out_of_order_with_nonce(
                                fut,
                                position,
                                mark_branches,
                                nonce,
                                extra_attrs,
                            );
                        } else {
                            buf.push_async({
                                let mut position = *position;
                                async move {
                                    let value = match fut.await {
                                        None => fallback,
                                        Some(value) => value,
                                    };
                                    let mut builder = StreamBuilder::new(id);
                                    value.to_html_async_with_buf::<OUT_OF_ORDER>(
                                        &mut builder,
                                        &mut position,
                                        escape,
                                        mark_branches,
                                        extra_attrs,
                                    );
                                    builder.finish().take_chunks()
                                }
                            });
                            *position = Position::NextChild;
                        }
                    }
                }
            }
        }
    }

    fn hydrate<const FROM_SERVER: bool>(
        self,
        _cursor: &Cursor,
        _position: &PositionState,
    ) -> Self::State {
    }

    fn into_owned(self) -> Self::Owned {
        self
    }
}

// ------------------------------------------------------------------ driving the stream
/// counts the wake-ups of the stream's task.  With `fresh_wakers` every poll gets a waker of a
/// new generation and only the newest generation is live (a stale waker wakes nobody).
struct CountWaker {
    n: AtomicUsize,
    gen: usize,
    live: Arc<AtomicUsize>,
}
impl CountWaker {
    fn simple() -> Arc<Self> {
        Arc::new(CountWaker { n: AtomicUsize::new(0), gen: 0, live: Arc::new(AtomicUsize::new(0)) })
    }
    fn hit(&self) {
        if self.live.load(Ordering::SeqCst) == self.gen {
            self.n.fetch_add(1, Ordering::SeqCst);
        }
    }
}
impl Wake for CountWaker {
    fn wake(self: Arc<Self>) {
        self.hit()
    }
    fn wake_by_ref(self: &Arc<Self>) {
        self.hit()
    }
}

fn block_on_ready<F: Future>(fut: F) -> Option<F::Output> {
    // the future is expected to be ready without waiting (all oneshots already sent)
    let mut fut = Box::pin(fut);
    let w = CountWaker::simple();
    let waker = Waker::from(w);
    let mut cx = Context::from_waker(&waker);
    for _ in 0..POLL_BOUND {
        if let Poll::Ready(v) = fut.as_mut().poll(&mut cx) {
            return Some(v);
        }
    }
    None
}

struct Driver {
    stream: Pin<Box<StreamBuilder>>,
    txs: BTreeMap<u32, oneshot::Sender<()>>,
    count: Arc<CountWaker>,
    /// wake-ups counted by retired wakers while they were live
    total: AtomicUsize,
    waker: Waker,
    log: Vec<Sexp>,
    ended: bool,
    /// the view contains leptos components, which spawn tasks
    spawny: bool,
    /// drive 2: a new waker for every poll, the older ones are dead
    fresh_wakers: bool,
}

impl Driver {
    /// wake-ups of the task so far (all generations of its waker)
    fn wakes(&self) -> usize {
        self.total.load(Ordering::SeqCst) + self.count.n.load(Ordering::SeqCst)
    }
    fn poll(&mut self) -> u8 {
        if self.fresh_wakers {
            // retire the current waker: what it counted is kept, from now on it wakes nobody
            self.total.fetch_add(self.count.n.load(Ordering::SeqCst), Ordering::SeqCst);
            let gen = self.count.gen + 1;
            self.count.live.store(gen, Ordering::SeqCst);
            self.count = Arc::new(CountWaker { n: AtomicUsize::new(0), gen, live: self.count.live.clone() });
            self.waker = Waker::from(self.count.clone());
        }
        let mut cx = Context::from_waker(&self.waker);
        let before = self.wakes();
        let r = self.stream.as_mut().poll_next(&mut cx);
        exec::settle();
        let woken = self.wakes() - before;
        let r = self.log_poll(r);
        if woken > 0 && self.spawny {
            // with spawned tasks (the leptos components) the task can be woken while it runs.
            // (Without them the only such wake-up is spurious: a nested Suspend replaces the
            // LocalResourceNotifier context of a sibling, whose dropped sender wakes us.)
            self.log.push(Lst(vec![Num(4), Num(woken as i64)]));
        }
        r
    }
    fn log_poll(&mut self, r: Poll<Option<String>>) -> u8 {
        match r {
            Poll::Pending => {
                self.log.push(Lst(vec![Num(0)]));
                0
            }
            Poll::Ready(Some(s)) => {
                self.log.push(Lst(vec![Num(1), Sexp::from_str(&s)]));
                1
            }
            Poll::Ready(None) => {
                self.log.push(Lst(vec![Num(2)]));
                self.ended = true;
                2
            }
        }
    }
    /// returns the number of wake-ups of the stream's task caused by this completion
    fn complete(&mut self, f: u32) -> usize {
        let before = self.wakes();
        if let Some(tx) = self.txs.remove(&f) {
            let _ = tx.send(());
        }
        exec::settle();
        let w = self.wakes() - before;
        self.log.push(Lst(vec![Num(3), Num(w as i64)]));
        w
    }
    /// poll until Pending or None (what `while let Some(x) = stream.next().await` does)
    fn run_task(&mut self) {
        for _ in 0..POLL_BOUND {
            if self.poll() != 1 {
                return;
            }
        }
        self.log.push(Lst(vec![Num(9)]));
    }
    /// run the task, and again as long as it was woken while (or right after) it ran
    fn pump(&mut self) {
        for _ in 0..POLL_BOUND {
            let seen = self.wakes();
            self.run_task();
            if self.ended || !self.spawny || self.wakes() == seen {
                return;
            }
        }
    }
}

fn channels(tree: &Node, futs: &[u32]) -> (Rxs, BTreeMap<u32, oneshot::Sender<()>>) {
    let mut shared = vec![];
    shared_futures(tree, false, &mut shared);
    let mut rxs = BTreeMap::new();
    let mut txs = BTreeMap::new();
    for f in futs {
        let (tx, rx) = oneshot::channel::<()>();
        let rx = if shared.contains(f) { Rx::Shared(rx.shared()) } else { Rx::Once(rx) };
        if rxs.insert(*f, rx).is_some() {
            panic!("future {f} used twice");
        }
        txs.insert(*f, tx);
    }
    (Arc::new(std::sync::Mutex::new(rxs)), txs)
}

/// the stream of a view through the entry point selected by `mode` (bit 0 out-of-order, bit 1 branching)
fn stream_of(view: AnyView, mode: i64) -> StreamBuilder {
    match mode & 3 {
        0 => view.to_html_stream_in_order(),
        1 => view.to_html_stream_out_of_order(),
        2 => view.to_html_stream_in_order_branching(),
        _ => view.to_html_stream_out_of_order_branching(),
    }
}

/// mode bit 2: provide a nonce (under the current owner); returns the log entry (12 bytes)
fn setup_nonce(mode: i64, tree: &Node) -> Option<Sexp> {
    CASE_NONCE.with(|n| *n.borrow_mut() = None);
    if mode & 4 == 0 {
        return None;
    }
    let nonce: String = if has_leptos(tree) {
        leptos::nonce::provide_nonce();
        leptos::nonce::use_nonce().expect("nonce").to_string()
    } else {
        "n0nce-K4".to_string()
    };
    CASE_NONCE.with(|n| *n.borrow_mut() = Some(Arc::from(nonce.as_str())));
    Some(Lst(vec![Num(12), Sexp::from_str(&nonce)]))
}

fn reference(tree: &Node, futs: &[u32]) -> (Sexp, Sexp) {
    // ref: everything complete before rendering, in-order stream
    let owner = new_owner();
    let r1 = owner.with(|| {
        let (rxs, txs) = channels(tree, futs);
        for (_, tx) in txs {
            let _ = tx.send(());
        }
        create_resources(tree, &rxs);
        exec::settle();
        let view = build(tree, &rxs);
        let mut stream = Box::pin(view.to_html_stream_in_order());
        let w = CountWaker::simple();
        let waker = Waker::from(w);
        let mut cx = Context::from_waker(&waker);
        let mut out = String::new();
        let mut pending = false;
        exec::settle();
        for _ in 0..POLL_BOUND {
            let r = stream.as_mut().poll_next(&mut cx);
            exec::settle();
            match r {
                Poll::Ready(Some(s)) => out.push_str(&s),
                Poll::Ready(None) => return Sexp::from_str(&out),
                // only the leptos components are pending although every future is complete
                // (their effect has to run first)
                Poll::Pending => pending = true,
            }
        }
        Lst(vec![Num(if pending { -1 } else { -2 }), Sexp::from_str(&out)])
    });
    // ref2: resolve().await.to_html()
    let r2 = if has_raw(tree) {
        Lst(vec![])
    } else {
        let owner = new_owner();
        owner.with(|| {
            let (rxs, txs) = channels(tree, futs);
            for (_, tx) in txs {
                let _ = tx.send(());
            }
            let view = build(tree, &rxs);
            exec::settle();
            match block_on_ready(view.resolve()) {
                Some(v) => Lst(vec![Sexp::from_str(&v.to_html())]),
                None => Lst(vec![Num(-1)]),
            }
        })
    };
    (r1, r2)
}

/// opcode 1: the executor runs only when the schedule says so.
/// events: (0 f) complete f | (1) poll | (2) tick: run the executor until it stalls |
///         (3) create the resources | (4) render: build the view and its stream
/// (create / render happen implicitly before the first event that needs them).  After the
/// schedule: complete what is left, then alternate tick and poll until the stream ends.
/// log: polls as in opcode 0, (3 0) completion, (5) tick, (6) create, (7) render
fn run_ticks(c: &Sexp) -> Sexp {
    let mode = c.at(1).num();
    let tree = parse(c.at(3));
    let sched: Vec<(i64, u32)> = c
        .at(5)
        .list()
        .iter()
        .map(|e| (e.at(0).num(), e.at(1).num() as u32))
        .collect();
    let mut futs = vec![];
    futures_of(&tree, &mut futs);
    exec::reset();
    RES.with(|r| r.borrow_mut().clear());
    let (r1, _) = reference(&tree, &futs);
    exec::reset();
    RES.with(|r| r.borrow_mut().clear());

    let owner = new_owner();
    let log = owner.with(|| {
        let (rxs, mut txs) = channels(&tree, &futs);
        let count = CountWaker::simple();
        let waker = Waker::from(count.clone());
        let mut stream: Option<Pin<Box<StreamBuilder>>> = None;
        let mut created = false;
        let mut ended = false;
        let mut log: Vec<Sexp> = vec![];
        log.extend(setup_nonce(mode, &tree));
        let mut step = |k: i64, f: u32, log: &mut Vec<Sexp>, ended: &mut bool| {
            if (k == 4 || k == 1) && !created {
                create_resources(&tree, &rxs);
                created = true;
                log.push(Lst(vec![Num(6)]));
            }
            if k == 1 && stream.is_none() {
                let view = build(&tree, &rxs);
                stream = Some(Box::pin(stream_of(view, mode)));
                log.push(Lst(vec![Num(7)]));
            }
            match k {
                0 => {
                    if let Some(tx) = txs.remove(&f) {
                        let _ = tx.send(());
                    }
                    log.push(Lst(vec![Num(3), Num(0)]));
                }
                1 => {
                    let mut cx = Context::from_waker(&waker);
                    match stream.as_mut().unwrap().as_mut().poll_next(&mut cx) {
                        Poll::Pending => log.push(Lst(vec![Num(0)])),
                        Poll::Ready(Some(s)) => log.push(Lst(vec![Num(1), Sexp::from_str(&s)])),
                        Poll::Ready(None) => {
                            log.push(Lst(vec![Num(2)]));
                            *ended = true;
                        }
                    }
                }
                2 => {
                    exec::settle();
                    log.push(Lst(vec![Num(5)]));
                }
                3 => {
                    if !created {
                        create_resources(&tree, &rxs);
                        created = true;
                        log.push(Lst(vec![Num(6)]));
                    }
                }
                _ => {
                    if stream.is_none() {
                        let view = build(&tree, &rxs);
                        stream = Some(Box::pin(stream_of(view, mode)));
                        log.push(Lst(vec![Num(7)]));
                    }
                }
            }
        };
        for (k, f) in &sched {
            step(*k, *f, &mut log, &mut ended);
        }
        let mut rest = futs.clone();
        rest.sort();
        rest.dedup();
        let done: std::collections::BTreeSet<u32> =
            sched.iter().filter(|(k, _)| *k == 0).map(|(_, f)| *f).collect();
        for f in rest {
            if !done.contains(&f) {
                step(0, f, &mut log, &mut ended);
            }
        }
        let mut n = 0;
        while !ended {
            if n >= POLL_BOUND {
                log.push(Lst(vec![Num(9)]));
                break;
            }
            step(2, 0, &mut log, &mut ended);
            step(1, 0, &mut log, &mut ended);
            n += 1;
        }
        drop(step);
        drop(stream);
        log
    });
    exec::reset();
    RES.with(|r| r.borrow_mut().clear());
    Lst(vec![r1, Lst(vec![]), Lst(log)])
}

/// opcode 2: the view goes through the real response pipeline of the integrations:
/// `leptos_integration_utils::ExtendResponse::from_app` (build_response: root owner + SSR shared
/// context, the app rendered at the first poll, `ready_chunks(32)`, deferred (blocking)
/// resources awaited before the first and between chunks, meta injection, the resource
/// `<script>` chunks chained behind the app, `WithOwner`, the trailing chunk that unsets the
/// owner) with a stream builder of the shape the axum / actix integrations pass in.
/// events: (0 f) complete f | (1) poll the handler future / the response body | (2) tick.
/// After the schedule: complete what is left, then alternate tick and poll until the body ends.
mod pipeline {
    use super::*;
    use futures::StreamExt;
    use leptos_integration_utils::{BoxedFnOnce, ExtendResponse, PinnedFuture, PinnedStream};

    pub struct Resp(pub PinnedStream<String>);
    impl ExtendResponse for Resp {
        type ResponseOptions = ();
        fn from_stream(stream: impl Stream<Item = String> + Send + 'static) -> Self {
            Resp(Box::pin(stream))
        }
        fn extend_response(&mut self, _: &()) {}
        fn set_default_content_type(&mut self, _: &str) {}
    }

    type Builder = fn(AnyView, BoxedFnOnce<PinnedStream<String>>, bool) -> PinnedFuture<PinnedStream<String>>;

    fn stream_builder(mode: i64) -> Builder {
        // integrations/axum render_app_to_stream_with_context_and_replace_blocks / render_app_to_stream_in_order…
        match mode & 3 {
            0 => |app, chunks, _| {
                Box::pin(async move { Box::pin(app.to_html_stream_in_order().chain(chunks())) as PinnedStream<String> })
            },
            1 => |app, chunks, _| {
                Box::pin(async move { Box::pin(app.to_html_stream_out_of_order().chain(chunks())) as PinnedStream<String> })
            },
            2 => |app, chunks, _| {
                Box::pin(async move {
                    Box::pin(app.to_html_stream_in_order_branching().chain(chunks())) as PinnedStream<String>
                })
            },
            _ => |app, chunks, _| {
                Box::pin(async move {
                    Box::pin(app.to_html_stream_out_of_order_branching().chain(chunks())) as PinnedStream<String>
                })
            },
        }
    }

    pub fn run(c: &Sexp) -> Sexp {
        let mode = c.at(1).num();
        let tree = parse(c.at(3));
        let sched: Vec<(i64, u32)> =
            c.at(5).list().iter().map(|e| (e.at(0).num(), e.at(1).num() as u32)).collect();
        let mut futs = vec![];
        futures_of(&tree, &mut futs);
        exec::reset();
        RES.with(|r| r.borrow_mut().clear());
        let (r1, _) = reference(&tree, &futs);
        exec::reset();
        RES.with(|r| r.borrow_mut().clear());

        let (rxs, mut txs) = channels(&tree, &futs);
        let nonce_log: Arc<std::sync::Mutex<Option<Sexp>>> = Default::default();
        let app_fn = {
            let (tree, rxs) = (tree.clone(), rxs.clone());
            move || {
                create_resources(&tree, &rxs);
                build(&tree, &rxs)
            }
        };
        let additional_context = {
            let (tree, nonce_log) = (tree.clone(), nonce_log.clone());
            move || {
                *nonce_log.lock().unwrap() = setup_nonce(mode, &tree);
            }
        };
        let (_meta, meta_out) = leptos_meta::ServerMetaContext::new();
        let mut handler: Option<Pin<Box<dyn Future<Output = Resp>>>> = Some(Box::pin(Resp::from_app(
            app_fn,
            meta_out,
            additional_context,
            (),
            stream_builder(mode),
            false,
        )));
        let mut body: Option<PinnedStream<String>> = None;
        let count = CountWaker::simple();
        let waker = Waker::from(count.clone());
        let mut ended = false;
        let mut log: Vec<Sexp> = vec![];
        let mut step = |k: i64, f: u32, log: &mut Vec<Sexp>, ended: &mut bool| match k {
            0 => {
                if let Some(tx) = txs.remove(&f) {
                    let _ = tx.send(());
                }
                log.push(Lst(vec![Num(3), Num(0)]));
            }
            1 => {
                let mut cx = Context::from_waker(&waker);
                if let Some(h) = handler.as_mut() {
                    match h.as_mut().poll(&mut cx) {
                        Poll::Pending => {
                            log.push(Lst(vec![Num(0)]));
                            return;
                        }
                        Poll::Ready(resp) => {
                            handler = None;
                            body = Some(resp.0);
                        }
                    }
                }
                match body.as_mut().unwrap().as_mut().poll_next(&mut cx) {
                    Poll::Pending => log.push(Lst(vec![Num(0)])),
                    Poll::Ready(Some(s)) => log.push(Lst(vec![Num(1), Sexp::from_str(&s)])),
                    Poll::Ready(None) => {
                        log.push(Lst(vec![Num(2)]));
                        *ended = true;
                    }
                }
            }
            _ => {
                exec::settle();
                log.push(Lst(vec![Num(5)]));
            }
        };
        for (k, f) in &sched {
            if !ended {
                step(*k, *f, &mut log, &mut ended);
            }
        }
        let mut rest = futs.clone();
        rest.sort();
        rest.dedup();
        let done: std::collections::BTreeSet<u32> =
            sched.iter().filter(|(k, _)| *k == 0).map(|(_, f)| *f).collect();
        for f in rest {
            if !done.contains(&f) {
                step(0, f, &mut log, &mut ended);
            }
        }
        let mut n = 0;
        while !ended {
            if n >= POLL_BOUND {
                log.push(Lst(vec![Num(9)]));
                break;
            }
            step(2, 0, &mut log, &mut ended);
            step(1, 0, &mut log, &mut ended);
            n += 1;
        }
        drop(step);
        drop(body);
        drop(handler);
        exec::reset();
        RES.with(|r| r.borrow_mut().clear());
        if let Some(e) = nonce_log.lock().unwrap().take() {
            log.insert(0, e);
        }
        Lst(vec![r1, Lst(vec![]), Lst(log)])
    }
}

fn run(c: &Sexp) -> Sexp {
    if c.at(0).num() == 1 {
        return run_ticks(c);
    }
    if c.at(0).num() == 2 {
        return pipeline::run(c);
    }
    if c.at(0).num() != 0 {
        return Lst(vec![]);
    }
    let mode = c.at(1).num();
    let drive = c.at(2).num();
    let tree = parse(c.at(3));
    let init: Vec<u32> = c.at(4).nums().into_iter().map(|x| x as u32).collect();
    let sched: Vec<(i64, u32)> = c
        .at(5)
        .list()
        .iter()
        .map(|e| (e.at(0).num(), e.at(1).num() as u32))
        .collect();
    let mut futs = vec![];
    futures_of(&tree, &mut futs);
    exec::reset();
    RES.with(|r| r.borrow_mut().clear());
    let (r1, r2) = reference(&tree, &futs);
    exec::reset();
    RES.with(|r| r.borrow_mut().clear());

    let owner = new_owner();
    let log = owner.with(|| {
        let (rxs, mut txs) = channels(&tree, &futs);
        for f in &init {
            if let Some(tx) = txs.remove(f) {
                let _ = tx.send(());
            }
        }
        let nonce_entry = setup_nonce(mode, &tree);
        create_resources(&tree, &rxs);
        exec::settle();
        let view = build(&tree, &rxs);
        let stream = stream_of(view, mode);
        exec::settle();
        let count = Arc::new(CountWaker { n: AtomicUsize::new(0), gen: 0, live: Arc::new(AtomicUsize::new(0)) });
        let mut d = Driver {
            stream: Box::pin(stream),
            txs,
            waker: Waker::from(count.clone()),
            count,
            total: AtomicUsize::new(0),
            log: nonce_entry.into_iter().collect(),
            ended: false,
            spawny: has_leptos(&tree),
            fresh_wakers: drive == 2,
        };
        if drive != 1 && drive != 2 {
            for (k, f) in &sched {
                match k {
                    0 => {
                        d.complete(*f);
                    }
                    _ => {
                        d.poll();
                    }
                }
            }
            let rest: Vec<u32> = d.txs.keys().copied().collect();
            for f in rest {
                d.complete(f);
            }
            let mut n = 0;
            while !d.ended {
                if n >= POLL_BOUND {
                    d.log.push(Lst(vec![Num(9)]));
                    break;
                }
                d.poll();
                n += 1;
            }
        } else {
            d.pump();
            let mut order: Vec<u32> =
                sched.iter().filter(|(k, _)| *k == 0).map(|(_, f)| *f).collect();
            order.extend(d.txs.keys().copied().collect::<Vec<_>>());
            let mut seen: std::collections::BTreeSet<u32> = init.iter().copied().collect();
            for f in order {
                if !seen.insert(f) {
                    continue;
                }
                let w = d.complete(f);
                if w > 0 && !d.ended {
                    d.pump();
                }
            }
            if !d.ended {
                d.log.push(Lst(vec![Num(8)]));
            }
        }
        d.log
    });
    Lst(vec![r1, r2, Lst(log)])
}

fn main() {
    let which = std::env::args().nth(1).unwrap_or_default();
    any_spawner::Executor::init_custom_executor(exec::Det).expect("executor");
    match which.as_str() {
        "c07" => vsexp::drive(run),
        other => {
            eprintln!("unknown sub-command {other:?}");
            std::process::exit(2)
        }
    }
}
