//! C14 — the router matches exactly the paths its route table declares.
//!
//! case  : (0 base routes path)
//!   base   : ()            no base            | (bytes)  RouteDefs::new_with_base
//!   routes : (route ..)    1..6 siblings (a real tuple of that arity)
//!   route  : (seg 0)       NestedRoute::new(seg, view)
//!          | (seg 1 (route ..))   .child(<tuple of 1..12 routes>)
//!          | (seg 2 (route ..))   .child(StaticVec::from(vec![routes ..]))
//!   seg    : (0 bytes) StaticSegment | (1 name) ParamSegment | (2 name) OptionalParamSegment
//!          | (3 name) WildcardSegment | (4) () | (5 (seg ..)) tuple of 1..12 segments
//!          | (seg 3)       .child(())  (the unit `MatchNestedRoutes`: matches everything, adds `Unit`)
//!   sibling lists of 13..16 routes are real tuples of that arity behind a forwarding `Clone` wrapper
//!   path   : bytes (valid UTF-8)
//!   5th element = flags (the model ignores bits 0..4: representations, not semantics):
//!     1   the top-level siblings are a StaticVec instead of a tuple
//!     2   every segment value is handed over as Box<dyn PossibleRouteMatch + Send + Sync>
//!     4   .. as Arc<dyn PossibleRouteMatch + Send + Sync>
//!     8   static segments are StaticSegment<T> for a user type T: AsPath (not &'static str)
//!     16  the base is a &'static str (Cow::Borrowed) instead of a String
//!     32  (op 2) into_paths(None): no prerendered params at all
//!     64  (op 2) the StaticParamsMap is built with FromIterator (duplicates kept, first wins)
//!     128 (op 2) the builder is reached through RouteListing::into_static_paths
//!                (SsrMode::Static(StaticRoute::new().prerender_params(..)))
//!     256 (op 4) <FlatRoutes> instead of <Routes>
//!
//! case  : (3 seg path [flags])   PossibleRouteMatch::test called directly on a segment value
//!   observation : () no match | (-1) panic | (1 matched remaining params is_complete)
//!
//! case  : (4 base routes flags excluded)   the server's route table: a real app
//!   <Router base?><Routes|FlatRoutes fallback>{routes}</..></Router> handed to
//!   RouteList::generate, leptos_axum::generate_route_list_with_exclusions and
//!   leptos_actix::generate_route_list_with_exclusions; excluded = (path ..)
//!   observation : (((pseg ..) ..)  ((axum-path n-methods) ..)  ((actix-path n-methods) ..))
//!
//! case  : (5 i)   the i-th literal of a fixed list compiled through the `path!` macro
//!   observation : () beyond the list | (literal (pseg ..))
//!
//! case  : (2 base routes pmap [1])   pmap = ((name (value ..)) ..)
//!   drives the REAL path builder (static_routes.rs): for every generated flat route, with
//!   Static(base) in front the way the router registers it, `StaticPath::new(segs)
//!   .into_paths(Some(pmap))`, once on the route as generated and once on each of its
//!   expand_optionals() variants; every built path is fed back to RouteDefs::match_route.
//!   observation : (base flat ((unexpanded (per-expansion ..)) ..))
//!     unexpanded : built      per-expansion : (segments built)
//!     built : (-1) the builder panicked | ((path match) ..)
//!
//! observation : (base flat expanded match nested)
//!   base     : () | (bytes)                       as returned by generate_routes()
//!   flat     : ((pseg ..) ..)                     generate_routes(), in order
//!   expanded : (((pseg ..) ..) ..)                expand_optionals() of each flat route
//!   pseg     : (0 s) Static (1 n) Param (2 n) OptionalParam (3 n) Splat (4) Unit
//!   match    : () no match | (-1) panic | (1 chain params)   RouteDefs::match_route(path)
//!   nested   : (-1) panic | (0 remaining) | (1 remaining chain params)
//!                                                 MatchNestedRoutes::match_nested(path) on the
//!                                                 sibling tuple itself (base not involved)
//!   chain    : ((id matched) ..) outermost first; id = pre-order index of the NestedRoute
//!   params   : ((name value) ..)
use leptos_router::{
    any_nested_match::AnyNestedMatch,
    any_nested_route::{AnyNestedRoute, IntoAnyNestedRoute},
    AsPath, ExpandOptionals, GeneratedRouteData, MatchInterface,
    MatchNestedRoutes, MatchParams, NestedRoute, OptionalParamSegment,
    ParamSegment, PartialPathMatch, PathSegment, PossibleRouteMatch,
    RouteDefs, RouteMatchId, StaticSegment, WildcardSegment,
};
use std::{
    collections::HashMap,
    panic::{catch_unwind, AssertUnwindSafe},
    sync::{Arc, Mutex},
};
use leptos::tachys::view::iterators::StaticVec;
use vsexp::{Lst, Num, Sexp};

// ---------------------------------------------------------------- segments
/// One value of this enum is one real leptos_router segment (or a real tuple of
/// them); the enum only forwards the trait calls.
macro_rules! segty {
    ($i:tt) => {
        Seg
    };
}
macro_rules! segs {
    ($($i:tt)*) => { ( $( segty!($i), )* ) };
}
/// a tuple whose components are successive results of `$next()`
macro_rules! tup {
    ($next:ident; $($i:tt)*) => { ( $( { let _ = $i; $next() }, )* ) };
}

/// a user-defined `AsPath` type (upstream's tests use an enum)
#[derive(Debug, Clone, Copy, PartialEq, Eq, Hash)]
pub(crate) struct Interned(&'static str);
impl AsPath for Interned {
    fn as_path(&self) -> &'static str {
        self.0
    }
}

/// `Box<dyn PossibleRouteMatch + Send + Sync>` with the `Clone` + `Debug` the tuple impls need
pub(crate) struct BoxSeg {
    inner: Box<dyn PossibleRouteMatch + Send + Sync>,
    src: Box<Seg>,
}
impl BoxSeg {
    fn new(seg: Seg) -> Self {
        BoxSeg {
            inner: Box::new(seg.clone()),
            src: Box::new(seg),
        }
    }
}
impl Clone for BoxSeg {
    fn clone(&self) -> Self {
        BoxSeg::new((*self.src).clone())
    }
}
impl std::fmt::Debug for BoxSeg {
    fn fmt(&self, f: &mut std::fmt::Formatter<'_>) -> std::fmt::Result {
        write!(f, "Box({:?})", self.src)
    }
}
/// `Arc<dyn PossibleRouteMatch + Send + Sync>`
#[derive(Clone)]
pub(crate) struct ArcSeg {
    inner: Arc<dyn PossibleRouteMatch + Send + Sync>,
}
impl std::fmt::Debug for ArcSeg {
    fn fmt(&self, f: &mut std::fmt::Formatter<'_>) -> std::fmt::Result {
        write!(f, "Arc(..)")
    }
}

#[derive(Debug, Clone)]
pub(crate) enum Seg {
    S(StaticSegment<&'static str>),
    SI(StaticSegment<Interned>),
    Bx(BoxSeg),
    Ax(ArcSeg),
    P(ParamSegment),
    O(OptionalParamSegment),
    W(WildcardSegment),
    U(()),
    T1(Box<(Seg,)>),
    T2(Box<(Seg, Seg)>),
    T3(Box<(Seg, Seg, Seg)>),
    T4(Box<(Seg, Seg, Seg, Seg)>),
    T5(Box<(Seg, Seg, Seg, Seg, Seg)>),
    T6(Box<(Seg, Seg, Seg, Seg, Seg, Seg)>),
    T7(Box<segs!(1 2 3 4 5 6 7)>),
    T8(Box<segs!(1 2 3 4 5 6 7 8)>),
    T9(Box<segs!(1 2 3 4 5 6 7 8 9)>),
    T10(Box<segs!(1 2 3 4 5 6 7 8 9 10)>),
    T11(Box<segs!(1 2 3 4 5 6 7 8 9 10 11)>),
    T12(Box<segs!(1 2 3 4 5 6 7 8 9 10 11 12)>),
}

macro_rules! fwd {
    ($self:ident, $x:ident => $e:expr) => {
        match $self {
            Seg::S($x) => $e,
            Seg::SI($x) => $e,
            Seg::Bx(b) => {
                let $x = &b.inner;
                $e
            }
            Seg::Ax(b) => {
                let $x = &b.inner;
                $e
            }
            Seg::P($x) => $e,
            Seg::O($x) => $e,
            Seg::W($x) => $e,
            Seg::U($x) => $e,
            Seg::T1(b) => {
                let $x = &**b;
                $e
            }
            Seg::T2(b) => {
                let $x = &**b;
                $e
            }
            Seg::T3(b) => {
                let $x = &**b;
                $e
            }
            Seg::T4(b) => {
                let $x = &**b;
                $e
            }
            Seg::T5(b) => {
                let $x = &**b;
                $e
            }
            Seg::T6(b) => {
                let $x = &**b;
                $e
            }
            Seg::T7(b) => {
                let $x = &**b;
                $e
            }
            Seg::T8(b) => {
                let $x = &**b;
                $e
            }
            Seg::T9(b) => {
                let $x = &**b;
                $e
            }
            Seg::T10(b) => {
                let $x = &**b;
                $e
            }
            Seg::T11(b) => {
                let $x = &**b;
                $e
            }
            Seg::T12(b) => {
                let $x = &**b;
                $e
            }
        }
    };
}

impl PossibleRouteMatch for Seg {
    fn optional(&self) -> bool {
        fwd!(self, x => PossibleRouteMatch::optional(x))
    }
    fn test<'a>(&self, path: &'a str) -> Option<PartialPathMatch<'a>> {
        fwd!(self, x => x.test(path))
    }
    fn generate_path(&self, path: &mut Vec<PathSegment>) {
        fwd!(self, x => x.generate_path(path))
    }
}

fn intern(s: String) -> &'static str {
    static TABLE: Mutex<Option<HashMap<String, &'static str>>> = Mutex::new(None);
    let mut g = TABLE.lock().unwrap();
    let t = g.get_or_insert_with(HashMap::new);
    if let Some(v) = t.get(&s) {
        return v;
    }
    let leaked: &'static str = Box::leak(s.clone().into_boxed_str());
    t.insert(s, leaked);
    leaked
}

fn text(s: &Sexp) -> String {
    s.string().expect("case strings are valid UTF-8 by construction")
}

pub(crate) fn build_seg(s: &Sexp) -> Seg {
    build_seg_with(s, 0)
}

fn wrap(seg: Seg, flags: i64) -> Seg {
    if flags & 2 != 0 {
        Seg::Bx(BoxSeg::new(seg))
    } else if flags & 4 != 0 {
        Seg::Ax(ArcSeg {
            inner: Arc::new(seg),
        })
    } else {
        seg
    }
}

pub(crate) fn build_seg_with(s: &Sexp, flags: i64) -> Seg {
    let seg = match s.at(0).num() {
        0 if flags & 8 != 0 => {
            Seg::SI(StaticSegment(Interned(intern(text(s.at(1))))))
        }
        0 => Seg::S(StaticSegment(intern(text(s.at(1))))),
        1 => Seg::P(ParamSegment(intern(text(s.at(1))))),
        2 => Seg::O(OptionalParamSegment(intern(text(s.at(1))))),
        3 => Seg::W(WildcardSegment(intern(text(s.at(1))))),
        4 => Seg::U(()),
        5 => {
            let mut v: Vec<Seg> = s
                .at(1)
                .list()
                .iter()
                .map(|x| build_seg_with(x, flags))
                .collect();
            let n = v.len();
            let mut next = || v.remove(0);
            match n {
                1 => Seg::T1(Box::new((next(),))),
                2 => Seg::T2(Box::new((next(), next()))),
                3 => Seg::T3(Box::new((next(), next(), next()))),
                4 => Seg::T4(Box::new((next(), next(), next(), next()))),
                5 => Seg::T5(Box::new((next(), next(), next(), next(), next()))),
                6 => Seg::T6(Box::new((
                    next(),
                    next(),
                    next(),
                    next(),
                    next(),
                    next(),
                ))),
                7 => Seg::T7(Box::new(tup!(next; 1 2 3 4 5 6 7))),
                8 => Seg::T8(Box::new(tup!(next; 1 2 3 4 5 6 7 8))),
                9 => Seg::T9(Box::new(tup!(next; 1 2 3 4 5 6 7 8 9))),
                10 => Seg::T10(Box::new(tup!(next; 1 2 3 4 5 6 7 8 9 10))),
                11 => Seg::T11(Box::new(tup!(next; 1 2 3 4 5 6 7 8 9 10 11))),
                12 => Seg::T12(Box::new(tup!(next; 1 2 3 4 5 6 7 8 9 10 11 12))),
                n => panic!("unsupported tuple arity {n}"),
            }
        }
        k => panic!("unknown segment kind {k}"),
    };
    wrap(seg, flags)
}

// ---------------------------------------------------------------- nested routes
fn build_route(r: &Sexp, flags: i64) -> AnyNestedRoute {
    let seg = build_seg_with(r.at(0), flags);
    // NestedRoute::new takes the next id: pre-order numbering
    let route = NestedRoute::new(seg, || ());
    match r.at(1).num() {
        0 => route.into_any_nested_route(),
        2 => route
            .child(build_static_vec(r.at(2), flags))
            .into_any_nested_route(),
        3 => route.child(()).into_any_nested_route(),
        _ => route
            .child(build_siblings(r.at(2), flags))
            .into_any_nested_route(),
    }
}

/// `StaticVec<AnyNestedRoute>` (tachys::view::iterators), which also implements MatchNestedRoutes
fn build_static_vec(l: &Sexp, flags: i64) -> AnyNestedRoute {
    let v: Vec<AnyNestedRoute> =
        l.list().iter().map(|r| build_route(r, flags)).collect();
    StaticVec::from(v).into_any_nested_route()
}

macro_rules! anyty {
    ($i:tt) => {
        AnyNestedRoute
    };
}
/// std implements `Clone` for tuples up to arity 12 only; `into_any_nested_route` wants `Clone`.
/// These wrappers hold a REAL tuple of 13..16 routes and forward the trait to it.
macro_rules! big {
    ($name:ident; $($i:tt)*) => {
        struct $name(( $( anyty!($i), )* ));
        impl Clone for $name {
            fn clone(&self) -> Self {
                $name(( $( (self.0).$i.clone(), )* ))
            }
        }
        impl MatchNestedRoutes for $name {
            type Data = <( $( anyty!($i), )* ) as MatchNestedRoutes>::Data;
            type Match = <( $( anyty!($i), )* ) as MatchNestedRoutes>::Match;
            fn match_nested<'a>(
                &'a self,
                path: &'a str,
            ) -> (Option<(RouteMatchId, Self::Match)>, &'a str) {
                self.0.match_nested(path)
            }
            fn generate_routes(
                &self,
            ) -> impl IntoIterator<Item = GeneratedRouteData> + '_ {
                self.0.generate_routes()
            }
            fn optional(&self) -> bool {
                self.0.optional()
            }
        }
    };
}
big!(Big13; 0 1 2 3 4 5 6 7 8 9 10 11 12);
big!(Big14; 0 1 2 3 4 5 6 7 8 9 10 11 12 13);
big!(Big15; 0 1 2 3 4 5 6 7 8 9 10 11 12 13 14);
big!(Big16; 0 1 2 3 4 5 6 7 8 9 10 11 12 13 14 15);

/// a real tuple `(A,)`, `(A, B)`, .. of the given routes (erased afterwards)
fn build_siblings(l: &Sexp, flags: i64) -> AnyNestedRoute {
    let mut v: Vec<AnyNestedRoute> =
        l.list().iter().map(|r| build_route(r, flags)).collect();
    let n = v.len();
    let mut next = || v.remove(0);
    match n {
        1 => (next(),).into_any_nested_route(),
        2 => (next(), next()).into_any_nested_route(),
        3 => (next(), next(), next()).into_any_nested_route(),
        4 => (next(), next(), next(), next()).into_any_nested_route(),
        5 => (next(), next(), next(), next(), next()).into_any_nested_route(),
        6 => (next(), next(), next(), next(), next(), next())
            .into_any_nested_route(),
        7 => tup!(next; 1 2 3 4 5 6 7).into_any_nested_route(),
        8 => tup!(next; 1 2 3 4 5 6 7 8).into_any_nested_route(),
        9 => tup!(next; 1 2 3 4 5 6 7 8 9).into_any_nested_route(),
        10 => tup!(next; 1 2 3 4 5 6 7 8 9 10).into_any_nested_route(),
        11 => tup!(next; 1 2 3 4 5 6 7 8 9 10 11).into_any_nested_route(),
        12 => tup!(next; 1 2 3 4 5 6 7 8 9 10 11 12).into_any_nested_route(),
        13 => Big13(tup!(next; 1 2 3 4 5 6 7 8 9 10 11 12 13))
            .into_any_nested_route(),
        14 => Big14(tup!(next; 1 2 3 4 5 6 7 8 9 10 11 12 13 14))
            .into_any_nested_route(),
        15 => Big15(tup!(next; 1 2 3 4 5 6 7 8 9 10 11 12 13 14 15))
            .into_any_nested_route(),
        16 => Big16(tup!(next; 1 2 3 4 5 6 7 8 9 10 11 12 13 14 15 16))
            .into_any_nested_route(),
        n => panic!("unsupported sibling count {n}"),
    }
}

/// route ids are a wrapping u16 counter; `()` as a child reports id 0.  Make sure no real
/// route of this case gets id 0 (burn ids up to the wrap if it is near), then return the id
/// the first route of the case will get.
fn first_route_id() -> u16 {
    let mut cur = raw_id(RouteMatchId::new_from_route_id());
    while cur > u16::MAX - 2048 || cur == 0 {
        cur = raw_id(RouteMatchId::new_from_route_id());
    }
    cur.wrapping_add(1)
}

fn build_children(routes: &Sexp, flags: i64) -> AnyNestedRoute {
    if flags & 1 != 0 {
        build_static_vec(routes, flags)
    } else {
        build_siblings(routes, flags)
    }
}

fn build_defs(
    base: &Sexp,
    children: &AnyNestedRoute,
    flags: i64,
) -> RouteDefs<AnyNestedRoute> {
    match base.list().first() {
        None => RouteDefs::new(children.clone()),
        Some(b) if flags & 16 != 0 => {
            RouteDefs::new_with_base(children.clone(), intern(text(b)))
        }
        Some(b) => RouteDefs::new_with_base(children.clone(), text(b)),
    }
}

fn raw_id(id: RouteMatchId) -> u16 {
    // RouteMatchId's field is crate-private; its Debug form is `RouteMatchId(n)`
    let s = format!("{id:?}");
    s.trim_start_matches("RouteMatchId(")
        .trim_end_matches(')')
        .parse()
        .expect("RouteMatchId debug form")
}

fn pseg(p: &PathSegment) -> Sexp {
    match p {
        PathSegment::Static(s) => Lst(vec![Num(0), Sexp::from_str(s)]),
        PathSegment::Param(s) => Lst(vec![Num(1), Sexp::from_str(s)]),
        PathSegment::OptionalParam(s) => Lst(vec![Num(2), Sexp::from_str(s)]),
        PathSegment::Splat(s) => Lst(vec![Num(3), Sexp::from_str(s)]),
        PathSegment::Unit => Lst(vec![Num(4)]),
    }
}

fn chain_and_params(m: AnyNestedMatch, first_id: u16) -> (Sexp, Sexp) {
    let params = Lst(m
        .to_params()
        .iter()
        .map(|(k, v)| Lst(vec![Sexp::from_str(k), Sexp::from_str(v)]))
        .collect());
    let mut chain = vec![];
    let mut cur = Some(m);
    while let Some(m) = cur {
        let raw = raw_id(m.as_id());
        if raw == 0 {
            // the `()` child of a `.child(())` route (first_route_id keeps 0 free)
            chain.push(Lst(vec![Num(-2), Sexp::from_str(m.as_matched())]));
            break;
        }
        let id = raw.wrapping_sub(first_id);
        chain.push(Lst(vec![Num(id as i64), Sexp::from_str(m.as_matched())]));
        let (_, child) = m.into_view_and_child();
        cur = child;
    }
    (Lst(chain), params)
}

fn run_build(c: &Sexp) -> Sexp {
    use leptos_router::static_routes::{StaticParamsMap, StaticPath};
    let base = c.at(1);
    let routes = c.at(2);
    let flags = c.at(4).num();
    let entries: Vec<(String, Vec<String>)> = c
        .at(3)
        .list()
        .iter()
        .map(|kv| (text(kv.at(0)), kv.at(1).list().iter().map(text).collect()))
        .collect();
    // the prerendered params: None at all, collected (duplicate names kept, `get` = first),
    // or inserted one by one (a later insert replaces the values of the name)
    let pmap: Option<StaticParamsMap> = if flags & 32 != 0 {
        None
    } else if flags & 64 != 0 {
        Some(entries.iter().cloned().collect())
    } else {
        let mut m = StaticParamsMap::new();
        for (k, vs) in &entries {
            m.insert(k, vs.clone());
        }
        Some(m)
    };
    let first_id = first_route_id();
    let children = build_children(routes, flags);
    let defs = build_defs(base, &children, flags);
    let (gbase, flat) = {
        let (b, rs) = defs.generate_routes();
        (
            b.map(|s| s.to_string()),
            rs.into_iter().map(|g| g.segments).collect::<Vec<_>>(),
        )
    };
    let s_base = match &gbase {
        None => Lst(vec![]),
        Some(b) => Lst(vec![Sexp::from_str(b)]),
    };
    let s_flat = Lst(flat
        .iter()
        .map(|r| Lst(r.iter().map(pseg).collect()))
        .collect());
    let build = |segs: &Vec<PathSegment>| -> Sexp {
        // the router registers [Static(base)] ++ segments (nested_router.rs / flat_router.rs)
        let full: Vec<PathSegment> = gbase
            .iter()
            .map(|b| PathSegment::Static(b.clone().into()))
            .chain(segs.iter().cloned())
            .collect();
        let built = catch_unwind(AssertUnwindSafe(|| {
            if flags & 128 != 0 {
                // the way the integrations reach the builder
                use leptos_router::{
                    static_routes::StaticRoute, RouteListing, SsrMode,
                };
                let route = match pmap.clone() {
                    None => StaticRoute::new(),
                    Some(pm) => StaticRoute::new().prerender_params(move || {
                        let pm = pm.clone();
                        async move { pm }
                    }),
                };
                let listing =
                    RouteListing::new(full, SsrMode::Static(route), [], []);
                futures::executor::block_on(listing.into_static_paths())
                    .expect("a static route has static paths")
            } else {
                StaticPath::new(full).into_paths(pmap.clone())
            }
        }));
        match built {
            Err(_) => Lst(vec![Num(-1)]),
            Ok(paths) => Lst(paths
                .iter()
                .map(|rp| {
                    let path: &str = rp.as_ref();
                    let m = match catch_unwind(AssertUnwindSafe(|| {
                        defs.match_route(path).map(|m| chain_and_params(m, first_id))
                    })) {
                        Err(_) => Lst(vec![Num(-1)]),
                        Ok(None) => Lst(vec![]),
                        Ok(Some((chain, params))) => Lst(vec![Num(1), chain, params]),
                    };
                    Lst(vec![Sexp::from_str(path), m])
                })
                .collect()),
        }
    };
    let per_route = Lst(flat
        .iter()
        .map(|r| {
            Lst(vec![
                build(r),
                Lst(r
                    .expand_optionals()
                    .iter()
                    .map(|e| Lst(vec![Lst(e.iter().map(pseg).collect()), build(e)]))
                    .collect()),
            ])
        })
        .collect());
    Lst(vec![s_base, s_flat, per_route])
}

/// op 3: `PossibleRouteMatch::test` as a public entry point
fn run_test(c: &Sexp) -> Sexp {
    let flags = c.at(3).num();
    let seg = build_seg_with(c.at(1), flags);
    let path = text(c.at(2));
    match catch_unwind(AssertUnwindSafe(|| {
        seg.test(&path).map(|m| {
            let complete = m.is_complete();
            let matched = Sexp::from_str(m.matched());
            let remaining = Sexp::from_str(m.remaining());
            let params = Lst(m
                .params()
                .iter()
                .map(|(k, v)| Lst(vec![Sexp::from_str(k), Sexp::from_str(v)]))
                .collect());
            Lst(vec![Num(1), matched, remaining, params, Sexp::bool(complete)])
        })
    })) {
        Err(_) => Lst(vec![Num(-1)]),
        Ok(None) => Lst(vec![]),
        Ok(Some(v)) => v,
    }
}

/// op 4: the route table the server integrations register for a real app
fn run_listing(c: &Sexp) -> Sexp {
    use leptos::{children::ToChildren, prelude::*};
    use leptos_router::{
        components::{
            FlatRoutes, FlatRoutesProps, RouteChildren, Router, Routes,
            RoutesProps,
        },
        RouteList,
    };
    let base: Option<String> = c.at(1).list().first().map(text);
    let flags = c.at(3).num();
    let children = build_children(c.at(2), flags);
    let excluded: Vec<String> = c.at(4).list().iter().map(text).collect();
    let flat = flags & 256 != 0;
    let app = move || {
        let defs = children.clone();
        let inner = move || {
            if flat {
                FlatRoutes(
                    FlatRoutesProps::builder()
                        .fallback(|| "notfound")
                        .children(<RouteChildren<AnyNestedRoute> as ToChildren<_>>::to_children(move || defs))
                        .build(),
                )
                .into_any()
            } else {
                Routes(
                    RoutesProps::builder()
                        .fallback(|| "notfound")
                        .children(<RouteChildren<AnyNestedRoute> as ToChildren<_>>::to_children(move || defs))
                        .build(),
                )
                .into_any()
            }
        };
        match base.clone() {
            None => view! { <Router>{inner()}</Router> }.into_any(),
            Some(b) => view! { <Router base=b>{inner()}</Router> }.into_any(),
        }
    };
    // what the router itself registers
    let listing = {
        let owner = Owner::new();
        let l = owner.with(|| {
            provide_context(leptos_router::location::RequestUrl::new(""));
            RouteList::generate(&app)
        });
        drop(owner);
        match l {
            None => Lst(vec![Num(-1)]),
            Some(l) => Lst(l
                .into_inner()
                .iter()
                .map(|r| Lst(r.path().iter().map(pseg).collect()))
                .collect()),
        }
    };
    let ex = if excluded.is_empty() {
        None
    } else {
        Some(excluded)
    };
    let axum = Lst(leptos_axum::generate_route_list_with_exclusions(
        app.clone(),
        ex.clone(),
    )
    .iter()
    .map(|r| {
        Lst(vec![
            Sexp::from_str(r.path()),
            Num(r.methods().count() as i64),
        ])
    })
    .collect());
    let actix = Lst(leptos_actix::generate_route_list_with_exclusions(
        app.clone(),
        ex,
    )
    .iter()
    .map(|r| {
        Lst(vec![
            Sexp::from_str(r.path()),
            Num(r.methods().count() as i64),
        ])
    })
    .collect());
    Lst(vec![listing, axum, actix])
}

/// op 5: literals that went through the `path!` proc macro at compile time
fn run_path_macro(c: &Sexp) -> Sexp {
    macro_rules! lits {
        ($($l:tt)*) => {
            vec![ $( ($l, {
                let mut v: Vec<PathSegment> = vec![];
                PossibleRouteMatch::generate_path(&leptos_router::path!($l), &mut v);
                v
            }) ),* ]
        };
    }
    let all: Vec<(&'static str, Vec<PathSegment>)> = lits!(
        "" "/" "/foo" "foo" "/foo/" "foo/" "/foo/bar" "/foo/bar/" "foo/bar"
        "/:id" ":id" "/:id/" "/:id?" ":id?" "/:a?/:b?" "/:a?/:b?/" "/foo/:id/bar"
        "/*any" "*any" "/foo/*rest" "/foo/:bar/:baz?/*any" "/a/b/c/d/e/f/g/h/i/j/k/l"
        "/foo/:id?/" "/-._~@" "/A1/b2" "/:x/:x" "*" "/*" "/:a?/b" "/users/:id/posts/:post_id"
        "/a/" "/:a/:b/:c" "/x/:y?/*z" "/:a/" "/0" "/foo.bar/baz~" "/:snake_case" "/*rest_of"
        "/a/:b?/:c?/:d?" "/@user/:name"
    );
    match all.get(c.at(1).num() as usize) {
        None => Lst(vec![]),
        Some((lit, segs)) => Lst(vec![
            Sexp::from_str(lit),
            Lst(segs.iter().map(pseg).collect()),
        ]),
    }
}

pub fn run(c: &Sexp) -> Sexp {
    match c.at(0).num() {
        2 => return run_build(c),
        3 => return run_test(c),
        4 => return run_listing(c),
        5 => return run_path_macro(c),
        _ => {}
    }
    let base = c.at(1);
    let routes = c.at(2);
    let path = text(c.at(3));
    let flags = c.at(4).num();

    // ids handed out from here on are consecutive (mod 2^16)
    let first_id = first_route_id();
    let children = build_children(routes, flags);
    let defs = build_defs(base, &children, flags);
    let (gbase, flat) = {
        let (b, rs) = defs.generate_routes();
        (
            b.map(|s| s.to_string()),
            rs.into_iter().map(|g| g.segments).collect::<Vec<_>>(),
        )
    };
    let s_base = match &gbase {
        None => Lst(vec![]),
        Some(b) => Lst(vec![Sexp::from_str(b)]),
    };
    let s_flat = Lst(flat
        .iter()
        .map(|r| Lst(r.iter().map(pseg).collect()))
        .collect());
    let s_exp = Lst(flat
        .iter()
        .map(|r| {
            Lst(r
                .expand_optionals()
                .iter()
                .map(|e| Lst(e.iter().map(pseg).collect()))
                .collect())
        })
        .collect());

    let s_match = match catch_unwind(AssertUnwindSafe(|| {
        defs.match_route(&path).map(|m| chain_and_params(m, first_id))
    })) {
        Err(_) => Lst(vec![Num(-1)]),
        Ok(None) => Lst(vec![]),
        Ok(Some((chain, params))) => Lst(vec![Num(1), chain, params]),
    };

    let s_nested = match catch_unwind(AssertUnwindSafe(|| {
        let (m, rem) = children.match_nested(&path);
        let rem = Sexp::from_str(rem);
        match m {
            None => Lst(vec![Num(0), rem]),
            Some((_, m)) => {
                let (chain, params) = chain_and_params(m, first_id);
                Lst(vec![Num(1), rem, chain, params])
            }
        }
    })) {
        Err(_) => Lst(vec![Num(-1)]),
        Ok(v) => v,
    };

    Lst(vec![s_base, s_flat, s_exp, s_match, s_nested])
}
