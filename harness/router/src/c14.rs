//! C14 — the router matches exactly the paths its route table declares.
//!
//! case  : (0 base routes path)
//!   base   : ()            no base            | (bytes)  RouteDefs::new_with_base
//!   routes : (route ..)    1..6 siblings (a real tuple of that arity)
//!   route  : (seg 0)       NestedRoute::new(seg, view)
//!          | (seg 1 (route ..))   .child(<tuple of 1..12 routes>)
//!          | (seg 2 (route ..))   .child(StaticVec::from(vec![routes ..]))
//!   seg    : (0 bytes) StaticSegment | (1 name) ParamSegment | (2 name) OptionalParamSegment
//!          | (3 name) WildcardSegment | (4) () | (5 (seg ..)) tuple of 1..12 segments
//!   a 5th element `1` in the case makes the top-level siblings a StaticVec instead of a tuple
//!   path   : bytes (valid UTF-8)
//!
//! case  : (2 base routes pmap [1])   pmap = ((name (value ..)) ..)
//!   drives the REAL path builder (static_routes.rs): for every generated flat route, with
//!   Static(base) in front the way the router registers it, `StaticPath::new(segs)
//!   .into_paths(Some(pmap))`, once on the route as generated and once on each of its
//!   expand_optionals() variants; every built path is fed back to RouteDefs::match_route.
//!   observation : (base flat ((unexpanded (per-expansion ..)) ..))
//!     unexpanded : built      per-expansion : (segments built)
//!     built : (-1) the builder panicked | ((path match) ..)
//!
//! observation : (base flat expanded match nested)
//!   base     : () | (bytes)                       as returned by generate_routes()
//!   flat     : ((pseg ..) ..)                     generate_routes(), in order
//!   expanded : (((pseg ..) ..) ..)                expand_optionals() of each flat route
//!   pseg     : (0 s) Static (1 n) Param (2 n) OptionalParam (3 n) Splat (4) Unit
//!   match    : () no match | (-1) panic | (1 chain params)   RouteDefs::match_route(path)
//!   nested   : (-1) panic | (0 remaining) | (1 remaining chain params)
//!                                                 MatchNestedRoutes::match_nested(path) on the
//!                                                 sibling tuple itself (base not involved)
//!   chain    : ((id matched) ..) outermost first; id = pre-order index of the NestedRoute
//!   params   : ((name value) ..)
use leptos_router::{
    any_nested_match::AnyNestedMatch,
    any_nested_route::{AnyNestedRoute, IntoAnyNestedRoute},
    ExpandOptionals, MatchInterface, MatchNestedRoutes, MatchParams,
    NestedRoute, OptionalParamSegment, ParamSegment, PartialPathMatch,
    PathSegment, PossibleRouteMatch, RouteDefs, RouteMatchId, StaticSegment,
    WildcardSegment,
};
use std::{
    collections::HashMap,
    panic::{catch_unwind, AssertUnwindSafe},
    sync::Mutex,
};
use leptos::tachys::view::iterators::StaticVec;
use vsexp::{Lst, Num, Sexp};

// ---------------------------------------------------------------- segments
/// One value of this enum is one real leptos_router segment (or a real tuple of
/// them); the enum only forwards the trait calls.
macro_rules! segty {
    ($i:tt) => {
        Seg
    };
}
macro_rules! segs {
    ($($i:tt)*) => { ( $( segty!($i), )* ) };
}
/// a tuple whose components are successive results of `$next()`
macro_rules! tup {
    ($next:ident; $($i:tt)*) => { ( $( { let _ = $i; $next() }, )* ) };
}

#[derive(Debug, Clone)]
pub(crate) enum Seg {
    S(StaticSegment<&'static str>),
    P(ParamSegment),
    O(OptionalParamSegment),
    W(WildcardSegment),
    U(()),
    T1(Box<(Seg,)>),
    T2(Box<(Seg, Seg)>),
    T3(Box<(Seg, Seg, Seg)>),
    T4(Box<(Seg, Seg, Seg, Seg)>),
    T5(Box<(Seg, Seg, Seg, Seg, Seg)>),
    T6(Box<(Seg, Seg, Seg, Seg, Seg, Seg)>),
    T7(Box<segs!(1 2 3 4 5 6 7)>),
    T8(Box<segs!(1 2 3 4 5 6 7 8)>),
    T9(Box<segs!(1 2 3 4 5 6 7 8 9)>),
    T10(Box<segs!(1 2 3 4 5 6 7 8 9 10)>),
    T11(Box<segs!(1 2 3 4 5 6 7 8 9 10 11)>),
    T12(Box<segs!(1 2 3 4 5 6 7 8 9 10 11 12)>),
}

macro_rules! fwd {
    ($self:ident, $x:ident => $e:expr) => {
        match $self {
            Seg::S($x) => $e,
            Seg::P($x) => $e,
            Seg::O($x) => $e,
            Seg::W($x) => $e,
            Seg::U($x) => $e,
            Seg::T1(b) => {
                let $x = &**b;
                $e
            }
            Seg::T2(b) => {
                let $x = &**b;
                $e
            }
            Seg::T3(b) => {
                let $x = &**b;
                $e
            }
            Seg::T4(b) => {
                let $x = &**b;
                $e
            }
            Seg::T5(b) => {
                let $x = &**b;
                $e
            }
            Seg::T6(b) => {
                let $x = &**b;
                $e
            }
            Seg::T7(b) => {
                let $x = &**b;
                $e
            }
            Seg::T8(b) => {
                let $x = &**b;
                $e
            }
            Seg::T9(b) => {
                let $x = &**b;
                $e
            }
            Seg::T10(b) => {
                let $x = &**b;
                $e
            }
            Seg::T11(b) => {
                let $x = &**b;
                $e
            }
            Seg::T12(b) => {
                let $x = &**b;
                $e
            }
        }
    };
}

impl PossibleRouteMatch for Seg {
    fn optional(&self) -> bool {
        fwd!(self, x => PossibleRouteMatch::optional(x))
    }
    fn test<'a>(&self, path: &'a str) -> Option<PartialPathMatch<'a>> {
        fwd!(self, x => x.test(path))
    }
    fn generate_path(&self, path: &mut Vec<PathSegment>) {
        fwd!(self, x => x.generate_path(path))
    }
}

fn intern(s: String) -> &'static str {
    static TABLE: Mutex<Option<HashMap<String, &'static str>>> = Mutex::new(None);
    let mut g = TABLE.lock().unwrap();
    let t = g.get_or_insert_with(HashMap::new);
    if let Some(v) = t.get(&s) {
        return v;
    }
    let leaked: &'static str = Box::leak(s.clone().into_boxed_str());
    t.insert(s, leaked);
    leaked
}

fn text(s: &Sexp) -> String {
    s.string().expect("case strings are valid UTF-8 by construction")
}

pub(crate) fn build_seg(s: &Sexp) -> Seg {
    match s.at(0).num() {
        0 => Seg::S(StaticSegment(intern(text(s.at(1))))),
        1 => Seg::P(ParamSegment(intern(text(s.at(1))))),
        2 => Seg::O(OptionalParamSegment(intern(text(s.at(1))))),
        3 => Seg::W(WildcardSegment(intern(text(s.at(1))))),
        4 => Seg::U(()),
        5 => {
            let mut v: Vec<Seg> = s.at(1).list().iter().map(build_seg).collect();
            let n = v.len();
            let mut next = || v.remove(0);
            match n {
                1 => Seg::T1(Box::new((next(),))),
                2 => Seg::T2(Box::new((next(), next()))),
                3 => Seg::T3(Box::new((next(), next(), next()))),
                4 => Seg::T4(Box::new((next(), next(), next(), next()))),
                5 => Seg::T5(Box::new((next(), next(), next(), next(), next()))),
                6 => Seg::T6(Box::new((
                    next(),
                    next(),
                    next(),
                    next(),
                    next(),
                    next(),
                ))),
                7 => Seg::T7(Box::new(tup!(next; 1 2 3 4 5 6 7))),
                8 => Seg::T8(Box::new(tup!(next; 1 2 3 4 5 6 7 8))),
                9 => Seg::T9(Box::new(tup!(next; 1 2 3 4 5 6 7 8 9))),
                10 => Seg::T10(Box::new(tup!(next; 1 2 3 4 5 6 7 8 9 10))),
                11 => Seg::T11(Box::new(tup!(next; 1 2 3 4 5 6 7 8 9 10 11))),
                12 => Seg::T12(Box::new(tup!(next; 1 2 3 4 5 6 7 8 9 10 11 12))),
                n => panic!("unsupported tuple arity {n}"),
            }
        }
        k => panic!("unknown segment kind {k}"),
    }
}

// ---------------------------------------------------------------- nested routes
fn build_route(r: &Sexp) -> AnyNestedRoute {
    let seg = build_seg(r.at(0));
    // NestedRoute::new takes the next id: pre-order numbering
    let route = NestedRoute::new(seg, || ());
    match r.at(1).num() {
        0 => route.into_any_nested_route(),
        2 => route.child(build_static_vec(r.at(2))).into_any_nested_route(),
        _ => route.child(build_siblings(r.at(2))).into_any_nested_route(),
    }
}

/// `StaticVec<AnyNestedRoute>` (tachys::view::iterators), which also implements MatchNestedRoutes
fn build_static_vec(l: &Sexp) -> AnyNestedRoute {
    let v: Vec<AnyNestedRoute> = l.list().iter().map(build_route).collect();
    StaticVec::from(v).into_any_nested_route()
}

/// a real tuple `(A,)`, `(A, B)`, .. of the given routes (erased afterwards)
fn build_siblings(l: &Sexp) -> AnyNestedRoute {
    let mut v: Vec<AnyNestedRoute> = l.list().iter().map(build_route).collect();
    let n = v.len();
    let mut next = || v.remove(0);
    match n {
        1 => (next(),).into_any_nested_route(),
        2 => (next(), next()).into_any_nested_route(),
        3 => (next(), next(), next()).into_any_nested_route(),
        4 => (next(), next(), next(), next()).into_any_nested_route(),
        5 => (next(), next(), next(), next(), next()).into_any_nested_route(),
        6 => (next(), next(), next(), next(), next(), next())
            .into_any_nested_route(),
        7 => tup!(next; 1 2 3 4 5 6 7).into_any_nested_route(),
        8 => tup!(next; 1 2 3 4 5 6 7 8).into_any_nested_route(),
        9 => tup!(next; 1 2 3 4 5 6 7 8 9).into_any_nested_route(),
        10 => tup!(next; 1 2 3 4 5 6 7 8 9 10).into_any_nested_route(),
        11 => tup!(next; 1 2 3 4 5 6 7 8 9 10 11).into_any_nested_route(),
        12 => tup!(next; 1 2 3 4 5 6 7 8 9 10 11 12).into_any_nested_route(),
        n => panic!("unsupported sibling count {n}"),
    }
}

fn raw_id(id: RouteMatchId) -> u16 {
    // RouteMatchId's field is crate-private; its Debug form is `RouteMatchId(n)`
    let s = format!("{id:?}");
    s.trim_start_matches("RouteMatchId(")
        .trim_end_matches(')')
        .parse()
        .expect("RouteMatchId debug form")
}

fn pseg(p: &PathSegment) -> Sexp {
    match p {
        PathSegment::Static(s) => Lst(vec![Num(0), Sexp::from_str(s)]),
        PathSegment::Param(s) => Lst(vec![Num(1), Sexp::from_str(s)]),
        PathSegment::OptionalParam(s) => Lst(vec![Num(2), Sexp::from_str(s)]),
        PathSegment::Splat(s) => Lst(vec![Num(3), Sexp::from_str(s)]),
        PathSegment::Unit => Lst(vec![Num(4)]),
    }
}

fn chain_and_params(m: AnyNestedMatch, first_id: u16) -> (Sexp, Sexp) {
    let params = Lst(m
        .to_params()
        .iter()
        .map(|(k, v)| Lst(vec![Sexp::from_str(k), Sexp::from_str(v)]))
        .collect());
    let mut chain = vec![];
    let mut cur = Some(m);
    while let Some(m) = cur {
        let id = raw_id(m.as_id()).wrapping_sub(first_id);
        chain.push(Lst(vec![Num(id as i64), Sexp::from_str(m.as_matched())]));
        let (_, child) = m.into_view_and_child();
        cur = child;
    }
    (Lst(chain), params)
}

fn run_build(c: &Sexp) -> Sexp {
    use leptos_router::static_routes::{StaticParamsMap, StaticPath};
    let base = c.at(1);
    let routes = c.at(2);
    let mut pmap = StaticParamsMap::new();
    for kv in c.at(3).list() {
        pmap.insert(text(kv.at(0)), kv.at(1).list().iter().map(text).collect());
    }
    let first_id = raw_id(RouteMatchId::new_from_route_id()).wrapping_add(1);
    let children = if c.at(4).num() == 1 {
        build_static_vec(routes)
    } else {
        build_siblings(routes)
    };
    let defs = match base.list().first() {
        None => RouteDefs::new(children.clone()),
        Some(b) => RouteDefs::new_with_base(children.clone(), text(b)),
    };
    let (gbase, flat) = {
        let (b, rs) = defs.generate_routes();
        (
            b.map(|s| s.to_string()),
            rs.into_iter().map(|g| g.segments).collect::<Vec<_>>(),
        )
    };
    let s_base = match &gbase {
        None => Lst(vec![]),
        Some(b) => Lst(vec![Sexp::from_str(b)]),
    };
    let s_flat = Lst(flat
        .iter()
        .map(|r| Lst(r.iter().map(pseg).collect()))
        .collect());
    let build = |segs: &Vec<PathSegment>| -> Sexp {
        // the router registers [Static(base)] ++ segments (nested_router.rs / flat_router.rs)
        let full: Vec<PathSegment> = gbase
            .iter()
            .map(|b| PathSegment::Static(b.clone().into()))
            .chain(segs.iter().cloned())
            .collect();
        let built = catch_unwind(AssertUnwindSafe(|| {
            StaticPath::new(full).into_paths(Some(pmap.clone()))
        }));
        match built {
            Err(_) => Lst(vec![Num(-1)]),
            Ok(paths) => Lst(paths
                .iter()
                .map(|rp| {
                    let path: &str = rp.as_ref();
                    let m = match catch_unwind(AssertUnwindSafe(|| {
                        defs.match_route(path).map(|m| chain_and_params(m, first_id))
                    })) {
                        Err(_) => Lst(vec![Num(-1)]),
                        Ok(None) => Lst(vec![]),
                        Ok(Some((chain, params))) => Lst(vec![Num(1), chain, params]),
                    };
                    Lst(vec![Sexp::from_str(path), m])
                })
                .collect()),
        }
    };
    let per_route = Lst(flat
        .iter()
        .map(|r| {
            Lst(vec![
                build(r),
                Lst(r
                    .expand_optionals()
                    .iter()
                    .map(|e| Lst(vec![Lst(e.iter().map(pseg).collect()), build(e)]))
                    .collect()),
            ])
        })
        .collect());
    Lst(vec![s_base, s_flat, per_route])
}

pub fn run(c: &Sexp) -> Sexp {
    if c.at(0).num() == 2 {
        return run_build(c);
    }
    let base = c.at(1);
    let routes = c.at(2);
    let path = text(c.at(3));

    // ids handed out from here on are consecutive (mod 2^16)
    let first_id = raw_id(RouteMatchId::new_from_route_id()).wrapping_add(1);
    let children = if c.at(4).num() == 1 {
        build_static_vec(routes)
    } else {
        build_siblings(routes)
    };
    let defs = match base.list().first() {
        None => RouteDefs::new(children.clone()),
        Some(b) => RouteDefs::new_with_base(children.clone(), text(b)),
    };

    let (gbase, flat) = {
        let (b, rs) = defs.generate_routes();
        (
            b.map(|s| s.to_string()),
            rs.into_iter().map(|g| g.segments).collect::<Vec<_>>(),
        )
    };
    let s_base = match &gbase {
        None => Lst(vec![]),
        Some(b) => Lst(vec![Sexp::from_str(b)]),
    };
    let s_flat = Lst(flat
        .iter()
        .map(|r| Lst(r.iter().map(pseg).collect()))
        .collect());
    let s_exp = Lst(flat
        .iter()
        .map(|r| {
            Lst(r
                .expand_optionals()
                .iter()
                .map(|e| Lst(e.iter().map(pseg).collect()))
                .collect())
        })
        .collect());

    let s_match = match catch_unwind(AssertUnwindSafe(|| {
        defs.match_route(&path).map(|m| chain_and_params(m, first_id))
    })) {
        Err(_) => Lst(vec![Num(-1)]),
        Ok(None) => Lst(vec![]),
        Ok(Some((chain, params))) => Lst(vec![Num(1), chain, params]),
    };

    let s_nested = match catch_unwind(AssertUnwindSafe(|| {
        let (m, rem) = children.match_nested(&path);
        let rem = Sexp::from_str(rem);
        match m {
            None => Lst(vec![Num(0), rem]),
            Some((_, m)) => {
                let (chain, params) = chain_and_params(m, first_id);
                Lst(vec![Num(1), rem, chain, params])
            }
        }
    })) {
        Err(_) => Lst(vec![Num(-1)]),
        Ok(v) => v,
    };

    Lst(vec![s_base, s_flat, s_exp, s_match, s_nested])
}
