//! C15 — URL, query and parameter decoding is total and happens exactly once.
//!
//! map observation (every ParamsMap is printed like this):
//!   ((key (value ..) (get_all get get_str)) ..)   in map order (IntoIterator), and per key what
//!   the reading API returns: get_all = () | ((v ..)), get / get_str = () | (v)
//!
//! ops
//!   (0 text)                Url::escape
//!   (1 raw [1])             Url::unescape            [1: Url::unescape_minimal]
//!   (2 url [b])             RequestUrl::new(url).parse() -> search_params
//!                           [b = 1: parse_with_base("http://leptos"), 2: a base with its own
//!                            path, query and fragment]
//!   (3 map [flags])         ParamsMap built with insert -> to_query_string -> parse
//!                           flags bit 0: keys as &'static str, bit 1: ParamsMap::with_capacity
//!   (4 pairs [1])           FromIterator on raw (still encoded) values  [1: Cow::Borrowed keys]
//!   (5 flags chain query)   a real nested router (<Routes>) rendered on the server
//!   (6 flags chain query)   a real flat router (<FlatRoutes>), chain = one level
//!       flags & 3 : 0 `.to_html()`, 1 in-order stream, 2 out-of-order stream
//!       chain     : (level ..) outermost first; level = (seg ..)
//!       seg       : (0 text) static | (1 name raw) param | (2 name (raw)?) optional param
//!                 | (3 name raw) wildcard
//!       query     : () | (raw query string)
//!       observation : ((params map read at level 0) .. (.. at the leaf))
//!                     (use_query_map  use_location().query  typed-params  typed-query  query_signal)
//!   (7 path_and_query [1])  the request as the integrations hand it over: leptos_actix
//!                           "http://leptos" + path [+ "?" + query]; [1] leptos_axum "http://leptos.dev" + path_and_query
//!   (8 steps)               a map driven through insert / replace / remove, then written and parsed back
//!       step : (0 k v) insert | (1 k v) replace | (2 k) remove
//!       observation : (results-of-the-removes map query-string map-parsed-back)
use crate::c14;
use leptos_router::{
    location::{RequestUrl, Url},
    params::{IntoParam, Params, ParamsError, ParamsMap},
};
use vsexp::{Lst, Num, Sexp};

fn opt_str(o: Option<&str>) -> Sexp {
    match o {
        None => Lst(vec![]),
        Some(v) => Lst(vec![Sexp::from_str(v)]),
    }
}

/// ParamsMap -> ((k (v1 v2 ..) reads) ..) in map order
pub fn pmap(m: &ParamsMap) -> Sexp {
    let mut out: Vec<(String, Vec<String>)> = vec![];
    for (k, v) in m.clone().into_iter() {
        match out.last_mut() {
            Some((pk, vs)) if *pk == k.as_ref() => vs.push(v),
            _ => out.push((k.to_string(), vec![v])),
        }
    }
    Lst(out
        .into_iter()
        .map(|(k, vs)| {
            let reads = Lst(vec![
                match m.get_all(&k) {
                    None => Lst(vec![]),
                    Some(l) => Lst(vec![Lst(l
                        .iter()
                        .map(|v| Sexp::from_str(v))
                        .collect())]),
                },
                opt_str(m.get(&k).as_deref()),
                opt_str(m.get_str(&k)),
            ]);
            Lst(vec![
                Sexp::from_str(&k),
                Lst(vs.iter().map(|v| Sexp::from_str(v)).collect()),
                reads,
            ])
        })
        .collect())
}

fn text(s: &Sexp) -> String {
    s.string().expect("case strings are valid UTF-8 by construction")
}

fn leak(s: &str) -> &'static str {
    Box::leak(s.to_string().into_boxed_str())
}

fn parsed(r: Result<Url, impl std::fmt::Display>) -> Sexp {
    match r {
        Ok(url) => pmap(url.search_params()),
        Err(e) => Lst(vec![Num(-1), Sexp::from_str(&e.to_string())]),
    }
}

pub fn run(c: &Sexp) -> Sexp {
    let arg = c.at(1);
    match c.at(0).num() {
        0 => Sexp::from_str(&Url::escape(&text(arg))),
        1 => {
            if c.at(2).num() == 1 {
                Sexp::from_str(&Url::unescape_minimal(&text(arg)))
            } else {
                Sexp::from_str(&Url::unescape(&text(arg)))
            }
        }
        2 => {
            let req = RequestUrl::new(&text(arg));
            match c.at(2).num() {
                1 => parsed(req.parse_with_base("http://leptos")),
                2 => parsed(
                    req.parse_with_base("https://leptos.dev/deep/dir/?x=1&q=%2541#f"),
                ),
                _ => parsed(req.parse()),
            }
        }
        7 => {
            // leptos_actix: "http://leptos" + path [+ "?" + query]; leptos_axum: "http://leptos.dev" + path_and_query
            let prefix = if c.at(2).num() == 1 {
                "http://leptos.dev"
            } else {
                "http://leptos"
            };
            parsed(RequestUrl::new(&format!("{prefix}{}", text(arg))).parse())
        }
        3 => {
            // build the map through the public API, check it is the intended one,
            // write it as a query string and parse that back
            // keys are stored as Cow: exercise both representations (an owned String and a
            // `&'static str`, as literal keys in application code are)
            let flags = c.at(2).num();
            let borrowed = flags & 1 == 1;
            let mut m = if flags & 2 == 2 {
                ParamsMap::with_capacity(arg.list().len())
            } else {
                ParamsMap::new()
            };
            for kv in arg.list() {
                let k = text(kv.at(0));
                for v in kv.at(1).list() {
                    if borrowed {
                        m.insert(leak(&k), Url::escape(&text(v)));
                    } else {
                        m.insert(k.clone(), Url::escape(&text(v)));
                    }
                }
            }
            let built = pmap(&m);
            let qs = m.to_query_string();
            let back = RequestUrl::new(&format!("/{qs}")).parse();
            match back {
                Ok(url) => Lst(vec![
                    Sexp::from_str(&qs),
                    pmap(url.search_params()),
                    built,
                ]),
                Err(e) => Lst(vec![Num(-1), Sexp::from_str(&e.to_string())]),
            }
        }
        4 => {
            // what flat_router / nested_router do with MatchParams::to_params()
            let m: ParamsMap = if c.at(2).num() == 1 {
                arg.list()
                    .iter()
                    .map(|kv| {
                        (
                            std::borrow::Cow::Borrowed(leak(&text(kv.at(0)))),
                            text(kv.at(1)),
                        )
                    })
                    .collect()
            } else {
                arg.list()
                    .iter()
                    .map(|kv| (text(kv.at(0)), text(kv.at(1))))
                    .collect()
            };
            pmap(&m)
        }
        5 => router(c, false),
        6 => router(c, true),
        8 => {
            let mut m = ParamsMap::new();
            let mut removed = vec![];
            for st in arg.list() {
                match st.at(0).num() {
                    0 => m.insert(text(st.at(1)), text(st.at(2))),
                    1 => m.replace(text(st.at(1)), text(st.at(2))),
                    _ => removed.push(match m.remove(&text(st.at(1))) {
                        None => Lst(vec![]),
                        Some(l) => Lst(vec![Lst(l
                            .iter()
                            .map(|v| Sexp::from_str(v))
                            .collect())]),
                    }),
                }
            }
            let qs = m.to_query_string();
            let back = parsed(RequestUrl::new(&format!("/{qs}")).parse());
            Lst(vec![Lst(removed), pmap(&m), Sexp::from_str(&qs), back])
        }
        _ => Lst(vec![]),
    }
}

thread_local! {
    static SEEN: std::cell::RefCell<Vec<(usize, Sexp)>> = const { std::cell::RefCell::new(Vec::new()) };
    static LEAF: std::cell::RefCell<Vec<Sexp>> = const { std::cell::RefCell::new(Vec::new()) };
}

const PARAM_NAMES: [&str; 4] = ["a", "b", "c", "id"];
const QUERY_NAMES: [&str; 4] = ["q", "a", "k", ""];

/// what `#[derive(Params)]` generates: `get_str` + `IntoParam::into_param` per field
#[derive(PartialEq, Clone)]
struct TypedParams(Vec<Option<String>>);
impl Params for TypedParams {
    fn from_map(map: &ParamsMap) -> Result<Self, ParamsError> {
        let mut out = vec![];
        for n in PARAM_NAMES {
            out.push(<Option<String>>::into_param(map.get_str(n), n)?);
        }
        Ok(TypedParams(out))
    }
}
#[derive(PartialEq, Clone)]
struct TypedQuery(Vec<Option<String>>);
impl Params for TypedQuery {
    fn from_map(map: &ParamsMap) -> Result<Self, ParamsError> {
        let mut out = vec![];
        for n in QUERY_NAMES {
            out.push(<Option<String>>::into_param(map.get_str(n), n)?);
        }
        Ok(TypedQuery(out))
    }
}

fn typed(r: Result<Vec<Option<String>>, ParamsError>) -> Sexp {
    match r {
        Err(_) => Lst(vec![Num(-1)]),
        Ok(l) => Lst(l.iter().map(|o| opt_str(o.as_deref())).collect()),
    }
}

/// everything a route component can read; runs inside the matched route's view function
fn record(level: usize, leaf: bool) {
    use leptos::prelude::*;
    use leptos_router::hooks::{
        query_signal, use_location, use_params, use_params_map, use_query,
        use_query_map,
    };
    let p = use_params_map();
    SEEN.with(|s| s.borrow_mut().push((level, pmap(&p.get_untracked()))));
    if leaf {
        let q = use_query_map().get_untracked();
        let lq = use_location().query.get_untracked();
        let tp = use_params::<TypedParams>().get_untracked().map(|t| t.0);
        let tq = use_query::<TypedQuery>().get_untracked().map(|t| t.0);
        let (qs, _) = query_signal::<String>("q");
        let qs = qs.get_untracked();
        LEAF.with(|l| {
            l.borrow_mut().push(Lst(vec![
                pmap(&q),
                pmap(&lq),
                typed(tp),
                typed(tq),
                opt_str(qs.as_deref()),
            ]))
        });
    }
}

/// Server-render a real router whose route definitions are the case's chain for the request
/// built from the chain's raw segments, and report what the matched components read.
fn router(c: &Sexp, flat: bool) -> Sexp {
    use futures::StreamExt;
    use leptos::{children::ToChildren, prelude::*};
    use leptos_router::{
        any_nested_route::{AnyNestedRoute, IntoAnyNestedRoute},
        components::{
            FlatRoutes, FlatRoutesProps, RouteChildren, Router, Routes,
            RoutesProps,
        },
        nested_router::Outlet,
        NestedRoute,
    };
    let mode = c.at(1).num() & 3;
    let chain = c.at(2).list();
    let query = c.at(3).list().first().map(text);

    // the request path: the chain's raw segments, '/'-joined
    let mut path = String::new();
    for level in chain {
        for sg in level.list() {
            let piece = match sg.at(0).num() {
                0 => Some(text(sg.at(1))),
                1 | 3 => Some(text(sg.at(2))),
                _ => sg.at(2).list().first().map(text),
            };
            if let Some(p) = piece {
                if !p.is_empty() {
                    path.push('/');
                    path.push_str(&p);
                }
            }
        }
    }
    if path.is_empty() {
        path.push('/');
    }
    if let Some(q) = &query {
        path.push('?');
        path.push_str(q);
    }

    // the route definitions, innermost first
    let n = chain.len();
    let mut route: Option<AnyNestedRoute> = None;
    for i in (0..n).rev() {
        let segs = Lst(vec![
            Num(5),
            Lst(chain[i]
                .list()
                .iter()
                .map(|sg| Lst(vec![sg.at(0).clone(), sg.at(1).clone()]))
                .collect()),
        ]);
        let seg = c14::build_seg(&segs);
        let leaf = i == n - 1;
        let view = move || {
            record(i, leaf);
            if leaf {
                "leaf".into_any()
            } else {
                view! { <Outlet/> }.into_any()
            }
        };
        let r = NestedRoute::new(seg, view);
        route = Some(match route.take() {
            None => r.into_any_nested_route(),
            Some(ch) => r.child(ch).into_any_nested_route(),
        });
    }
    let route = route.expect("chain has at least one level");

    SEEN.with(|s| s.borrow_mut().clear());
    LEAF.with(|s| s.borrow_mut().clear());
    let owner = Owner::new();
    let html = owner.with(|| {
        provide_context(RequestUrl::new(&path));
        let app = view! {
            <Router>
                {if flat {
                    FlatRoutes(
                        FlatRoutesProps::builder()
                            .fallback(|| "notfound")
                            .children(<RouteChildren<AnyNestedRoute> as ToChildren<_>>::to_children(move || route))
                            .build(),
                    )
                    .into_any()
                } else {
                    Routes(
                        RoutesProps::builder()
                            .fallback(|| "notfound")
                            .children(<RouteChildren<AnyNestedRoute> as ToChildren<_>>::to_children(move || route))
                            .build(),
                    )
                    .into_any()
                }}
            </Router>
        };
        match mode {
            1 => futures::executor::block_on(
                app.to_html_stream_in_order().collect::<String>(),
            ),
            2 => futures::executor::block_on(
                app.to_html_stream_out_of_order().collect::<String>(),
            ),
            _ => app.to_html(),
        }
    });
    drop(owner);
    let mut seen = SEEN.with(|s| s.borrow().clone());
    let leaf = LEAF.with(|s| s.borrow().clone());
    seen.sort_by_key(|(l, _)| *l);
    let levels_ok = seen.len() == n
        && seen.iter().enumerate().all(|(i, (l, _))| *l == i)
        && leaf.len() == 1;
    if !levels_ok {
        return Lst(vec![
            Num(-3),
            Num(seen.len() as i64),
            Sexp::from_str(&html),
        ]);
    }
    Lst(vec![
        Lst(seen.into_iter().map(|(_, m)| m).collect()),
        leaf[0].clone(),
    ])
}
