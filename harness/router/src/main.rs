//! Harness for the router properties. `h_router c15` / `h_router c14` read cases on
//! stdin (one sexp per line) and print one observation per line.

mod c14;

mod c15;

fn main() {
    // the harness owns the executor: set before anything in /repo tries to install its own
    let _ = any_spawner::Executor::init_futures_executor();
    let which = std::env::args().nth(1).unwrap_or_default();
    match which.as_str() {
        "c15" => vsexp::drive(c15::run),
        "c14" => vsexp::drive(c14::run),
        other => {
            eprintln!("unknown sub-command {other:?}");
            std::process::exit(2)
        }
    }
}
