//! Harness for the router properties. `h_router c15` / `h_router c14` read cases on
//! stdin (one sexp per line) and print one observation per line.
use leptos_router::{location::{RequestUrl, Url}, params::ParamsMap};
use vsexp::{Lst, Num, Sexp};

mod c14;

mod c15 {
    use super::*;

    /// ParamsMap -> ((k (v1 v2 ..)) ..) in map order
    pub fn pmap(m: &ParamsMap) -> Sexp {
        let mut out: Vec<(String, Vec<String>)> = vec![];
        for (k, v) in m.clone().into_iter() {
            match out.last_mut() {
                Some((pk, vs)) if *pk == k.as_ref() => vs.push(v),
                _ => out.push((k.to_string(), vec![v])),
            }
        }
        Lst(out
            .into_iter()
            .map(|(k, vs)| {
                Lst(vec![
                    Sexp::from_str(&k),
                    Lst(vs.iter().map(|v| Sexp::from_str(v)).collect()),
                ])
            })
            .collect())
    }

    fn text(s: &Sexp) -> String {
        s.string().expect("case strings are valid UTF-8 by construction")
    }

    pub fn run(c: &Sexp) -> Sexp {
        let arg = c.at(1);
        match c.at(0).num() {
            0 => Sexp::from_str(&Url::escape(&text(arg))),
            1 => Sexp::from_str(&Url::unescape(&text(arg))),
            2 => match RequestUrl::new(&text(arg)).parse() {
                Ok(url) => pmap(url.search_params()),
                Err(e) => Lst(vec![Num(-1), Sexp::from_str(&e.to_string())]),
            },
            3 => {
                // build the map through the public API, check it is the intended one,
                // write it as a query string and parse that back
                // keys are stored as Cow: exercise both representations (an owned String and a
                // `&'static str`, as literal keys in application code are)
                let borrowed = c.at(2).num() == 1;
                let mut m = ParamsMap::new();
                for kv in arg.list() {
                    let k = text(kv.at(0));
                    for v in kv.at(1).list() {
                        if borrowed {
                            let ks: &'static str = Box::leak(k.clone().into_boxed_str());
                            m.insert(ks, Url::escape(&text(v)));
                        } else {
                            m.insert(k.clone(), Url::escape(&text(v)));
                        }
                    }
                }
                let want = Lst(arg
                    .list()
                    .iter()
                    .map(|kv| Lst(vec![kv.at(0).clone(), kv.at(1).clone()]))
                    .collect());
                if pmap(&m) != want {
                    return Lst(vec![Num(-2), pmap(&m)]);
                }
                let qs = m.to_query_string();
                let back = RequestUrl::new(&format!("/{qs}")).parse();
                match back {
                    Ok(url) => Lst(vec![Sexp::from_str(&qs), pmap(url.search_params())]),
                    Err(e) => Lst(vec![Num(-1), Sexp::from_str(&e.to_string())]),
                }
            }
            4 => {
                // what flat_router / nested_router do with MatchParams::to_params()
                let m: ParamsMap = arg
                    .list()
                    .iter()
                    .map(|kv| (text(kv.at(0)), text(kv.at(1))))
                    .collect();
                pmap(&m)
            }
            5 => nested(&text(arg.at(0)), &text(arg.at(1))),
            6 => flat(&text(arg)),
            _ => Lst(vec![]),
        }
    }

    thread_local! {
        static SEEN: std::cell::RefCell<Vec<Sexp>> = const { std::cell::RefCell::new(Vec::new()) };
    }

    /// Server-render a real flat router (`/u/:id`) for the request path `/u/<raw>` and report
    /// the params map the matched component reads through `use_params_map()`.
    fn flat(raw: &str) -> Sexp {
        use leptos::prelude::*;
        use leptos_router::{
            components::{FlatRoutes, Route, Router},
            hooks::use_params_map,
            ParamSegment, StaticSegment,
        };
        #[component]
        fn User() -> impl IntoView {
            let p = use_params_map();
            SEEN.with(|s| s.borrow_mut().push(pmap(&p.get_untracked())));
            "user"
        }
        let _ = any_spawner::Executor::init_futures_executor();
        SEEN.with(|s| s.borrow_mut().clear());
        let owner = Owner::new();
        let html = owner.with(|| {
            provide_context(RequestUrl::new(&format!("/u/{raw}")));
            view! {
                <Router>
                    <FlatRoutes fallback=|| "notfound">
                        <Route path=(StaticSegment("u"), ParamSegment("id")) view=User/>
                    </FlatRoutes>
                </Router>
            }
            .to_html()
        });
        drop(owner);
        let seen = SEEN.with(|s| s.borrow().clone());
        match seen.len() {
            1 => seen[0].clone(),
            n => Lst(vec![Num(-3), Num(n as i64), Sexp::from_str(&html)]),
        }
    }

    /// Server-render a real nested router (`/:a` with child `:b`) for the request path
    /// `/<raw_a>/<raw_b>` and report the params map the leaf component reads through
    /// `use_params_map()` (= the nested router's params_including_parents memo).
    fn nested(raw_a: &str, raw_b: &str) -> Sexp {
        use leptos::prelude::*;
        use leptos_router::{
            components::{ParentRoute, Route, Router, Routes},
            hooks::use_params_map,
            nested_router::Outlet,
            ParamSegment,
        };
        #[component]
        fn Parent() -> impl IntoView {
            view! { <Outlet/> }
        }
        #[component]
        fn Leaf() -> impl IntoView {
            let p = use_params_map();
            SEEN.with(|s| s.borrow_mut().push(pmap(&p.get_untracked())));
            "leaf"
        }
        let _ = any_spawner::Executor::init_futures_executor();
        SEEN.with(|s| s.borrow_mut().clear());
        let owner = Owner::new();
        let html = owner.with(|| {
            provide_context(RequestUrl::new(&format!("/{raw_a}/{raw_b}")));
            view! {
                <Router>
                    <Routes fallback=|| "notfound">
                        <ParentRoute path=(ParamSegment("a"),) view=Parent>
                            <Route path=(ParamSegment("b"),) view=Leaf/>
                        </ParentRoute>
                    </Routes>
                </Router>
            }
            .to_html()
        });
        drop(owner);
        let seen = SEEN.with(|s| s.borrow().clone());
        match seen.len() {
            1 => seen[0].clone(),
            n => Lst(vec![Num(-3), Num(n as i64), Sexp::from_str(&html)]),
        }
    }
}

fn main() {
    let which = std::env::args().nth(1).unwrap_or_default();
    match which.as_str() {
        "c15" => vsexp::drive(c15::run),
        "c14" => vsexp::drive(c14::run),
        other => {
            eprintln!("unknown sub-command {other:?}");
            std::process::exit(2)
        }
    }
}
