//! Harness for the reactive_stores property C16.  `h_stores c16` reads one case per line on
//! stdin and prints one observation per line (see gen/c16.py for the case language).
//!
//! A case builds a `Store<Root>` (fixed `#[derive(Store, Patch)]` shapes below), creates one
//! `Effect` per reader path on a harness-owned, deterministic executor, then replays a history
//! of writes / patches / pokes and records, per step, the order in which effect tasks were woken and
//! the ordered log of (reader, value it saw).
use any_spawner::{CustomExecutor, Executor, PinnedFuture, PinnedLocalFuture};
use reactive_graph::{
    computed::Memo,
    effect::{Effect, ImmediateEffect, RenderEffect},
    graph::untrack,
    owner::Owner,
    signal::ArcTrigger,
    traits::{
        DefinedAt, Get, IsDisposed, Notify, Read, ReadUntracked, Set, Track, Update, UpdateUntracked, With, Write,
    },
    wrappers::read::Signal,
};
use reactive_stores::{
    ArcField, ArcStore, AtKeyed, DerefField, Field, KeyedSubfield, OptionStoreExt, Patch, PatchField, Store, StoreField,
    StoreFieldIterator, Subfield,
};
use std::{
    cell::RefCell,
    collections::VecDeque,
    marker::PhantomData,
    ops::Deref,
    sync::{Arc, Mutex},
    task::{Context, Wake, Waker},
};
use vsexp::{Lst, Num, Sexp};

// ------------------------------------------------------------------------------------------
// deterministic executor: every spawned future is a task with an index (spawn order); a wake
// appends the task to the run queue unless it is already queued; `drain` runs the queue in
// FIFO order, or in the order dictated by a list of choices (the schedule of the case).
// ------------------------------------------------------------------------------------------
#[derive(Default)]
struct Shared {
    queue: VecDeque<usize>,
    queued: Vec<bool>,
    wake_log: Vec<usize>,
}

struct TaskWaker {
    id: usize,
    epoch: usize,
    shared: Arc<Mutex<(usize, Shared)>>,
}

impl Wake for TaskWaker {
    fn wake(self: Arc<Self>) {
        self.wake_by_ref()
    }
    fn wake_by_ref(self: &Arc<Self>) {
        let mut g = self.shared.lock().unwrap();
        if g.0 != self.epoch {
            return; // a waker of a previous case
        }
        let sh = &mut g.1;
        if !sh.queued[self.id] {
            sh.queued[self.id] = true;
            sh.queue.push_back(self.id);
            sh.wake_log.push(self.id);
        }
    }
}

#[derive(Default)]
struct ExecState {
    tasks: Vec<Option<PinnedLocalFuture<()>>>,
}

thread_local! {
    static EXEC: RefCell<ExecState> = RefCell::new(ExecState::default());
}
static SHARED: std::sync::OnceLock<Arc<Mutex<(usize, Shared)>>> = std::sync::OnceLock::new();

fn shared() -> Arc<Mutex<(usize, Shared)>> {
    SHARED
        .get_or_init(|| Arc::new(Mutex::new((0, Shared::default()))))
        .clone()
}

struct HarnessExecutor;

impl CustomExecutor for HarnessExecutor {
    fn spawn(&self, fut: PinnedFuture<()>) {
        self.spawn_local(fut)
    }
    fn spawn_local(&self, fut: PinnedLocalFuture<()>) {
        let id = EXEC.with(|e| {
            let mut e = e.borrow_mut();
            e.tasks.push(Some(fut));
            e.tasks.len() - 1
        });
        let sh = shared();
        let mut g = sh.lock().unwrap();
        g.1.queued.push(true);
        g.1.queue.push_back(id);
    }
    fn poll_local(&self) {}
}

/// start a new case: forget every task and every pending wake-up
fn exec_reset() {
    let old = EXEC.with(|e| std::mem::take(&mut e.borrow_mut().tasks));
    {
        let sh = shared();
        let mut g = sh.lock().unwrap();
        g.0 += 1;
        g.1 = Shared::default();
    }
    drop(old);
}

fn take_wake_log() -> Vec<usize> {
    let sh = shared();
    let mut g = sh.lock().unwrap();
    std::mem::take(&mut g.1.wake_log)
}

/// run until no task is queued; `sched` picks which queued task runs next (empty = FIFO)
fn drain(sched: &[i64], pos: &mut usize) {
    loop {
        let next = {
            let sh = shared();
            let mut g = sh.lock().unwrap();
            let q = &mut g.1.queue;
            if q.is_empty() {
                None
            } else {
                let k = if sched.is_empty() {
                    0
                } else {
                    let c = sched[*pos % sched.len()].unsigned_abs() as usize;
                    *pos += 1;
                    c % q.len()
                };
                let id = q.remove(k).unwrap();
                g.1.queued[id] = false;
                Some((id, g.0))
            }
        };
        let Some((id, epoch)) = next else { break };
        let fut = EXEC.with(|e| e.borrow_mut().tasks[id].take());
        if let Some(mut fut) = fut {
            let waker = Waker::from(Arc::new(TaskWaker {
                id,
                epoch,
                shared: shared(),
            }));
            let mut cx = Context::from_waker(&waker);
            if fut.as_mut().poll(&mut cx).is_pending() {
                EXEC.with(|e| e.borrow_mut().tasks[id] = Some(fut));
            }
        }
    }
}

// ------------------------------------------------------------------------------------------
// store shapes
// ------------------------------------------------------------------------------------------
/// a tuple struct (accessors `field0()` / `field2()`, `Index` locators in derive(Patch)) whose
/// MIDDLE field is skipped by derive(Store): it still occupies index 1 (derive(Store) and
/// derive(Patch) both number the fields by declaration index), and is patched by
/// `PatchField for ()`.  Encoded as (a () b).
#[derive(Debug, Clone, Default, PartialEq, Store, Patch)]
pub struct Leaf(i64, #[store(skip)] (), i64);

/// an item of the keyed collection nested inside a keyed item
#[derive(Debug, Clone, Default, PartialEq, Store, Patch)]
pub struct Tag {
    id: i64,
    n: i64,
}

#[derive(Debug, Clone, Default, PartialEq, Store, Patch)]
pub struct Item {
    id: i64,
    n: i64,
    l: Leaf,
    #[store(key: i64 = |it| it.id)]
    kk: Vec<Tag>,
}

/// derive(Store) on an enum: `a()` / `b()` / `c()` -> bool, `b_0()` / `b_1()` / `c_x()` / `c_y()` ->
/// `Option<Subfield>`; encoded as (tag fields..)
#[derive(Debug, Clone, Default, PartialEq, Store)]
pub enum Choice {
    #[default]
    A,
    B(i64, Leaf),
    C {
        x: i64,
        y: i64,
    },
}

/// derive(Patch) does not support enums: patched as a whole
impl PatchField for Choice {
    fn patch_field(
        &mut self,
        new: Self,
        path: &reactive_stores::StorePath,
        notify: &mut dyn FnMut(&reactive_stores::StorePath),
    ) {
        if new != *self {
            *self = new;
            notify(path);
        }
    }
}

/// the FIRST field is skipped by derive(Store): the accessors start at path segment 1.
/// Encoded as (() x l v b t e).
#[derive(Debug, Clone, Default, PartialEq, Store, Patch)]
pub struct Sub {
    #[store(skip)]
    z: (),
    #[patch(|this, new| *this = new)]
    x: i64,
    l: Leaf,
    v: Vec<i64>,
    b: Box<Leaf>,
    t: (i64, i64),
    e: Choice,
}

/// a boxed value is patched as a whole (reactive_stores has no PatchField for Box)
impl PatchField for Box<Leaf> {
    fn patch_field(
        &mut self,
        new: Self,
        path: &reactive_stores::StorePath,
        notify: &mut dyn FnMut(&reactive_stores::StorePath),
    ) {
        if new != *self {
            *self = new;
            notify(path);
        }
    }
}

#[derive(Debug, Clone, Default, PartialEq, Store, Patch)]
pub struct Mid {
    #[patch(|this, new| *this = new)]
    x: i64,
    l: Leaf,
    o: Option<Leaf>,
    #[store(key: i64 = |it| it.id)]
    k: Vec<Item>,
}

#[derive(Debug, Clone, Default, PartialEq, Store, Patch)]
pub struct Root {
    a: i64,
    m: Mid,
    o: Option<Sub>,
    v: Vec<Sub>,
    #[store(key: i64 = |it| it.id)]
    k: Vec<Item>,
    e: Choice,
}

/// everything the harness needs from a store field, whatever its concrete accessor type
pub trait FldBase<T: 'static>:
    StoreField<Value = T>
    + Track
    + ReadUntracked<Value: Deref<Target = T>>
    + Write<Value = T>
    + IsDisposed
    + DefinedAt
    + Clone
    + Send
    + Sync
    + 'static
{
}
impl<T: 'static, S> FldBase<T> for S where
    S: StoreField<Value = T>
        + Track
        + ReadUntracked<Value: Deref<Target = T>>
        + Write<Value = T>
        + IsDisposed
        + DefinedAt
        + Clone
        + Send
        + Sync
        + 'static
{
}
/// ... and it can be handed on as a type-erased `ArcField` / `Field` (not so a `KeyedSubfield`)
pub trait Fld<T: 'static>: FldBase<T> + Into<ArcField<T>> + Into<Field<T>> {}
impl<T: 'static, S> Fld<T> for S where S: FldBase<T> + Into<ArcField<T>> + Into<Field<T>> {}

type Step = (i64, i64);
type BNode = Box<dyn Node>;

/// plain values: (de)serialisation and the typed children of a field holding such a value
pub trait Val: Sized + Clone + PatchField + Send + Sync + 'static {
    fn enc(&self) -> Sexp;
    fn dec(s: &Sexp) -> Self;
    fn has_child(&self, _st: Step) -> bool {
        false
    }
    fn child<S: FldBase<Self>>(_s: &S, _st: Step) -> Option<BNode> {
        None
    }
    fn key(&self) -> Option<i64> {
        None
    }
    /// for collections: iterate over the field with the store's own iterator, reading every item;
    /// dir 0 front to back, 1 `.rev()`, 2 alternately from both ends until they meet
    fn iter_read<S: FldBase<Self>>(_s: &S, _dir: i64) -> Option<Sexp> {
        None
    }
    /// for options: look at the field through OptionStoreExt::map (how = 6) / invert (how = 7);
    /// the closure reads the inner value WITHOUT tracking it
    fn opt_read<S: FldBase<Self>>(_s: &S, _how: i64) -> Option<Sexp> {
        None
    }
    /// for enums: call the generated `fn variant(self) -> bool` accessors (tracked reads of the
    /// enum field); returns whether they agree with the value
    fn variant_read<S: FldBase<Self>>(_s: &S, _which: i64) -> Option<bool> {
        None
    }
}

fn node<T: Val, S: Fld<T>>(s: S) -> Option<BNode> {
    Some(Box::new(N::<S, T> {
        f: s,
        ty: PhantomData,
        arc: Some(|s: &S| s.clone().into()),
        fld: Some(|s: &S| s.clone().into()),
        sig: None,
    }))
}

/// a `Subfield` (struct field getter, `unwrap()`, enum variant field): also converts to a
/// `Signal<T>` (`From<Subfield> for Signal`)
fn node_sub<T: Val, Inner, Prev>(s: Subfield<Inner, Prev, T>) -> Option<BNode>
where
    Subfield<Inner, Prev, T>: Fld<T>,
    Inner: StoreField<Value = Prev> + Track + Send + Sync + 'static,
    Prev: 'static,
{
    Some(Box::new(N::<Subfield<Inner, Prev, T>, T> {
        f: s,
        ty: PhantomData,
        arc: Some(|s| s.clone().into()),
        fld: Some(|s| s.clone().into()),
        sig: Some(|s| Signal::from(s.clone())),
    }))
}

/// an arena-allocated `Field<T>`: a handle that cannot be converted any further
fn node_field<T: Val>(f: Field<T>) -> Option<BNode> {
    Some(Box::new(N::<Field<T>, T> { f, ty: PhantomData, arc: None, fld: None, sig: None }))
}

impl Val for i64 {
    fn enc(&self) -> Sexp {
        Num(*self)
    }
    fn dec(s: &Sexp) -> Self {
        s.num()
    }
}

/// a tuple has no accessors: it is read, written and patched (PatchField for (A, B)) as one field
impl Val for (i64, i64) {
    fn enc(&self) -> Sexp {
        Lst(vec![self.0.enc(), self.1.enc()])
    }
    fn dec(s: &Sexp) -> Self {
        (i64::dec(s.at(0)), i64::dec(s.at(1)))
    }
}

impl Val for Leaf {
    fn enc(&self) -> Sexp {
        Lst(vec![self.0.enc(), Lst(vec![]), self.2.enc()])
    }
    fn dec(s: &Sexp) -> Self {
        Leaf(i64::dec(s.at(0)), (), i64::dec(s.at(2)))
    }
    fn has_child(&self, st: Step) -> bool {
        st.0 == 0 && (st.1 == 0 || st.1 == 2)
    }
    fn child<S: FldBase<Self>>(s: &S, st: Step) -> Option<BNode> {
        match st {
            (0, 0) => node_sub(s.clone().field0()),
            (0, 2) => node_sub(s.clone().field2()),
            _ => None,
        }
    }
}

impl Val for Tag {
    fn enc(&self) -> Sexp {
        Lst(vec![self.id.enc(), self.n.enc()])
    }
    fn dec(s: &Sexp) -> Self {
        Tag { id: i64::dec(s.at(0)), n: i64::dec(s.at(1)) }
    }
    fn has_child(&self, st: Step) -> bool {
        st.0 == 0 && (0..2).contains(&st.1)
    }
    fn child<S: FldBase<Self>>(s: &S, st: Step) -> Option<BNode> {
        match st {
            (0, 0) => node_sub(s.clone().id()),
            (0, 1) => node_sub(s.clone().n()),
            _ => None,
        }
    }
    fn key(&self) -> Option<i64> {
        Some(self.id)
    }
}

impl Val for Item {
    fn enc(&self) -> Sexp {
        Lst(vec![self.id.enc(), self.n.enc(), self.l.enc(), self.kk.enc()])
    }
    fn dec(s: &Sexp) -> Self {
        Item { id: i64::dec(s.at(0)), n: i64::dec(s.at(1)), l: Leaf::dec(s.at(2)), kk: Vec::<Tag>::dec(s.at(3)) }
    }
    fn has_child(&self, st: Step) -> bool {
        st.0 == 0 && (0..4).contains(&st.1)
    }
    fn child<S: FldBase<Self>>(s: &S, st: Step) -> Option<BNode> {
        match st {
            (0, 0) => node_sub(s.clone().id()),
            (0, 1) => node_sub(s.clone().n()),
            (0, 2) => node_sub(s.clone().l()),
            (0, 3) => Some(Box::new(NKeyed::<S, Item, Tag>(s.clone().kk()))),
            _ => None,
        }
    }
    fn key(&self) -> Option<i64> {
        Some(self.id)
    }
}

/// `Choice`: step (6 10*v+i) = field i of variant v, through the generated `Option<Subfield>`
/// accessor.  The accessor itself does a *tracked* read of the enum field; it is called under
/// `untrack` (the handle is built for the reader, as a parent component would), so that the
/// reader reads the variant's field only.
impl Val for Choice {
    fn enc(&self) -> Sexp {
        match self {
            Choice::A => Lst(vec![Num(0)]),
            Choice::B(i, l) => Lst(vec![Num(1), i.enc(), l.enc()]),
            Choice::C { x, y } => Lst(vec![Num(2), x.enc(), y.enc()]),
        }
    }
    fn dec(s: &Sexp) -> Self {
        match s.at(0).num() {
            1 => Choice::B(i64::dec(s.at(1)), Leaf::dec(s.at(2))),
            2 => Choice::C { x: i64::dec(s.at(1)), y: i64::dec(s.at(2)) },
            _ => Choice::A,
        }
    }
    fn has_child(&self, st: Step) -> bool {
        st.0 == 6
            && match self {
                Choice::A => false,
                Choice::B(..) => st.1 == 10 || st.1 == 11,
                Choice::C { .. } => st.1 == 20 || st.1 == 21,
            }
    }
    fn child<S: FldBase<Self>>(s: &S, st: Step) -> Option<BNode> {
        match st {
            (6, 10) => untrack(|| s.clone().b_0()).and_then(node_sub),
            (6, 11) => untrack(|| s.clone().b_1()).and_then(node_sub),
            (6, 20) => untrack(|| s.clone().c_x()).and_then(node_sub),
            (6, 21) => untrack(|| s.clone().c_y()).and_then(node_sub),
            _ => None,
        }
    }
    /// which: 0 `a()` (unit variant), 1 `b()` (tuple variant), 2 `c()` (struct variant): one
    /// accessor only, so that the reader's subscription is that accessor's doing
    fn variant_read<S: FldBase<Self>>(s: &S, which: i64) -> Option<bool> {
        let is = match which {
            0 => s.clone().a(),
            1 => s.clone().b(),
            _ => s.clone().c(),
        };
        let tag = s.try_read_untracked().map(|g| match g.deref() {
            Choice::A => 0,
            Choice::B(..) => 1,
            Choice::C { .. } => 2,
        });
        Some(is == (tag == Some(which.clamp(0, 2))))
    }
}

impl Val for Sub {
    fn enc(&self) -> Sexp {
        Lst(vec![
            Lst(vec![]),
            self.x.enc(),
            self.l.enc(),
            self.v.enc(),
            self.b.enc(),
            self.t.enc(),
            self.e.enc(),
        ])
    }
    fn dec(s: &Sexp) -> Self {
        Sub {
            z: (),
            x: i64::dec(s.at(1)),
            l: Leaf::dec(s.at(2)),
            v: Vec::<i64>::dec(s.at(3)),
            b: Box::<Leaf>::dec(s.at(4)),
            t: <(i64, i64)>::dec(s.at(5)),
            e: Choice::dec(s.at(6)),
        }
    }
    fn has_child(&self, st: Step) -> bool {
        st.0 == 0 && (1..7).contains(&st.1)
    }
    fn child<S: FldBase<Self>>(s: &S, st: Step) -> Option<BNode> {
        match st {
            (0, 1) => node_sub(s.clone().x()),
            (0, 2) => node_sub(s.clone().l()),
            (0, 3) => node_sub(s.clone().v()),
            (0, 4) => node_sub(s.clone().b()),
            (0, 5) => node_sub(s.clone().t()),
            (0, 6) => node_sub(s.clone().e()),
            _ => None,
        }
    }
}

/// `Box<Leaf>`: step (5 0) = `.deref_field()` (DerefField), same path, the boxed value
impl Val for Box<Leaf> {
    fn enc(&self) -> Sexp {
        self.deref().enc()
    }
    fn dec(s: &Sexp) -> Self {
        Box::new(Leaf::dec(s))
    }
    fn has_child(&self, st: Step) -> bool {
        st.0 == 5
    }
    fn child<S: FldBase<Self>>(s: &S, st: Step) -> Option<BNode> {
        match st {
            (5, _) => node::<Leaf, _>(s.clone().deref_field()),
            _ => None,
        }
    }
}

impl Val for Mid {
    fn enc(&self) -> Sexp {
        Lst(vec![self.x.enc(), self.l.enc(), self.o.enc(), self.k.enc()])
    }
    fn dec(s: &Sexp) -> Self {
        Mid {
            x: i64::dec(s.at(0)),
            l: Leaf::dec(s.at(1)),
            o: Option::<Leaf>::dec(s.at(2)),
            k: Vec::<Item>::dec(s.at(3)),
        }
    }
    fn has_child(&self, st: Step) -> bool {
        st.0 == 0 && (0..4).contains(&st.1)
    }
    fn child<S: FldBase<Self>>(s: &S, st: Step) -> Option<BNode> {
        match st {
            (0, 0) => node_sub(s.clone().x()),
            (0, 1) => node_sub(s.clone().l()),
            (0, 2) => node_sub(s.clone().o()),
            (0, 3) => Some(Box::new(NKeyed::<S, Mid, Item>(s.clone().k()))),
            _ => None,
        }
    }
}

impl Val for Root {
    fn enc(&self) -> Sexp {
        Lst(vec![self.a.enc(), self.m.enc(), self.o.enc(), self.v.enc(), self.k.enc(), self.e.enc()])
    }
    fn dec(s: &Sexp) -> Self {
        Root {
            a: i64::dec(s.at(0)),
            m: Mid::dec(s.at(1)),
            o: Option::<Sub>::dec(s.at(2)),
            v: Vec::<Sub>::dec(s.at(3)),
            k: Vec::<Item>::dec(s.at(4)),
            e: Choice::dec(s.at(5)),
        }
    }
    fn has_child(&self, st: Step) -> bool {
        st.0 == 0 && (0..6).contains(&st.1)
    }
    fn child<S: FldBase<Self>>(s: &S, st: Step) -> Option<BNode> {
        match st {
            (0, 0) => node_sub(s.clone().a()),
            (0, 1) => node_sub(s.clone().m()),
            (0, 2) => node_sub(s.clone().o()),
            (0, 3) => node_sub(s.clone().v()),
            (0, 4) => Some(Box::new(NKeyed::<S, Root, Item>(s.clone().k()))),
            (0, 5) => node_sub(s.clone().e()),
            _ => None,
        }
    }
}

impl<T: Val> Val for Option<T> {
    fn enc(&self) -> Sexp {
        match self {
            None => Lst(vec![]),
            Some(x) => Lst(vec![x.enc()]),
        }
    }
    fn dec(s: &Sexp) -> Self {
        s.list().first().map(T::dec)
    }
    fn has_child(&self, st: Step) -> bool {
        st.0 == 1 && self.is_some()
    }
    /// (1 0): `.unwrap()` (after the harness's own untracked look-ahead);
    /// (1 1): `.map_untracked(|inner| inner)`, which does the look-ahead itself
    fn child<S: FldBase<Self>>(s: &S, st: Step) -> Option<BNode> {
        match st {
            (1, 1) => s.clone().map_untracked(|inner| inner).and_then(node_sub),
            (1, _) => node_sub(s.clone().unwrap()),
            _ => None,
        }
    }
    fn opt_read<S: FldBase<Self>>(s: &S, how: i64) -> Option<Sexp> {
        let inner: Option<Option<Sexp>> = if how == 6 {
            s.clone().map(|f| f.try_read_untracked().map(|g| g.deref().enc()))
        } else {
            s.clone().invert().map(|f| f.try_read_untracked().map(|g| g.deref().enc()))
        };
        Some(match inner {
            None => Lst(vec![]),
            Some(Some(v)) => Lst(vec![v]),
            Some(None) => Lst(vec![Num(-1)]),
        })
    }
}

/// collect the items of a double-ended iterator in collection order: dir 0 `next()`,
/// 1 `.rev()`, 2 alternately `next()` / `next_back()` until the two ends meet
fn collect_dir<I: DoubleEndedIterator>(mut it: I, dir: i64, mut f: impl FnMut(I::Item) -> Sexp) -> Vec<Sexp> {
    match dir {
        1 => {
            let mut v: Vec<Sexp> = it.rev().map(f).collect();
            v.reverse();
            v
        }
        2 => {
            let (mut front, mut back) = (vec![], vec![]);
            loop {
                match it.next() {
                    Some(x) => front.push(f(x)),
                    None => break,
                }
                match it.next_back() {
                    Some(x) => back.push(f(x)),
                    None => break,
                }
            }
            back.reverse();
            front.extend(back);
            front
        }
        _ => it.map(f).collect(),
    }
}

impl<T: Val> Val for Vec<T> {
    fn enc(&self) -> Sexp {
        Lst(self.iter().map(|x| x.enc()).collect())
    }
    fn dec(s: &Sexp) -> Self {
        s.list().iter().map(T::dec).collect()
    }
    fn has_child(&self, st: Step) -> bool {
        match st {
            (2, i) => i >= 0 && (i as usize) < self.len(),
            (3, k) => self.iter().any(|x| x.key() == Some(k)),
            _ => false,
        }
    }
    fn child<S: FldBase<Self>>(s: &S, st: Step) -> Option<BNode> {
        match st {
            (2, i) if i >= 0 => node(s.clone().at_unkeyed(i as usize)),
            _ => None,
        }
    }
    fn iter_read<S: FldBase<Self>>(s: &S, dir: i64) -> Option<Sexp> {
        Some(Lst(collect_dir(s.clone().iter_unkeyed(), dir, |item| match item.try_read() {
            Some(g) => g.deref().enc(),
            None => Lst(vec![Num(-1)]),
        })))
    }
}

/// a type-erased store field
pub trait Node: Send + Sync {
    /// tracked read, serialised; `(-1)` if the field yields no guard.  how: 0 Read::try_read,
    /// 2 Get::try_get, 3 With::try_with, 4 Track::track + try_read_untracked,
    /// 5 StoreField::track_field + reader, 1 iterate, 6 / 7 OptionStoreExt::map / invert,
    /// 8 Signal::from(subfield).try_get(), 9 iterate `.rev()`, 10 iterate from both ends,
    /// 11 / 12 / 13 enum: the generated bool accessor of the unit / tuple / struct variant +
    /// the value read untracked
    fn read(&self, how: i64) -> Sexp;
    /// untracked look at the current value: is the child addressed by `st` there?
    fn has_child(&self, st: Step) -> bool;
    fn child(&self, st: Step) -> Option<BNode>;
    /// write the value.  how: 0 `*field.try_write() = v`, 1 Set::try_set, 2 Update::try_update,
    /// 3 Update::try_maybe_update -> (true, _), 4 `*StoreField::writer() = v` (fields whose raw
    /// writer is their write guard: not the store itself, not a keyed collection)
    fn set(&self, v: &Sexp, how: i64) -> bool;
    /// write the value without notifying.  how: 0 Write::try_write_untracked,
    /// 1 Update::try_maybe_update -> (false, _), 2 UpdateUntracked::try_update_untracked
    fn set_untracked(&self, v: &Sexp, how: i64) -> bool;
    /// `field.patch(value)`
    fn patch(&self, v: &Sexp);
    fn path(&self) -> Vec<i64>;
    /// for a keyed collection: (key, last path segment of its item) in collection order
    fn key_segs(&self) -> Option<Vec<(i64, i64)>> {
        None
    }
    /// for a keyed collection: `KeyedSubfield::update_keys()`
    fn update_keys(&self) -> bool {
        false
    }
}

/// a field, its value type, and how to hand it on as a type-erased `ArcField` / `Field` /
/// `Signal` (if possible)
struct N<S, T: Send + Sync + 'static> {
    f: S,
    ty: PhantomData<T>,
    arc: Option<fn(&S) -> ArcField<T>>,
    fld: Option<fn(&S) -> Field<T>>,
    sig: Option<fn(&S) -> Signal<T>>,
}

fn none() -> Sexp {
    Lst(vec![Num(-1)])
}

/// the read entry points every field type has
fn read_common<T: Val, S: FldBase<T>>(f: &S, how: i64) -> Sexp {
    match how {
        2 => f.try_get().map(|v| v.enc()).unwrap_or_else(none),
        3 => f.try_with(|v| v.enc()).unwrap_or_else(none),
        4 => {
            f.track();
            f.try_read_untracked().map(|g| g.deref().enc()).unwrap_or_else(none)
        }
        5 => {
            f.track_field();
            f.reader().map(|g| g.deref().enc()).unwrap_or_else(none)
        }
        _ => match f.try_read() {
            Some(g) => g.deref().enc(),
            None => none(),
        },
    }
}

/// the write entry points every field type has (`raw`: may `StoreField::writer()` be used)
fn set_common<T: Val, S: FldBase<T>>(f: &S, v: &Sexp, how: i64, raw: bool) -> bool {
    let new = T::dec(v);
    match how {
        1 => {
            // Set::try_set tells nothing about the guard: look first
            if f.try_read_untracked().is_none() {
                return false;
            }
            f.try_set(new).is_none()
        }
        2 => f.try_update(move |x| *x = new).is_some(),
        3 => f
            .try_maybe_update(move |x| {
                *x = new;
                (true, ())
            })
            .is_some(),
        4 if raw => match f.writer() {
            Some(mut g) => {
                *g = new;
                true
            }
            None => false,
        },
        _ => match f.try_write() {
            Some(mut g) => {
                *g = new;
                true
            }
            None => false,
        },
    }
}

fn set_untracked_common<T: Val, S: FldBase<T>>(f: &S, v: &Sexp, how: i64) -> bool {
    let new = T::dec(v);
    match how {
        1 => f
            .try_maybe_update(move |x| {
                *x = new;
                (false, ())
            })
            .is_some(),
        2 => f.try_update_untracked(move |x| *x = new).is_some(),
        _ => match f.try_write_untracked() {
            Some(mut g) => {
                *g = new;
                true
            }
            None => false,
        },
    }
}

impl<T: Val, S: FldBase<T>> Node for N<S, T> {
    fn read(&self, how: i64) -> Sexp {
        match how {
            1 | 9 | 10 => {
                if let Some(v) = T::iter_read(&self.f, if how == 1 { 0 } else { how - 8 }) {
                    return v;
                }
            }
            6 | 7 => {
                if let Some(v) = T::opt_read(&self.f, how) {
                    return v;
                }
            }
            8 => {
                if let Some(sig) = self.sig {
                    return sig(&self.f).try_get().map(|v| v.enc()).unwrap_or_else(none);
                }
            }
            11 | 12 | 13 => {
                if let Some(ok) = T::variant_read(&self.f, how - 11) {
                    let v = self.f.try_read_untracked().map(|g| g.deref().enc()).unwrap_or_else(none);
                    return if ok { v } else { Lst(vec![Num(-2), v]) };
                }
            }
            _ => {}
        }
        read_common::<T, S>(&self.f, how)
    }
    fn has_child(&self, st: Step) -> bool {
        // step kind 4: hand the field on type-erased, as an ArcField (4 0) or a Field (4 1)
        self.f
            .try_read_untracked()
            .map(|g| if st.0 == 4 { self.arc.is_some() } else { g.deref().has_child(st) })
            .unwrap_or(false)
    }
    fn child(&self, st: Step) -> Option<BNode> {
        if st.0 == 4 {
            // (4 0) ArcField::from(field); (4 1) Field::from(field) (each accessor type has its own
            // From impl; Field::from(ArcField) is the chain (4 0) (4 1))
            return if st.1 == 0 { node::<T, _>((self.arc?)(&self.f)) } else { node_field::<T>((self.fld?)(&self.f)) };
        }
        T::child(&self.f, st)
    }
    fn set(&self, v: &Sexp, how: i64) -> bool {
        // the store's own raw writer is the building block of the composite accessors, not a
        // write guard of its own (it notifies the root's `children` only)
        let raw = self.f.path().into_iter().next().is_some();
        set_common::<T, S>(&self.f, v, how, raw)
    }
    fn set_untracked(&self, v: &Sexp, how: i64) -> bool {
        set_untracked_common::<T, S>(&self.f, v, how)
    }
    fn patch(&self, v: &Sexp) {
        self.f.patch(T::dec(v));
    }
    fn path(&self) -> Vec<i64> {
        self.f.path().into_iter().map(seg).collect()
    }
}

fn seg(s: reactive_stores::StorePathSegment) -> i64 {
    // StorePathSegment's field is crate-private; its Debug form is `StorePathSegment(n)`
    let d = format!("{s:?}");
    d.trim_start_matches("StorePathSegment(").trim_end_matches(')').parse().unwrap_or(-1)
}

/// a keyed collection field (`#[store(key: i64 = |it| it.id)] Vec<E>`)
struct NKeyed<Inner, Prev, E: Val>(KeyedSubfield<Inner, Prev, i64, Vec<E>>)
where
    KeyedSubfield<Inner, Prev, i64, Vec<E>>: FldBase<Vec<E>>;

impl<Inner, Prev, E: Val> Node for NKeyed<Inner, Prev, E>
where
    Inner: StoreField<Value = Prev> + Track + Clone + Send + Sync + 'static,
    Prev: 'static,
    KeyedSubfield<Inner, Prev, i64, Vec<E>>: FldBase<Vec<E>>,
    AtKeyed<Inner, Prev, i64, Vec<E>>: Fld<E>,
    reactive_stores::AtIndex<KeyedSubfield<Inner, Prev, i64, Vec<E>>, Vec<E>>: Fld<E>,
{
    fn read(&self, how: i64) -> Sexp {
        if matches!(how, 1 | 9 | 10) {
            let dir = if how == 1 { 0 } else { how - 8 };
            return Lst(collect_dir(self.0.clone().into_iter(), dir, |item| match item.try_read() {
                Some(g) => g.deref().enc(),
                None => none(),
            }));
        }
        read_common::<Vec<E>, _>(&self.0, how)
    }
    fn has_child(&self, st: Step) -> bool {
        self.0.try_read_untracked().map(|g| g.deref().has_child(st)).unwrap_or(false)
    }
    fn child(&self, st: Step) -> Option<BNode> {
        match st {
            (3, k) => node::<E, _>(AtKeyed::new(self.0.clone(), k)),
            (2, i) if i >= 0 => node::<E, _>(self.0.clone().at_unkeyed(i as usize)),
            _ => None,
        }
    }
    fn set(&self, v: &Sexp, how: i64) -> bool {
        // the raw writer of a keyed collection does not refresh the keys: never used directly
        set_common::<Vec<E>, _>(&self.0, v, how, false)
    }
    fn set_untracked(&self, v: &Sexp, how: i64) -> bool {
        set_untracked_common::<Vec<E>, _>(&self.0, v, how)
    }
    fn patch(&self, v: &Sexp) {
        self.0.patch(Vec::<E>::dec(v));
    }
    fn path(&self) -> Vec<i64> {
        StoreField::path(&self.0).into_iter().map(seg).collect()
    }
    fn key_segs(&self) -> Option<Vec<(i64, i64)>> {
        let own = self.path().len();
        let ids: Vec<i64> = self.0.try_read_untracked()?.deref().iter().map(|it| it.key().unwrap_or(-1)).collect();
        Some(
            ids.into_iter()
                .map(|k| {
                    let p: Vec<i64> = AtKeyed::new(self.0.clone(), k).path().into_iter().map(seg).collect();
                    (k, if p.len() > own { p[own] } else { -1 })
                })
                .collect(),
        )
    }
    fn update_keys(&self) -> bool {
        self.0.update_keys();
        true
    }
}

// ------------------------------------------------------------------------------------------
// the case interpreter
// ------------------------------------------------------------------------------------------
fn steps_of(s: &Sexp) -> Vec<Step> {
    s.list().iter().map(|st| (st.at(0).num(), st.at(1).num())).collect()
}

/// the two handles of the store of a case
#[derive(Clone)]
struct Roots {
    store: Store<Root>,
    arc: ArcStore<Root>,
}

/// follow `chain` from the root as far as the current value allows (untracked look-ahead);
/// returns the node reached and how many steps were taken.  A first step (4 2) starts from
/// the `ArcStore` handle instead of the arena-allocated `Store`.
fn walk(roots: &Roots, chain: &[Step]) -> (BNode, usize) {
    let (mut cur, start): (BNode, usize) = if chain.first() == Some(&(4, 2)) {
        (node::<Root, _>(roots.arc.clone()).unwrap(), 1)
    } else {
        (node::<Root, _>(roots.store).unwrap(), 0)
    };
    for (j, st) in chain.iter().enumerate().skip(start) {
        if *st == (4, 2) || !cur.has_child(*st) {
            return (cur, j);
        }
        match cur.child(*st) {
            Some(n) => cur = n,
            None => return (cur, j),
        }
    }
    (cur, chain.len())
}

/// What a reader does: read (tracked) the field its chain addresses.  If the chain is
/// currently cut short by a `None` / a missing index / a missing key it reads nothing from
/// the store (it is re-run only by its own `poke` trigger, see step 4).
/// mode 0: the accessors are built afresh in every run; mode 1: the handle is built once (the
/// first time the chain is fully there) and kept for the following runs, as long as every run
/// finds the chain still there (a component that was handed the field keeps its handle).
/// Observation: (steps taken, value read) or (steps taken).
fn reader_body(
    roots: &Roots,
    chain: &[Step],
    how: i64,
    mode: i64,
    cache: &Mutex<Option<BNode>>,
    owner: &Owner,
) -> Sexp {
    let (n, j) = walk(roots, chain);
    if j == chain.len() {
        let v = if mode == 1 {
            // a kept handle belongs to whoever handed it to the reader, not to one run of the
            // reader's effect (an arena-allocated `Field` dies with its owner)
            let kept = cache.lock().unwrap().take();
            let kept = kept.unwrap_or_else(|| owner.with(|| walk(roots, chain).0));
            let v = kept.read(how);
            *cache.lock().unwrap() = Some(kept);
            v
        } else {
            n.read(how)
        };
        Lst(vec![Num(j as i64), v])
    } else {
        if mode == 1 {
            cache.lock().unwrap().take();
        }
        Lst(vec![Num(j as i64)])
    }
}

type Log = Arc<Mutex<Vec<Sexp>>>;

/// wake-ups are recorded per executor task; translate them to reader numbers
fn phase(log: &Log, task_reader: &[i64]) -> Sexp {
    // order of the FIRST wake-up of every reader's task in this phase (the effect behind a
    // Memo is woken a second time, while it runs, when the memo's value has changed)
    let mut wakes: Vec<i64> = vec![];
    for x in take_wake_log() {
        let r = task_reader.get(x).copied().unwrap_or(-1);
        if !wakes.contains(&r) {
            wakes.push(r);
        }
    }
    let runs = std::mem::take(&mut *log.lock().unwrap());
    Lst(vec![Sexp::from_nums(wakes), Lst(runs)])
}

fn n_tasks() -> usize {
    EXEC.with(|e| e.borrow().tasks.len())
}

/// optional element of a list
fn opt_num(s: &Sexp, i: usize) -> i64 {
    s.list().get(i).map(|x| x.num()).unwrap_or(0)
}

/// (0 init readers steps sched key-orders read-kinds subscriber-kinds handle-modes)
fn c16(c: &Sexp) -> Sexp {
    exec_reset();
    let init = Root::dec(c.at(1));
    let readers: Vec<Vec<Step>> = c.at(2).list().iter().map(steps_of).collect();
    let sched = c.at(4).nums();
    let mut spos = 0usize;
    let nth = |i: usize, rid: usize| c.list().get(i).map(|l| opt_num(l, rid)).unwrap_or(0);

    let owner = Owner::new();
    owner.set();
    let arc = ArcStore::new(init);
    let roots = Roots { store: Store::from(arc.clone()), arc };
    let store = roots.clone();
    let log: Log = Arc::new(Mutex::new(vec![]));
    let mut out = vec![];
    let mut last: std::collections::HashMap<Vec<Step>, Vec<(i64, i64)>> = Default::default();

    // one private trigger per reader: every run tracks it, `(4 reader)` notifies it
    let pokes: Vec<ArcTrigger> = readers.iter().map(|_| ArcTrigger::new()).collect();
    // subscriber kinds: 0 Effect::new, 1 ImmediateEffect::new, 2 RenderEffect::new,
    // 3 Memo::new read by an Effect, 4 Effect::new_isomorphic
    let mut keep_immediate = vec![];
    let mut keep_render = vec![];
    let mut task_reader: Vec<i64> = vec![];
    for (rid, chain) in readers.iter().enumerate() {
        let chain = chain.clone();
        let log = log.clone();
        let poke = pokes[rid].clone();
        let how = nth(6, rid);
        let mode = nth(8, rid);
        let store = store.clone();
        let cache: Arc<Mutex<Option<BNode>>> = Arc::new(Mutex::new(None));
        let case_owner = owner.clone();
        let body = move || {
            poke.track();
            let v = reader_body(&store, &chain, how, mode, &cache, &case_owner);
            log.lock().unwrap().push(Lst(vec![Num(rid as i64), v.clone()]));
            v
        };
        match nth(7, rid) {
            1 => keep_immediate.push(ImmediateEffect::new(move || {
                body();
            })),
            2 => keep_render.push(RenderEffect::new(move |_: Option<()>| {
                body();
            })),
            3 => {
                let memo = Memo::new(move |_: Option<&Sexp>| body());
                Effect::new(move |_: Option<()>| {
                    memo.with(|_| ());
                });
            }
            4 => {
                Effect::new_isomorphic(move |_: Option<()>| {
                    body();
                });
            }
            _ => {
                Effect::new(move |_: Option<()>| {
                    body();
                });
            }
        }
        while task_reader.len() < n_tasks() {
            task_reader.push(rid as i64);
        }
    }
    drain(&sched, &mut spos);
    out.push(phase(&log, &task_reader));

    for st in c.at(3).list() {
        let op = st.at(0).num();
        if op == 4 {
            let mut done = 0;
            let rid = st.at(1).num();
            if rid >= 0 {
                if let Some(p) = pokes.get(rid as usize) {
                    p.notify();
                    done = 1;
                }
            }
            drain(&sched, &mut spos);
            let mut ph = phase(&log, &task_reader);
            if let Lst(v) = &mut ph {
                v.push(Num(done));
            }
            out.push(ph);
            continue;
        }
        let chain = steps_of(st.at(1));
        let (n, j) = walk(&roots, &chain);
        let how = opt_num(st, 3);
        let mut done = 0;
        if j == chain.len() {
            match op {
                0 => done = n.set(st.at(2), how) as i64,
                1 => {
                    n.patch(st.at(2));
                    done = 1
                }
                5 => done = n.set_untracked(st.at(2), how) as i64,
                6 => done = n.update_keys() as i64,
                2 => {
                    // report the path segments of the addressed field
                    drain(&sched, &mut spos);
                    let mut ph = phase(&log, &task_reader);
                    if let Lst(v) = &mut ph {
                        v.push(Sexp::from_nums(n.path()));
                    }
                    out.push(ph);
                    continue;
                }
                3 => {
                    // keyed collection: which live keys share a segment (pattern), and do the
                    // keys listed in the step still have the segment of the previous report
                    if let Some(ks) = n.key_segs() {
                        let pattern = ks
                            .iter()
                            .map(|(_, s)| ks.iter().position(|(_, t)| t == s).unwrap() as i64)
                            .collect::<Vec<_>>();
                        let prev = last.get(&chain);
                        let same = st
                            .at(2)
                            .nums()
                            .into_iter()
                            .map(|k| {
                                let now = ks.iter().find(|(k2, _)| *k2 == k).map(|x| x.1);
                                let before =
                                    prev.and_then(|p| p.iter().find(|(k2, _)| *k2 == k).map(|x| x.1));
                                match (now, before) {
                                    (Some(a), Some(b)) => (a == b) as i64,
                                    _ => 2,
                                }
                            })
                            .collect::<Vec<_>>();
                        last.insert(chain.clone(), ks);
                        drain(&sched, &mut spos);
                        let mut ph = phase(&log, &task_reader);
                        if let Lst(v) = &mut ph {
                            v.push(Lst(vec![Sexp::from_nums(pattern), Sexp::from_nums(same)]));
                        }
                        out.push(ph);
                        continue;
                    }
                }
                _ => {}
            }
        }
        drain(&sched, &mut spos);
        let mut ph = phase(&log, &task_reader);
        if let Lst(v) = &mut ph {
            v.push(Num(done));
        }
        out.push(ph);
    }
    // final value of the store (so that a divergence of the data itself is visible)
    out.push(roots.store.read_untracked().enc());
    drop(keep_immediate);
    drop(keep_render);
    owner.cleanup();
    owner.unset();
    exec_reset();
    Lst(out)
}

fn main() {
    let which = std::env::args().nth(1).unwrap_or_default();
    Executor::init_local_custom_executor(HarnessExecutor).expect("executor");
    match which.as_str() {
        "c16" => vsexp::drive(c16),
        other => {
            eprintln!("unknown sub-command {other:?}");
            std::process::exit(2)
        }
    }
}
