//! Harness for the reactive_stores property C16.  `h_stores c16` reads one case per line on
//! stdin and prints one observation per line (see gen/c16.py for the case language).
//!
//! A case builds a `Store<Root>` (fixed `#[derive(Store, Patch)]` shapes below), creates one
//! `Effect` per reader path on a harness-owned, deterministic executor, then replays a history
//! of writes / patches / pokes and records, per step, the order in which effect tasks were woken and
//! the ordered log of (reader, value it saw).
use any_spawner::{CustomExecutor, Executor, PinnedFuture, PinnedLocalFuture};
use reactive_graph::{
    computed::Memo,
    effect::{Effect, ImmediateEffect, RenderEffect},
    owner::Owner,
    signal::ArcTrigger,
    traits::{Get, Notify, Read, ReadUntracked, Track, With, Write},
};
use reactive_stores::{
    ArcField, ArcStore, AtKeyed, DerefField, Field, KeyedSubfield, OptionStoreExt, Patch, PatchField, Store, StoreField,
    StoreFieldIterator,
};
use std::{
    cell::RefCell,
    collections::VecDeque,
    marker::PhantomData,
    ops::Deref,
    sync::{Arc, Mutex},
    task::{Context, Wake, Waker},
};
use vsexp::{Lst, Num, Sexp};

// ------------------------------------------------------------------------------------------
// deterministic executor: every spawned future is a task with an index (spawn order); a wake
// appends the task to the run queue unless it is already queued; `drain` runs the queue in
// FIFO order, or in the order dictated by a list of choices (the schedule of the case).
// ------------------------------------------------------------------------------------------
#[derive(Default)]
struct Shared {
    queue: VecDeque<usize>,
    queued: Vec<bool>,
    wake_log: Vec<usize>,
}

struct TaskWaker {
    id: usize,
    epoch: usize,
    shared: Arc<Mutex<(usize, Shared)>>,
}

impl Wake for TaskWaker {
    fn wake(self: Arc<Self>) {
        self.wake_by_ref()
    }
    fn wake_by_ref(self: &Arc<Self>) {
        let mut g = self.shared.lock().unwrap();
        if g.0 != self.epoch {
            return; // a waker of a previous case
        }
        let sh = &mut g.1;
        if !sh.queued[self.id] {
            sh.queued[self.id] = true;
            sh.queue.push_back(self.id);
            sh.wake_log.push(self.id);
        }
    }
}

#[derive(Default)]
struct ExecState {
    tasks: Vec<Option<PinnedLocalFuture<()>>>,
}

thread_local! {
    static EXEC: RefCell<ExecState> = RefCell::new(ExecState::default());
}
static SHARED: std::sync::OnceLock<Arc<Mutex<(usize, Shared)>>> = std::sync::OnceLock::new();

fn shared() -> Arc<Mutex<(usize, Shared)>> {
    SHARED
        .get_or_init(|| Arc::new(Mutex::new((0, Shared::default()))))
        .clone()
}

struct HarnessExecutor;

impl CustomExecutor for HarnessExecutor {
    fn spawn(&self, fut: PinnedFuture<()>) {
        self.spawn_local(fut)
    }
    fn spawn_local(&self, fut: PinnedLocalFuture<()>) {
        let id = EXEC.with(|e| {
            let mut e = e.borrow_mut();
            e.tasks.push(Some(fut));
            e.tasks.len() - 1
        });
        let sh = shared();
        let mut g = sh.lock().unwrap();
        g.1.queued.push(true);
        g.1.queue.push_back(id);
    }
    fn poll_local(&self) {}
}

/// start a new case: forget every task and every pending wake-up
fn exec_reset() {
    let old = EXEC.with(|e| std::mem::take(&mut e.borrow_mut().tasks));
    {
        let sh = shared();
        let mut g = sh.lock().unwrap();
        g.0 += 1;
        g.1 = Shared::default();
    }
    drop(old);
}

fn take_wake_log() -> Vec<usize> {
    let sh = shared();
    let mut g = sh.lock().unwrap();
    std::mem::take(&mut g.1.wake_log)
}

/// run until no task is queued; `sched` picks which queued task runs next (empty = FIFO)
fn drain(sched: &[i64], pos: &mut usize) {
    loop {
        let next = {
            let sh = shared();
            let mut g = sh.lock().unwrap();
            let q = &mut g.1.queue;
            if q.is_empty() {
                None
            } else {
                let k = if sched.is_empty() {
                    0
                } else {
                    let c = sched[*pos % sched.len()].unsigned_abs() as usize;
                    *pos += 1;
                    c % q.len()
                };
                let id = q.remove(k).unwrap();
                g.1.queued[id] = false;
                Some((id, g.0))
            }
        };
        let Some((id, epoch)) = next else { break };
        let fut = EXEC.with(|e| e.borrow_mut().tasks[id].take());
        if let Some(mut fut) = fut {
            let waker = Waker::from(Arc::new(TaskWaker {
                id,
                epoch,
                shared: shared(),
            }));
            let mut cx = Context::from_waker(&waker);
            if fut.as_mut().poll(&mut cx).is_pending() {
                EXEC.with(|e| e.borrow_mut().tasks[id] = Some(fut));
            }
        }
    }
}

// ------------------------------------------------------------------------------------------
// store shapes
// ------------------------------------------------------------------------------------------
#[derive(Debug, Clone, Default, PartialEq, Store, Patch)]
pub struct Leaf {
    p: i64,
    q: i64,
}

#[derive(Debug, Clone, Default, PartialEq, Store, Patch)]
pub struct Item {
    id: i64,
    n: i64,
    l: Leaf,
}

#[derive(Debug, Clone, Default, PartialEq, Store, Patch)]
pub struct Sub {
    x: i64,
    l: Leaf,
    v: Vec<i64>,
    b: Box<Leaf>,
}

/// a boxed value is patched as a whole (reactive_stores has no PatchField for Box)
impl PatchField for Box<Leaf> {
    fn patch_field(
        &mut self,
        new: Self,
        path: &reactive_stores::StorePath,
        notify: &mut dyn FnMut(&reactive_stores::StorePath),
    ) {
        if new != *self {
            *self = new;
            notify(path);
        }
    }
}

#[derive(Debug, Clone, Default, PartialEq, Store, Patch)]
pub struct Mid {
    x: i64,
    l: Leaf,
    o: Option<Leaf>,
    #[store(key: i64 = |it| it.id)]
    k: Vec<Item>,
}

#[derive(Debug, Clone, Default, PartialEq, Store, Patch)]
pub struct Root {
    a: i64,
    m: Mid,
    o: Option<Sub>,
    v: Vec<Sub>,
    #[store(key: i64 = |it| it.id)]
    k: Vec<Item>,
}

/// everything the harness needs from a store field, whatever its concrete accessor type
pub trait FldBase<T: 'static>:
    StoreField<Value = T>
    + Track
    + ReadUntracked<Value: Deref<Target = T>>
    + Write<Value = T>
    + Clone
    + Send
    + Sync
    + 'static
{
}
impl<T: 'static, S> FldBase<T> for S where
    S: StoreField<Value = T>
        + Track
        + ReadUntracked<Value: Deref<Target = T>>
        + Write<Value = T>
        + Clone
        + Send
        + Sync
        + 'static
{
}
/// ... and it can be handed on as a type-erased `ArcField` (not so a `KeyedSubfield`)
pub trait Fld<T: 'static>: FldBase<T> + Into<ArcField<T>> {}
impl<T: 'static, S> Fld<T> for S where S: FldBase<T> + Into<ArcField<T>> {}

type Step = (i64, i64);

/// plain values: (de)serialisation and the typed children of a field holding such a value
pub trait Val: Sized + Clone + PatchField + Send + Sync + 'static {
    fn enc(&self) -> Sexp;
    fn dec(s: &Sexp) -> Self;
    fn has_child(&self, _st: Step) -> bool {
        false
    }
    fn child<S: FldBase<Self>>(_s: &S, _st: Step) -> Option<Box<dyn Node>> {
        None
    }
    fn key(&self) -> Option<i64> {
        None
    }
    /// for collections: iterate over the field with the store's own iterator, reading every item
    fn iter_read<S: FldBase<Self>>(_s: &S) -> Option<Sexp> {
        None
    }
    /// for options: look at the field through OptionStoreExt::map (how = 6) / invert (how = 7);
    /// the closure reads the inner value WITHOUT tracking it
    fn opt_read<S: FldBase<Self>>(_s: &S, _how: i64) -> Option<Sexp> {
        None
    }
}

fn node<T: Val, S: Fld<T>>(s: S) -> Option<Box<dyn Node>> {
    Some(Box::new(N::<S, T>(s, PhantomData, Some(|s: &S| s.clone().into()))))
}

/// an arena-allocated `Field<T>`: a handle that cannot be converted any further
fn node_field<T: Val>(f: Field<T>) -> Option<Box<dyn Node>> {
    Some(Box::new(N::<Field<T>, T>(f, PhantomData, None)))
}

impl Val for i64 {
    fn enc(&self) -> Sexp {
        Num(*self)
    }
    fn dec(s: &Sexp) -> Self {
        s.num()
    }
}

impl Val for Leaf {
    fn enc(&self) -> Sexp {
        Lst(vec![self.p.enc(), self.q.enc()])
    }
    fn dec(s: &Sexp) -> Self {
        Leaf { p: i64::dec(s.at(0)), q: i64::dec(s.at(1)) }
    }
    fn has_child(&self, st: Step) -> bool {
        st.0 == 0 && (0..2).contains(&st.1)
    }
    fn child<S: FldBase<Self>>(s: &S, st: Step) -> Option<Box<dyn Node>> {
        match st {
            (0, 0) => node(s.clone().p()),
            (0, 1) => node(s.clone().q()),
            _ => None,
        }
    }
}

impl Val for Item {
    fn enc(&self) -> Sexp {
        Lst(vec![self.id.enc(), self.n.enc(), self.l.enc()])
    }
    fn dec(s: &Sexp) -> Self {
        Item { id: i64::dec(s.at(0)), n: i64::dec(s.at(1)), l: Leaf::dec(s.at(2)) }
    }
    fn has_child(&self, st: Step) -> bool {
        st.0 == 0 && (0..3).contains(&st.1)
    }
    fn child<S: FldBase<Self>>(s: &S, st: Step) -> Option<Box<dyn Node>> {
        match st {
            (0, 0) => node(s.clone().id()),
            (0, 1) => node(s.clone().n()),
            (0, 2) => node(s.clone().l()),
            _ => None,
        }
    }
    fn key(&self) -> Option<i64> {
        Some(self.id)
    }
}

impl Val for Sub {
    fn enc(&self) -> Sexp {
        Lst(vec![self.x.enc(), self.l.enc(), self.v.enc(), self.b.enc()])
    }
    fn dec(s: &Sexp) -> Self {
        Sub {
            x: i64::dec(s.at(0)),
            l: Leaf::dec(s.at(1)),
            v: Vec::<i64>::dec(s.at(2)),
            b: Box::<Leaf>::dec(s.at(3)),
        }
    }
    fn has_child(&self, st: Step) -> bool {
        st.0 == 0 && (0..4).contains(&st.1)
    }
    fn child<S: FldBase<Self>>(s: &S, st: Step) -> Option<Box<dyn Node>> {
        match st {
            (0, 0) => node(s.clone().x()),
            (0, 1) => node(s.clone().l()),
            (0, 2) => node(s.clone().v()),
            (0, 3) => node(s.clone().b()),
            _ => None,
        }
    }
}

/// `Box<Leaf>`: step (5 0) = `.deref_field()` (DerefField), same path, the boxed value
impl Val for Box<Leaf> {
    fn enc(&self) -> Sexp {
        self.deref().enc()
    }
    fn dec(s: &Sexp) -> Self {
        Box::new(Leaf::dec(s))
    }
    fn has_child(&self, st: Step) -> bool {
        st.0 == 5
    }
    fn child<S: FldBase<Self>>(s: &S, st: Step) -> Option<Box<dyn Node>> {
        match st {
            (5, _) => node::<Leaf, _>(s.clone().deref_field()),
            _ => None,
        }
    }
}

impl Val for Mid {
    fn enc(&self) -> Sexp {
        Lst(vec![self.x.enc(), self.l.enc(), self.o.enc(), self.k.enc()])
    }
    fn dec(s: &Sexp) -> Self {
        Mid {
            x: i64::dec(s.at(0)),
            l: Leaf::dec(s.at(1)),
            o: Option::<Leaf>::dec(s.at(2)),
            k: Vec::<Item>::dec(s.at(3)),
        }
    }
    fn has_child(&self, st: Step) -> bool {
        st.0 == 0 && (0..4).contains(&st.1)
    }
    fn child<S: FldBase<Self>>(s: &S, st: Step) -> Option<Box<dyn Node>> {
        match st {
            (0, 0) => node(s.clone().x()),
            (0, 1) => node(s.clone().l()),
            (0, 2) => node(s.clone().o()),
            (0, 3) => Some(Box::new(NKeyed(s.clone().k()))),
            _ => None,
        }
    }
}

impl Val for Root {
    fn enc(&self) -> Sexp {
        Lst(vec![self.a.enc(), self.m.enc(), self.o.enc(), self.v.enc(), self.k.enc()])
    }
    fn dec(s: &Sexp) -> Self {
        Root {
            a: i64::dec(s.at(0)),
            m: Mid::dec(s.at(1)),
            o: Option::<Sub>::dec(s.at(2)),
            v: Vec::<Sub>::dec(s.at(3)),
            k: Vec::<Item>::dec(s.at(4)),
        }
    }
    fn has_child(&self, st: Step) -> bool {
        st.0 == 0 && (0..5).contains(&st.1)
    }
    fn child<S: FldBase<Self>>(s: &S, st: Step) -> Option<Box<dyn Node>> {
        match st {
            (0, 0) => node(s.clone().a()),
            (0, 1) => node(s.clone().m()),
            (0, 2) => node(s.clone().o()),
            (0, 3) => node(s.clone().v()),
            (0, 4) => Some(Box::new(NKeyed(s.clone().k()))),
            _ => None,
        }
    }
}

impl<T: Val> Val for Option<T> {
    fn enc(&self) -> Sexp {
        match self {
            None => Lst(vec![]),
            Some(x) => Lst(vec![x.enc()]),
        }
    }
    fn dec(s: &Sexp) -> Self {
        s.list().first().map(T::dec)
    }
    fn has_child(&self, st: Step) -> bool {
        st.0 == 1 && self.is_some()
    }
    fn child<S: FldBase<Self>>(s: &S, st: Step) -> Option<Box<dyn Node>> {
        match st {
            (1, _) => node(s.clone().unwrap()),
            _ => None,
        }
    }
    fn opt_read<S: FldBase<Self>>(s: &S, how: i64) -> Option<Sexp> {
        let inner: Option<Option<Sexp>> = if how == 6 {
            s.clone().map(|f| f.try_read_untracked().map(|g| g.deref().enc()))
        } else {
            s.clone().invert().map(|f| f.try_read_untracked().map(|g| g.deref().enc()))
        };
        Some(match inner {
            None => Lst(vec![]),
            Some(Some(v)) => Lst(vec![v]),
            Some(None) => Lst(vec![Num(-1)]),
        })
    }
}

impl<T: Val> Val for Vec<T> {
    fn enc(&self) -> Sexp {
        Lst(self.iter().map(|x| x.enc()).collect())
    }
    fn dec(s: &Sexp) -> Self {
        s.list().iter().map(T::dec).collect()
    }
    fn has_child(&self, st: Step) -> bool {
        match st {
            (2, i) => i >= 0 && (i as usize) < self.len(),
            (3, k) => self.iter().any(|x| x.key() == Some(k)),
            _ => false,
        }
    }
    fn child<S: FldBase<Self>>(s: &S, st: Step) -> Option<Box<dyn Node>> {
        match st {
            (2, i) if i >= 0 => node(s.clone().at_unkeyed(i as usize)),
            _ => None,
        }
    }
    fn iter_read<S: FldBase<Self>>(s: &S) -> Option<Sexp> {
        Some(Lst(s
            .clone()
            .iter_unkeyed()
            .map(|item| match item.try_read() {
                Some(g) => g.deref().enc(),
                None => Lst(vec![Num(-1)]),
            })
            .collect()))
    }
}

/// a type-erased store field
pub trait Node {
    /// tracked read, serialised; `(-1)` if the field yields no guard.  how: 0 Read::try_read,
    /// 2 Get::try_get, 3 With::try_with, 4 Track::track + try_read_untracked,
    /// 5 StoreField::track_field + reader, 1 iterate, 6 / 7 OptionStoreExt::map / invert
    fn read(&self, how: i64) -> Sexp;
    /// untracked look at the current value: is the child addressed by `st` there?
    fn has_child(&self, st: Step) -> bool;
    fn child(&self, st: Step) -> Option<Box<dyn Node>>;
    /// `*field.write() = value`
    fn set(&self, v: &Sexp) -> bool;
    /// `field.patch(value)`
    fn patch(&self, v: &Sexp);
    fn path(&self) -> Vec<i64>;
    /// for a keyed collection: (key, last path segment of its item) in collection order
    fn key_segs(&self) -> Option<Vec<(i64, i64)>> {
        None
    }
    /// iterate (tracked) over a collection field, reading every item
    fn iter_read(&self) -> Option<Sexp> {
        None
    }
}

/// a field, its value type, and how to hand it on as a type-erased `ArcField` (if possible)
struct N<S, T: 'static>(S, PhantomData<T>, Option<fn(&S) -> ArcField<T>>);

impl<T: Val, S: FldBase<T>> N<S, T> {
    fn opt_read(&self, how: i64) -> Option<Sexp> {
        T::opt_read(&self.0, how)
    }
}

impl<T: Val, S: FldBase<T>> Node for N<S, T> {
    fn read(&self, how: i64) -> Sexp {
        let none = || Lst(vec![Num(-1)]);
        match how {
            1 => {
                if let Some(v) = self.iter_read() {
                    return v;
                }
            }
            6 | 7 => {
                if let Some(v) = self.opt_read(how) {
                    return v;
                }
            }
            2 => return self.0.try_get().map(|v| v.enc()).unwrap_or_else(none),
            3 => return self.0.try_with(|v| v.enc()).unwrap_or_else(none),
            4 => {
                self.0.track();
                return self.0.try_read_untracked().map(|g| g.deref().enc()).unwrap_or_else(none);
            }
            5 => {
                self.0.track_field();
                return self.0.reader().map(|g| g.deref().enc()).unwrap_or_else(none);
            }
            _ => {}
        }
        match self.0.try_read() {
            Some(g) => g.deref().enc(),
            None => none(),
        }
    }
    fn has_child(&self, st: Step) -> bool {
        // step kind 4: hand the field on type-erased, as an ArcField (4 0) or a Field (4 1)
        self.0
            .try_read_untracked()
            .map(|g| if st.0 == 4 { self.2.is_some() } else { g.deref().has_child(st) })
            .unwrap_or(false)
    }
    fn child(&self, st: Step) -> Option<Box<dyn Node>> {
        if st.0 == 4 {
            let erased: ArcField<T> = (self.2?)(&self.0);
            return if st.1 == 0 { node::<T, _>(erased) } else { node_field::<T>(Field::from(erased)) };
        }
        T::child(&self.0, st)
    }
    fn set(&self, v: &Sexp) -> bool {
        match self.0.try_write() {
            Some(mut g) => {
                *g = T::dec(v);
                true
            }
            None => false,
        }
    }
    fn patch(&self, v: &Sexp) {
        self.0.patch(T::dec(v));
    }
    fn path(&self) -> Vec<i64> {
        self.0.path().into_iter().map(seg).collect()
    }
    fn iter_read(&self) -> Option<Sexp> {
        T::iter_read(&self.0)
    }
}

fn seg(s: reactive_stores::StorePathSegment) -> i64 {
    // StorePathSegment's field is crate-private; its Debug form is `StorePathSegment(n)`
    let d = format!("{s:?}");
    d.trim_start_matches("StorePathSegment(").trim_end_matches(')').parse().unwrap_or(-1)
}

/// a keyed collection field (`#[store(key: i64 = |it| it.id)] Vec<Item>`)
struct NKeyed<Inner, Prev>(KeyedSubfield<Inner, Prev, i64, Vec<Item>>)
where
    KeyedSubfield<Inner, Prev, i64, Vec<Item>>: FldBase<Vec<Item>>;

impl<Inner, Prev> Node for NKeyed<Inner, Prev>
where
    Inner: StoreField<Value = Prev> + Track + Clone + Send + Sync + 'static,
    Prev: 'static,
    KeyedSubfield<Inner, Prev, i64, Vec<Item>>: FldBase<Vec<Item>>,
{
    fn read(&self, how: i64) -> Sexp {
        let none = || Lst(vec![Num(-1)]);
        match how {
            1 => {
                if let Some(v) = self.iter_read() {
                    return v;
                }
            }
            2 => return self.0.try_get().map(|v| v.enc()).unwrap_or_else(none),
            3 => return self.0.try_with(|v| v.enc()).unwrap_or_else(none),
            4 => {
                self.0.track();
                return self.0.try_read_untracked().map(|g| g.deref().enc()).unwrap_or_else(none);
            }
            5 => {
                self.0.track_field();
                return self.0.reader().map(|g| g.deref().enc()).unwrap_or_else(none);
            }
            _ => {}
        }
        match self.0.try_read() {
            Some(g) => g.deref().enc(),
            None => none(),
        }
    }
    fn has_child(&self, st: Step) -> bool {
        self.0.try_read_untracked().map(|g| g.deref().has_child(st)).unwrap_or(false)
    }
    fn child(&self, st: Step) -> Option<Box<dyn Node>> {
        match st {
            (3, k) => node::<Item, _>(AtKeyed::new(self.0.clone(), k)),
            (2, i) if i >= 0 => node::<Item, _>(self.0.clone().at_unkeyed(i as usize)),
            _ => None,
        }
    }
    fn set(&self, v: &Sexp) -> bool {
        match self.0.try_write() {
            Some(mut g) => {
                *g = Vec::<Item>::dec(v);
                true
            }
            None => false,
        }
    }
    fn patch(&self, v: &Sexp) {
        self.0.patch(Vec::<Item>::dec(v));
    }
    fn path(&self) -> Vec<i64> {
        StoreField::path(&self.0).into_iter().map(seg).collect()
    }
    fn iter_read(&self) -> Option<Sexp> {
        Some(Lst(self
            .0
            .clone()
            .into_iter()
            .map(|item| match item.try_read() {
                Some(g) => g.deref().enc(),
                None => Lst(vec![Num(-1)]),
            })
            .collect()))
    }
    fn key_segs(&self) -> Option<Vec<(i64, i64)>> {
        let own = self.path().len();
        let ids: Vec<i64> = self.0.try_read_untracked()?.deref().iter().map(|it| it.id).collect();
        Some(
            ids.into_iter()
                .map(|k| {
                    let p: Vec<i64> = AtKeyed::new(self.0.clone(), k).path().into_iter().map(seg).collect();
                    (k, if p.len() > own { p[own] } else { -1 })
                })
                .collect(),
        )
    }
}

// ------------------------------------------------------------------------------------------
// the case interpreter
// ------------------------------------------------------------------------------------------
fn steps_of(s: &Sexp) -> Vec<Step> {
    s.list().iter().map(|st| (st.at(0).num(), st.at(1).num())).collect()
}

/// the two handles of the store of a case
#[derive(Clone)]
struct Roots {
    store: Store<Root>,
    arc: ArcStore<Root>,
}

/// follow `chain` from the root as far as the current value allows (untracked look-ahead);
/// returns the node reached and how many steps were taken.  A first step (4 2) starts from
/// the `ArcStore` handle instead of the arena-allocated `Store`.
fn walk(roots: &Roots, chain: &[Step]) -> (Box<dyn Node>, usize) {
    let (mut cur, start): (Box<dyn Node>, usize) = if chain.first() == Some(&(4, 2)) {
        (node::<Root, _>(roots.arc.clone()).unwrap(), 1)
    } else {
        (node::<Root, _>(roots.store).unwrap(), 0)
    };
    for (j, st) in chain.iter().enumerate().skip(start) {
        if *st == (4, 2) || !cur.has_child(*st) {
            return (cur, j);
        }
        match cur.child(*st) {
            Some(n) => cur = n,
            None => return (cur, j),
        }
    }
    (cur, chain.len())
}

/// What a reader does: read (tracked) the field its chain addresses.  If the chain is
/// currently cut short by a `None` / a missing index / a missing key it reads nothing from
/// the store (it is re-run only by its own `poke` trigger, see step 4).
/// Observation: (steps taken, value read) or (steps taken).
fn reader_body(roots: &Roots, chain: &[Step], how: i64) -> Sexp {
    let (n, j) = walk(roots, chain);
    if j == chain.len() {
        Lst(vec![Num(j as i64), n.read(how)])
    } else {
        Lst(vec![Num(j as i64)])
    }
}

type Log = Arc<Mutex<Vec<Sexp>>>;

/// wake-ups are recorded per executor task; translate them to reader numbers
fn phase(log: &Log, task_reader: &[i64]) -> Sexp {
    // order of the FIRST wake-up of every reader's task in this phase (the effect behind a
    // Memo is woken a second time, while it runs, when the memo's value has changed)
    let mut wakes: Vec<i64> = vec![];
    for x in take_wake_log() {
        let r = task_reader.get(x).copied().unwrap_or(-1);
        if !wakes.contains(&r) {
            wakes.push(r);
        }
    }
    let runs = std::mem::take(&mut *log.lock().unwrap());
    Lst(vec![Sexp::from_nums(wakes), Lst(runs)])
}

fn n_tasks() -> usize {
    EXEC.with(|e| e.borrow().tasks.len())
}

/// (0 init readers steps sched key-orders read-kinds subscriber-kinds)
fn c16(c: &Sexp) -> Sexp {
    exec_reset();
    let init = Root::dec(c.at(1));
    let readers: Vec<Vec<Step>> = c.at(2).list().iter().map(steps_of).collect();
    let sched = c.at(4).nums();
    let mut spos = 0usize;

    let owner = Owner::new();
    owner.set();
    let arc = ArcStore::new(init);
    let roots = Roots { store: Store::from(arc.clone()), arc };
    let store = roots.clone();
    let log: Log = Arc::new(Mutex::new(vec![]));
    let mut out = vec![];
    let mut last: std::collections::HashMap<Vec<Step>, Vec<(i64, i64)>> = Default::default();

    // one private trigger per reader: every run tracks it, `(4 reader)` notifies it
    let pokes: Vec<ArcTrigger> = readers.iter().map(|_| ArcTrigger::new()).collect();
    // subscriber kinds: 0 Effect::new, 1 ImmediateEffect::new, 2 RenderEffect::new,
    // 3 Memo::new read by an Effect, 4 Effect::new_isomorphic
    let mut keep_immediate = vec![];
    let mut keep_render = vec![];
    let mut task_reader: Vec<i64> = vec![];
    for (rid, chain) in readers.iter().enumerate() {
        let chain = chain.clone();
        let log = log.clone();
        let poke = pokes[rid].clone();
        let how = c.at(6).at(rid).num();
        let store = store.clone();
        let body = move || {
            poke.track();
            let v = reader_body(&store, &chain, how);
            log.lock().unwrap().push(Lst(vec![Num(rid as i64), v.clone()]));
            v
        };
        match c.at(7).at(rid).num() {
            1 => keep_immediate.push(ImmediateEffect::new(move || {
                body();
            })),
            2 => keep_render.push(RenderEffect::new(move |_: Option<()>| {
                body();
            })),
            3 => {
                let memo = Memo::new(move |_: Option<&Sexp>| body());
                Effect::new(move |_: Option<()>| {
                    memo.with(|_| ());
                });
            }
            4 => {
                Effect::new_isomorphic(move |_: Option<()>| {
                    body();
                });
            }
            _ => {
                Effect::new(move |_: Option<()>| {
                    body();
                });
            }
        }
        while task_reader.len() < n_tasks() {
            task_reader.push(rid as i64);
        }
    }
    drain(&sched, &mut spos);
    out.push(phase(&log, &task_reader));

    for st in c.at(3).list() {
        let op = st.at(0).num();
        if op == 4 {
            let mut done = 0;
            let rid = st.at(1).num();
            if rid >= 0 {
                if let Some(p) = pokes.get(rid as usize) {
                    p.notify();
                    done = 1;
                }
            }
            drain(&sched, &mut spos);
            let mut ph = phase(&log, &task_reader);
            if let Lst(v) = &mut ph {
                v.push(Num(done));
            }
            out.push(ph);
            continue;
        }
        let chain = steps_of(st.at(1));
        let (n, j) = walk(&roots, &chain);
        let mut done = 0;
        if j == chain.len() {
            match op {
                0 => done = n.set(st.at(2)) as i64,
                1 => {
                    n.patch(st.at(2));
                    done = 1
                }
                2 => {
                    // report the path segments of the addressed field
                    drain(&sched, &mut spos);
                    let mut ph = phase(&log, &task_reader);
                    if let Lst(v) = &mut ph {
                        v.push(Sexp::from_nums(n.path()));
                    }
                    out.push(ph);
                    continue;
                }
                3 => {
                    // keyed collection: which live keys share a segment (pattern), and do the
                    // keys listed in the step still have the segment of the previous report
                    if let Some(ks) = n.key_segs() {
                        let pattern = ks
                            .iter()
                            .map(|(_, s)| ks.iter().position(|(_, t)| t == s).unwrap() as i64)
                            .collect::<Vec<_>>();
                        let prev = last.get(&chain);
                        let same = st
                            .at(2)
                            .nums()
                            .into_iter()
                            .map(|k| {
                                let now = ks.iter().find(|(k2, _)| *k2 == k).map(|x| x.1);
                                let before =
                                    prev.and_then(|p| p.iter().find(|(k2, _)| *k2 == k).map(|x| x.1));
                                match (now, before) {
                                    (Some(a), Some(b)) => (a == b) as i64,
                                    _ => 2,
                                }
                            })
                            .collect::<Vec<_>>();
                        last.insert(chain.clone(), ks);
                        drain(&sched, &mut spos);
                        let mut ph = phase(&log, &task_reader);
                        if let Lst(v) = &mut ph {
                            v.push(Lst(vec![Sexp::from_nums(pattern), Sexp::from_nums(same)]));
                        }
                        out.push(ph);
                        continue;
                    }
                }
                _ => {}
            }
        }
        drain(&sched, &mut spos);
        let mut ph = phase(&log, &task_reader);
        if let Lst(v) = &mut ph {
            v.push(Num(done));
        }
        out.push(ph);
    }
    // final value of the store (so that a divergence of the data itself is visible)
    out.push(roots.store.read_untracked().enc());
    drop(keep_immediate);
    drop(keep_render);
    owner.cleanup();
    owner.unset();
    exec_reset();
    Lst(out)
}

fn main() {
    let which = std::env::args().nth(1).unwrap_or_default();
    Executor::init_local_custom_executor(HarnessExecutor).expect("executor");
    match which.as_str() {
        "c16" => vsexp::drive(c16),
        other => {
            eprintln!("unknown sub-command {other:?}");
            std::process::exit(2)
        }
    }
}
