//! (coverage audit) op 29: server functions behind middleware layers, dispatched the way the
//! real integrations do it (`ServerFnTraitObj::boxed`, `Layer::layer`, `BoxedService::run`);
//! op 30: the options of the `#[server]` macro (defaults, names, prefixes, endpoints, legacy
//! positional arguments, `protocol =`, `custom =`, `input_derive =`, argument attributes,
//! aliased return types, a custom encoding written after the documentation's example).
use crate::{
    errs::{err_to_sexp, text},
    fns::{AppErrCbor, AppErrJson, Inner},
    looprt::{LoopClient, LoopServer, SrvReq, SrvRes},
};
use bytes::Bytes;
use server_fn::{
    codec::{
        Cbor, Encoding, FromReq, FromRes, GetUrl, IntoReq, IntoRes, Json, PatchCbor, PutJson,
    },
    error::{FromServerFnError, IntoAppError, ServerFnError, ServerFnErrorErr},
    middleware::{BoxedService, Layer, Service},
    request::{ClientReq, Req},
    response::{ClientRes, Res, TryRes},
    ContentType, Http, ServerFn,
};
use server_fn_macro_default::server;
use std::{cell::RefCell, future::Future, pin::Pin};
use vsexp::{Lst, Num, Sexp};

fn block<T>(f: impl Future<Output = T>) -> T {
    futures::executor::block_on(f)
}

// ---------------------------------------------------------------- op 29: middleware
thread_local! {
    /// what the layers saw, in order
    pub static MW_LOG: RefCell<Vec<String>> = RefCell::new(vec![]);
}
/// records entry and exit
pub struct Tag(pub &'static str);
struct TagService {
    name: &'static str,
    inner: BoxedService<SrvReq, SrvRes>,
}
impl Layer<SrvReq, SrvRes> for Tag {
    fn layer(&self, inner: BoxedService<SrvReq, SrvRes>) -> BoxedService<SrvReq, SrvRes> {
        BoxedService::new(inner.ser, TagService { name: self.0, inner })
    }
}
impl Service<SrvReq, SrvRes> for TagService {
    fn run(
        &mut self,
        req: SrvReq,
        _ser: fn(ServerFnErrorErr) -> Bytes,
    ) -> Pin<Box<dyn Future<Output = SrvRes> + Send>> {
        let name = self.name;
        MW_LOG.with(|l| l.borrow_mut().push(format!("+{name}")));
        let fut = self.inner.run(req);
        Box::pin(async move {
            let res = fut.await;
            MW_LOG.with(|l| l.borrow_mut().push(format!("-{name}")));
            res
        })
    }
}
/// refuses requests whose payload (body or query) contains "deny": the error the function's
/// `ser` makes of `MiddlewareError(msg)` goes out as the error response
pub struct Gate;
struct GateService {
    inner: BoxedService<SrvReq, SrvRes>,
}
impl Layer<SrvReq, SrvRes> for Gate {
    fn layer(&self, inner: BoxedService<SrvReq, SrvRes>) -> BoxedService<SrvReq, SrvRes> {
        BoxedService::new(inner.ser, GateService { inner })
    }
}
impl Service<SrvReq, SrvRes> for GateService {
    fn run(
        &mut self,
        req: SrvReq,
        ser: fn(ServerFnErrorErr) -> Bytes,
    ) -> Pin<Box<dyn Future<Output = SrvRes> + Send>> {
        let payload: Vec<u8> = if req.0.body().is_empty() {
            req.0.uri().query().unwrap_or_default().as_bytes().to_vec()
        } else {
            req.0.body().to_vec()
        };
        if let Some(at) = payload.windows(4).position(|w| w == b"deny") {
            let path = req.0.uri().path().to_string();
            let msg = format!("denied at byte {at} of {} | by the gate", payload.len());
            return Box::pin(async move {
                SrvRes::error_response(&path, ser(ServerFnErrorErr::MiddlewareError(msg)))
            });
        }
        self.inner.run(req)
    }
}

// (two or more `#[middleware]` attributes on one function do not compile: the macro emits
// `vec![Arc::new(a),, Arc::new(b),]`; so one layer per function, composed by hand)
pub struct Stack(pub Vec<std::sync::Arc<dyn Layer<SrvReq, SrvRes>>>);
impl Layer<SrvReq, SrvRes> for Stack {
    fn layer(&self, inner: BoxedService<SrvReq, SrvRes>) -> BoxedService<SrvReq, SrvRes> {
        self.0.iter().fold(inner, |svc, l| l.layer(svc))
    }
}
#[server(input = Json, output = Json, client = LoopClient, server = LoopServer)]
#[middleware(Stack(vec![std::sync::Arc::new(Tag("a")), std::sync::Arc::new(Gate), std::sync::Arc::new(Tag("b"))]))]
pub async fn mw_json(s: String, n: u32) -> Result<String, ServerFnError> {
    if s.starts_with('!') {
        return Err(ServerFnError::ServerError(s));
    }
    Ok(format!("{s}/{n}"))
}
#[server(input = GetUrl, output = Cbor, client = LoopClient, server = LoopServer)]
#[middleware(Gate)]
pub async fn mw_geturl(s: String, n: u32) -> Result<String, AppErrCbor> {
    if s.starts_with('!') {
        return Err(AppErrCbor::NotFound { id: n as u64, what: s });
    }
    Ok(format!("{s}/{n}"))
}

// ---------------------------------------------------------------- op 30: macro options
/// neither `input` nor `output`: PostUrl in, Json out
#[server(client = LoopClient, server = LoopServer)]
pub async fn m_default(s: String, n: u32) -> Result<(String, u32), ServerFnError> {
    Ok((s, n.wrapping_add(1)))
}
#[server(input = Cbor, client = LoopClient, server = LoopServer)]
pub async fn m_only_input(s: String, n: u32) -> Result<(String, u32), ServerFnError> {
    Ok((s, n.wrapping_add(1)))
}
#[server(output = Cbor, client = LoopClient, server = LoopServer)]
pub async fn m_only_output(s: String, n: u32) -> Result<(String, u32), ServerFnError> {
    Ok((s, n.wrapping_add(1)))
}
#[server(name = NamedArgs, prefix = "/rpc", endpoint = "named_ep", input = Json, client = LoopClient, server = LoopServer)]
pub async fn m_named(s: String, n: u32) -> Result<(String, u32), ServerFnError> {
    Ok((s, n.wrapping_add(1)))
}
#[server(endpoint = "//x/y", input = Json, client = LoopClient, server = LoopServer)]
pub async fn m_endpoint(s: String, n: u32) -> Result<(String, u32), ServerFnError> {
    Ok((s, n.wrapping_add(1)))
}
/// the legacy positional form: struct name, prefix, encoding, endpoint
#[server(LegacyCbor, "/leg", "Cbor", "cbor_ep", client = LoopClient, server = LoopServer)]
pub async fn m_legacy_cbor(s: String, n: u32) -> Result<(String, u32), ServerFnError> {
    Ok((s, n.wrapping_add(1)))
}
#[server(LegacyGetJson, "/leg", "GetJson", client = LoopClient, server = LoopServer)]
pub async fn m_legacy_getjson(s: String, n: u32) -> Result<(String, u32), ServerFnError> {
    Ok((s, n.wrapping_add(1)))
}
#[server(LegacyGetCbor, "/leg", "getcbor", "gc", client = LoopClient, server = LoopServer)]
pub async fn m_legacy_getcbor(s: String, n: u32) -> Result<(String, u32), ServerFnError> {
    Ok((s, n.wrapping_add(1)))
}
#[server(protocol = Http<PatchCbor, PutJson>, client = LoopClient, server = LoopServer)]
pub async fn m_protocol(s: String, n: u32) -> Result<(String, u32), ServerFnError> {
    Ok((s, n.wrapping_add(1)))
}
/// `custom = Wrap`: the server function is implemented for `Wrap<MCustom>`
#[derive(Debug, Clone, serde::Serialize, serde::Deserialize)]
#[serde(transparent)]
pub struct Wrap<T>(pub T);
#[server(custom = Wrap, input = Json, client = LoopClient, server = LoopServer)]
pub async fn m_custom(s: String, n: u32) -> Result<(String, u32), ServerFnError> {
    Ok((s, n.wrapping_add(1)))
}
/// one argument: `From` / `Deref` are generated ...
#[server(input = Json, client = LoopClient, server = LoopServer)]
pub async fn m_single(s: String) -> Result<(String, u32), ServerFnError> {
    let n = s.len() as u32;
    Ok((s, n))
}
/// ... unless switched off
#[server(input = Json, impl_from = false, impl_deref = false, client = LoopClient, server = LoopServer)]
pub async fn m_single_off(s: String) -> Result<(String, u32), ServerFnError> {
    let n = s.len() as u32;
    Ok((s, n))
}
impl From<String> for MSingleOff {
    // (would conflict with the generated impl if `impl_from = false` were ignored)
    fn from(s: String) -> Self {
        MSingleOff { s }
    }
}
#[server(input = Json, input_derive = (Clone, PartialEq, serde::Serialize, serde::Deserialize), client = LoopClient, server = LoopServer)]
pub async fn m_derive(s: String, n: u32) -> Result<(String, u32), ServerFnError> {
    Ok((s, n.wrapping_add(1)))
}
/// argument attributes
#[derive(Debug, Clone, PartialEq, Default, serde::Serialize, serde::Deserialize)]
pub struct Extra {
    pub ex: u8,
    pub ey: String,
}
fn dflt() -> String {
    "dflt".to_string()
}
#[server(input = Json, output = Cbor, client = LoopClient, server = LoopServer)]
pub async fn m_attrs(
    #[server(default)] a: u32,
    #[server(rename = "bee")] b: String,
    #[server(flatten)] c: Extra,
    #[server(skip)] d: u8,
    #[server(default = "dflt")] e: String,
    /// a documented argument (a `mut` argument does not compile under `ssr`: the generated
    /// call of the body repeats the pattern, `__m_attrs(.., mut f)`)
    f: Vec<u8>,
) -> Result<(u32, String, Extra, u8, String, Vec<u8>), ServerFnError> {
    let mut f = f;
    f.reverse();
    Ok((a, b, c, d, e, f))
}
#[server(client = LoopClient, server = LoopServer)]
pub async fn m_attrs_url(
    #[server(default)] a: u32,
    #[server(rename = "bee")] b: String,
    #[server(default = "dflt")] e: String,
) -> Result<(u32, String, String), ServerFnError> {
    Ok((a, b, e))
}
/// an aliased return type: Ok/Err types come from `ServerFnMustReturnResult`
pub type AppRes<T> = Result<T, AppErrJson>;
#[server(input = Json, client = LoopClient, server = LoopServer)]
pub async fn m_alias(s: String, n: u32) -> AppRes<(String, u32)> {
    if s.starts_with('!') {
        return Err(AppErrJson::NotFound { id: n as u64, what: s });
    }
    Ok((s, n.wrapping_add(1)))
}

/// a custom encoding written the way the documentation of `codec` shows (string bodies:
/// `try_new_post`, `try_into_string`, `try_from_string`)
pub struct DocJson;
impl ContentType for DocJson {
    const CONTENT_TYPE: &'static str = "application/json";
}
impl Encoding for DocJson {
    const METHOD: http::Method = http::Method::POST;
}
type DocOut = (String, u32);
impl<E, Request> IntoReq<DocJson, Request, E> for MDocjson
where
    Request: ClientReq<E>,
    E: FromServerFnError,
{
    fn into_req(self, path: &str, accepts: &str) -> Result<Request, E> {
        let data = serde_json::to_string(&self)
            .map_err(|e| ServerFnErrorErr::Serialization(e.to_string()).into_app_error())?;
        Request::try_new_post(path, accepts, DocJson::CONTENT_TYPE, data)
    }
}
impl<E, Request> FromReq<DocJson, Request, E> for MDocjson
where
    Request: Req<E> + Send + 'static,
    E: FromServerFnError,
{
    async fn from_req(req: Request) -> Result<Self, E> {
        let string_data = req.try_into_string().await?;
        serde_json::from_str(&string_data)
            .map_err(|e| ServerFnErrorErr::Args(e.to_string()).into_app_error())
    }
}
impl<E, Response> IntoRes<DocJson, Response, E> for DocOut
where
    Response: TryRes<E>,
    E: FromServerFnError + Send,
{
    async fn into_res(self) -> Result<Response, E> {
        let data = serde_json::to_string(&self)
            .map_err(|e| ServerFnErrorErr::Serialization(e.to_string()).into_app_error())?;
        Response::try_from_string(DocJson::CONTENT_TYPE, data)
    }
}
impl<E, Response> FromRes<DocJson, Response, E> for DocOut
where
    Response: ClientRes<E> + Send,
    E: FromServerFnError,
{
    async fn from_res(res: Response) -> Result<Self, E> {
        let data = res.try_into_string().await?;
        serde_json::from_str(&data)
            .map_err(|e| ServerFnErrorErr::Deserialization(e.to_string()).into_app_error())
    }
}
#[server(input = DocJson, output = DocJson, client = LoopClient, server = LoopServer)]
pub async fn m_docjson(s: String, n: u32) -> Result<(String, u32), ServerFnError> {
    if s.starts_with('!') {
        return Err(ServerFnError::Args(s));
    }
    Ok((s, n.wrapping_add(1)))
}

type R2 = Result<(String, u32), ServerFnError>;
fn show2(r: R2) -> Sexp {
    match r {
        Ok((s, n)) => Lst(vec![Num(0), Sexp::from_str(&s), Num(n as i64)]),
        Err(e) => Lst(vec![Num(1), err_to_sexp(&e)]),
    }
}
macro_rules! two {
    ($strct:ident, $func:ident, $s:expr, $n:expr) => {{
        let (s, n): (String, u32) = ($s, $n);
        Lst(vec![
            show2(block($strct { s: s.clone(), n }.run_on_client())),
            show2(block($func(s, n))),
            Sexp::from_str($strct::PATH),
            Sexp::from_str($strct::url()),
        ])
    }};
}

pub fn run(c: &Sexp) -> Sexp {
    match c.at(0).num() {
        29 => {
            let (s, n) = (text(c.at(2)), c.at(3).num() as u32);
            crate::fns::set_frame(c.at(4));
            MW_LOG.with(|l| l.borrow_mut().clear());
            let out = match c.at(1).num() {
                0 => {
                    let show = |r: Result<String, ServerFnError>| match r {
                        Ok(s) => Lst(vec![Num(0), Sexp::from_str(&s)]),
                        Err(e) => Lst(vec![Num(1), err_to_sexp(&e)]),
                    };
                    let remote = show(block(MwJson { s: s.clone(), n }.run_on_client()));
                    vec![remote, show(block(mw_json(s, n)))]
                }
                _ => {
                    let show = |r: Result<String, AppErrCbor>| match r {
                        Ok(s) => Lst(vec![Num(0), Sexp::from_str(&s)]),
                        Err(e) => Lst(vec![Num(1), e.sexp()]),
                    };
                    let remote = show(block(MwGeturl { s: s.clone(), n }.run_on_client()));
                    vec![remote, show(block(mw_geturl(s, n)))]
                }
            };
            let log = MW_LOG.with(|l| l.borrow().iter().map(|s| Sexp::from_str(s)).collect());
            Lst(vec![out[0].clone(), out[1].clone(), Lst(log)])
        }
        30 => {
            let (s, n) = (text(c.at(2)), c.at(3).num() as u32);
            crate::fns::set_frame(c.at(4));
            match c.at(1).num() {
                0 => two!(MDefault, m_default, s, n),
                1 => two!(MOnlyInput, m_only_input, s, n),
                2 => two!(MOnlyOutput, m_only_output, s, n),
                3 => two!(NamedArgs, m_named, s, n),
                4 => two!(MEndpoint, m_endpoint, s, n),
                5 => two!(LegacyCbor, m_legacy_cbor, s, n),
                6 => two!(LegacyGetJson, m_legacy_getjson, s, n),
                7 => two!(LegacyGetCbor, m_legacy_getcbor, s, n),
                8 => two!(MProtocol, m_protocol, s, n),
                9 => Lst(vec![
                    show2(block(Wrap(MCustom { s: s.clone(), n }).run_on_client())),
                    show2(block(m_custom(s, n))),
                    Sexp::from_str(<Wrap<MCustom> as ServerFn>::PATH),
                    Sexp::from_str(<Wrap<MCustom> as ServerFn>::url()),
                ]),
                10 => {
                    // the generated From / Deref of a one-argument function
                    let arg = MSingle::from(s.clone());
                    let seen: &String = &arg;
                    let seen = seen.clone();
                    let back: String = MSingle::from(seen).into();
                    Lst(vec![
                        show2(block(arg.run_on_client())),
                        show2(block(m_single(back))),
                        Sexp::from_str(MSingle::PATH),
                        Sexp::from_str(MSingle::url()),
                    ])
                }
                11 => Lst(vec![
                    show2(block(MSingleOff::from(s.clone()).run_on_client())),
                    show2(block(m_single_off(s))),
                    Sexp::from_str(MSingleOff::PATH),
                    Sexp::from_str(MSingleOff::url()),
                ]),
                12 => {
                    let arg = MDerive { s: s.clone(), n };
                    assert!(arg == arg.clone());
                    two!(MDerive, m_derive, s, n)
                }
                13 => {
                    // (a rename flatten skip default mut): d is skipped, so only its default travels
                    let ex = Extra { ex: n as u8, ey: s.clone() };
                    let f: Vec<u8> = s.bytes().collect();
                    let show = |r: Result<(u32, String, Extra, u8, String, Vec<u8>), ServerFnError>| match r {
                        Ok((a, b, c, d, e, f)) => Lst(vec![
                            Num(0),
                            Num(a as i64),
                            Sexp::from_str(&b),
                            Num(c.ex as i64),
                            Sexp::from_str(&c.ey),
                            Num(d as i64),
                            Sexp::from_str(&e),
                            Sexp::from_bytes(&f),
                        ]),
                        Err(e) => Lst(vec![Num(1), err_to_sexp(&e)]),
                    };
                    Lst(vec![
                        show(block(
                            MAttrs { a: n, b: s.clone(), c: ex.clone(), d: 0, e: s.clone(), f: f.clone() }
                                .run_on_client(),
                        )),
                        show(block(m_attrs(n, s.clone(), ex, 0, s, f))),
                        Sexp::from_str(MAttrs::PATH),
                        Sexp::from_str(MAttrs::url()),
                    ])
                }
                14 => {
                    let show = |r: Result<(u32, String, String), ServerFnError>| match r {
                        Ok((a, b, e)) => {
                            Lst(vec![Num(0), Num(a as i64), Sexp::from_str(&b), Sexp::from_str(&e)])
                        }
                        Err(e) => Lst(vec![Num(1), err_to_sexp(&e)]),
                    };
                    Lst(vec![
                        show(block(MAttrsUrl { a: n, b: s.clone(), e: s.clone() }.run_on_client())),
                        show(block(m_attrs_url(n, s.clone(), s))),
                        Sexp::from_str(MAttrsUrl::PATH),
                        Sexp::from_str(MAttrsUrl::url()),
                    ])
                }
                15 => {
                    let show = |r: AppRes<(String, u32)>| match r {
                        Ok((s, n)) => Lst(vec![Num(0), Sexp::from_str(&s), Num(n as i64)]),
                        Err(e) => Lst(vec![Num(1), e.sexp()]),
                    };
                    Lst(vec![
                        show(block(MAlias { s: s.clone(), n }.run_on_client())),
                        show(block(m_alias(s, n))),
                        Sexp::from_str(MAlias::PATH),
                        Sexp::from_str(MAlias::url()),
                    ])
                }
                _ => two!(MDocjson, m_docjson, s, n),
            }
        }
        _ => Lst(vec![]),
    }
}
// (keeps `Inner` linked for the argument-attribute cases of other modules)
#[allow(dead_code)]
fn _unused(_: Inner) {}
