//! op 36: argument / return values using serde's representation attributes (untagged,
//! internally and adjacently tagged enums, flatten, rename, default + skip_serializing_if,
//! `with` modules, newtype / unit / tuple structs, maps with non-string keys, nested options,
//! `Result` as data, borrowed-or-owned strings), each carrying byte vectors, through every
//! serde-based encoding. One shape travels per call, wrapped in an externally tagged enum
//! (which every format can carry), so that a codec that cannot represent one shape does not
//! hide the others.
use crate::{
    errs::{err_to_sexp, text},
    fns::{set_frame, u64_of, u64_to},
    looprt::{LoopClient, LoopServer},
};
use server_fn::{
    codec::{
        Cbor, GetUrl, Json, MsgPack, PatchCbor, PatchMsgPack, PostUrl, Postcard, PutJson, PutMsgPack,
        PutPostcard,
    },
    error::ServerFnError,
    ServerFn,
};
use server_fn_macro_default::server;
use std::{borrow::Cow, collections::BTreeMap};
use vsexp::{Lst, Num, Sexp};

#[derive(Clone, Debug, PartialEq, serde::Serialize, serde::Deserialize)]
#[serde(untagged)]
pub enum Untagged {
    Bytes { b: Vec<u8> },
    Num(i64),
    Text(String),
    Pair(u8, Vec<u8>),
    Unit,
}
#[derive(Clone, Debug, PartialEq, serde::Serialize, serde::Deserialize)]
#[serde(tag = "t")]
pub enum Internal {
    A { b: Vec<u8>, n: u64 },
    B { s: String },
    C,
}
#[derive(Clone, Debug, PartialEq, serde::Serialize, serde::Deserialize)]
#[serde(tag = "t", content = "c")]
pub enum Adjacent {
    A(Vec<u8>),
    B(i64, String),
    C,
    D { x: Option<u8> },
}
#[derive(Clone, Debug, PartialEq, serde::Serialize, serde::Deserialize)]
pub struct FlatIn {
    pub b: Vec<u8>,
    pub name: String,
}
#[derive(Clone, Debug, PartialEq, serde::Serialize, serde::Deserialize)]
pub struct Flat {
    pub id: u32,
    #[serde(flatten)]
    pub inner: FlatIn,
    #[serde(flatten)]
    pub extra: BTreeMap<String, u32>,
}
#[derive(Clone, Debug, PartialEq, serde::Serialize, serde::Deserialize)]
pub enum RenE {
    #[serde(rename = "first-one")]
    One,
    #[serde(rename = "2")]
    Two(u8),
}
#[derive(Clone, Debug, PartialEq, serde::Serialize, serde::Deserialize)]
#[serde(rename_all = "camelCase")]
pub struct Ren {
    #[serde(rename = "type")]
    pub ty: String,
    #[serde(rename = "a-b")]
    pub ab: Vec<u8>,
    pub some_number: u32,
    pub the_variant: RenE,
}
#[derive(Clone, Debug, PartialEq, serde::Serialize, serde::Deserialize)]
pub struct Skp {
    #[serde(default, skip_serializing_if = "Option::is_none")]
    pub o: Option<u32>,
    #[serde(default, skip_serializing_if = "Vec::is_empty")]
    pub v: Vec<u8>,
    #[serde(default)]
    pub d: u16,
    pub tail: String,
}
/// byte vectors written as a hex string
mod as_hex {
    pub fn serialize<S: serde::Serializer>(v: &Vec<u8>, s: S) -> Result<S::Ok, S::Error> {
        s.serialize_str(&v.iter().map(|b| format!("{b:02x}")).collect::<String>())
    }
    pub fn deserialize<'de, D: serde::Deserializer<'de>>(d: D) -> Result<Vec<u8>, D::Error> {
        let s: String = serde::Deserialize::deserialize(d)?;
        (0..s.len() / 2)
            .map(|i| u8::from_str_radix(s.get(2 * i..2 * i + 2).unwrap_or("zz"), 16).map_err(serde::de::Error::custom))
            .collect()
    }
}
/// byte vectors written with `serialize_bytes`, read from bytes or from a sequence (what the
/// `serde_bytes` crate does)
mod as_bytes {
    pub fn serialize<S: serde::Serializer>(v: &Vec<u8>, s: S) -> Result<S::Ok, S::Error> {
        s.serialize_bytes(v)
    }
    struct V;
    impl<'de> serde::de::Visitor<'de> for V {
        type Value = Vec<u8>;
        fn expecting(&self, f: &mut std::fmt::Formatter) -> std::fmt::Result {
            f.write_str("bytes")
        }
        fn visit_bytes<E: serde::de::Error>(self, v: &[u8]) -> Result<Vec<u8>, E> {
            Ok(v.to_vec())
        }
        fn visit_byte_buf<E: serde::de::Error>(self, v: Vec<u8>) -> Result<Vec<u8>, E> {
            Ok(v)
        }
        fn visit_str<E: serde::de::Error>(self, v: &str) -> Result<Vec<u8>, E> {
            Ok(v.as_bytes().to_vec())
        }
        fn visit_seq<A: serde::de::SeqAccess<'de>>(self, mut seq: A) -> Result<Vec<u8>, A::Error> {
            let mut out = vec![];
            while let Some(b) = seq.next_element::<u8>()? {
                out.push(b);
            }
            Ok(out)
        }
    }
    pub fn deserialize<'de, D: serde::Deserializer<'de>>(d: D) -> Result<Vec<u8>, D::Error> {
        d.deserialize_byte_buf(V)
    }
}
#[derive(Clone, Debug, PartialEq, serde::Serialize, serde::Deserialize)]
pub struct With {
    #[serde(with = "as_hex")]
    pub hex: Vec<u8>,
    #[serde(with = "as_bytes")]
    pub raw: Vec<u8>,
}
#[derive(Clone, Debug, PartialEq, serde::Serialize, serde::Deserialize)]
pub struct NtBytes(pub Vec<u8>);
#[derive(Clone, Debug, PartialEq, serde::Serialize, serde::Deserialize)]
pub struct NtNum(pub u64);
#[derive(Clone, Debug, PartialEq, serde::Serialize, serde::Deserialize)]
pub struct UnitS;
#[derive(Clone, Debug, PartialEq, serde::Serialize, serde::Deserialize)]
pub struct TupS(pub i8, pub Vec<u8>, pub String);
#[derive(Clone, Debug, PartialEq, serde::Serialize, serde::Deserialize)]
pub struct News {
    pub nt: NtBytes,
    pub ntn: NtNum,
    pub us: UnitS,
    pub ts: TupS,
}
#[derive(Clone, Debug, PartialEq, Eq, PartialOrd, Ord, serde::Serialize, serde::Deserialize)]
pub struct KeyS {
    pub a: u8,
}
#[derive(Clone, Debug, PartialEq, serde::Serialize, serde::Deserialize)]
pub struct Strs {
    pub cow: Cow<'static, str>,
    pub boxed: Box<str>,
    pub cow_bytes: Cow<'static, [u8]>,
}

/// the value that travels: exactly one shape
#[derive(Clone, Debug, PartialEq, serde::Serialize, serde::Deserialize)]
pub enum AnyShape {
    Untagged(Untagged),
    Internal(Internal),
    Adjacent(Adjacent),
    Flat(Flat),
    Ren(Ren),
    Skp(Skp),
    With(With),
    News(News),
    MapInt(BTreeMap<u32, Vec<u8>>),
    MapStruct(BTreeMap<KeyS, u8>),
    OptOpt(Option<Option<Vec<u8>>>),
    Res(Result<Vec<u8>, String>),
    Strs(Strs),
    Many(Vec<Untagged>),
}

macro_rules! afn {
    ($name:ident, $i:ident, $o:ident) => {
        #[server(input = $i, output = $o, client = LoopClient, server = LoopServer)]
        pub async fn $name(v: AnyShape, fail: u8) -> Result<AnyShape, ServerFnError> {
            if fail != 0 {
                return Err(ServerFnError::ServerError(format!("refused {fail}")));
            }
            Ok(v)
        }
    };
}
afn!(a_json, Json, Json);
afn!(a_cbor, Cbor, Cbor);
afn!(a_msgpack, MsgPack, MsgPack);
afn!(a_postcard, Postcard, Postcard);
afn!(a_json_msgpack, Json, MsgPack);
afn!(a_msgpack_json, MsgPack, Json);
afn!(a_cbor_postcard, Cbor, Postcard);
afn!(a_postcard_cbor, Postcard, Cbor);
afn!(a_posturl_json, PostUrl, Json);
afn!(a_geturl_cbor, GetUrl, Cbor);
afn!(a_patchmsgpack_putmsgpack, PatchMsgPack, PutMsgPack);
afn!(a_patchcbor_putjson, PatchCbor, PutJson);
afn!(a_json_putpostcard, Json, PutPostcard);
type AR = Result<AnyShape, ServerFnError>;
macro_rules! atable {
    ($($name:ident / $strct:ident),* $(,)?) => {
        pub const SHAPE_FNS: &[(fn(AnyShape, u8) -> AR, fn(AnyShape, u8) -> AR)] = &[
            $((
                |v, fail| futures::executor::block_on($strct { v, fail }.run_on_client()),
                |v, fail| futures::executor::block_on($name(v, fail)),
            )),*
        ];
    };
}
atable!(
    a_json / AJson, a_cbor / ACbor, a_msgpack / AMsgpack, a_postcard / APostcard,
    a_json_msgpack / AJsonMsgpack, a_msgpack_json / AMsgpackJson, a_cbor_postcard / ACborPostcard,
    a_postcard_cbor / APostcardCbor, a_posturl_json / APosturlJson, a_geturl_cbor / AGeturlCbor,
    a_patchmsgpack_putmsgpack / APatchmsgpackPutmsgpack, a_patchcbor_putjson / APatchcborPutjson,
    a_json_putpostcard / AJsonPutpostcard,
);

fn i64_of(s: &Sexp) -> i64 {
    u64_of(s) as i64
}
fn opt_of<T>(s: &Sexp, f: impl Fn(&Sexp) -> T) -> Option<T> {
    s.list().first().map(f)
}
fn untagged_of(s: &Sexp) -> Untagged {
    match s.at(0).num() {
        0 => Untagged::Bytes { b: s.at(1).bytes() },
        1 => Untagged::Num(i64_of(s.at(1))),
        2 => Untagged::Text(text(s.at(1))),
        3 => Untagged::Pair(s.at(1).num() as u8, s.at(2).bytes()),
        _ => Untagged::Unit,
    }
}
fn untagged_to(u: &Untagged) -> Sexp {
    match u {
        Untagged::Bytes { b } => Lst(vec![Num(0), Sexp::from_bytes(b)]),
        Untagged::Num(n) => Lst(vec![Num(1), u64_to(*n as u64)]),
        Untagged::Text(t) => Lst(vec![Num(2), Sexp::from_str(t)]),
        Untagged::Pair(a, b) => Lst(vec![Num(3), Num(*a as i64), Sexp::from_bytes(b)]),
        Untagged::Unit => Lst(vec![Num(4)]),
    }
}
pub fn shape_of(s: &Sexp) -> AnyShape {
    match s.at(0).num() {
        0 => AnyShape::Untagged(untagged_of(s.at(1))),
        1 => AnyShape::Internal(match s.at(1).num() {
            0 => Internal::A { b: s.at(2).bytes(), n: u64_of(s.at(3)) },
            1 => Internal::B { s: text(s.at(2)) },
            _ => Internal::C,
        }),
        2 => AnyShape::Adjacent(match s.at(1).num() {
            0 => Adjacent::A(s.at(2).bytes()),
            1 => Adjacent::B(i64_of(s.at(2)), text(s.at(3))),
            2 => Adjacent::C,
            _ => Adjacent::D { x: opt_of(s.at(2), |x| x.num() as u8) },
        }),
        3 => AnyShape::Flat(Flat {
            id: s.at(1).num() as u32,
            inner: FlatIn { b: s.at(2).bytes(), name: text(s.at(3)) },
            extra: s.at(4).list().iter().map(|kv| (text(kv.at(0)), kv.at(1).num() as u32)).collect(),
        }),
        4 => AnyShape::Ren(Ren {
            ty: text(s.at(1)),
            ab: s.at(2).bytes(),
            some_number: s.at(3).num() as u32,
            the_variant: if s.at(4).at(0).num() == 0 { RenE::One } else { RenE::Two(s.at(4).at(1).num() as u8) },
        }),
        5 => AnyShape::Skp(Skp {
            o: opt_of(s.at(1), |x| x.num() as u32),
            v: s.at(2).bytes(),
            d: s.at(3).num() as u16,
            tail: text(s.at(4)),
        }),
        6 => AnyShape::With(With { hex: s.at(1).bytes(), raw: s.at(2).bytes() }),
        7 => AnyShape::News(News {
            nt: NtBytes(s.at(1).bytes()),
            ntn: NtNum(u64_of(s.at(2))),
            us: UnitS,
            ts: TupS(s.at(3).num() as i8, s.at(4).bytes(), text(s.at(5))),
        }),
        8 => AnyShape::MapInt(s.at(1).list().iter().map(|kv| (kv.at(0).num() as u32, kv.at(1).bytes())).collect()),
        9 => AnyShape::MapStruct(
            s.at(1).list().iter().map(|kv| (KeyS { a: kv.at(0).num() as u8 }, kv.at(1).num() as u8)).collect(),
        ),
        10 => AnyShape::OptOpt(match s.at(1).num() {
            0 => None,
            1 => Some(None),
            _ => Some(Some(s.at(2).bytes())),
        }),
        11 => AnyShape::Res(if s.at(1).num() == 0 { Ok(s.at(2).bytes()) } else { Err(text(s.at(2))) }),
        12 => AnyShape::Strs(Strs {
            cow: Cow::Owned(text(s.at(1))),
            boxed: text(s.at(2)).into_boxed_str(),
            cow_bytes: Cow::Owned(s.at(3).bytes()),
        }),
        _ => AnyShape::Many(s.at(1).list().iter().map(untagged_of).collect()),
    }
}
pub fn shape_to(v: &AnyShape) -> Sexp {
    let opt = |o: Option<Sexp>| Lst(o.into_iter().collect());
    match v {
        AnyShape::Untagged(u) => Lst(vec![Num(0), untagged_to(u)]),
        AnyShape::Internal(i) => match i {
            Internal::A { b, n } => Lst(vec![Num(1), Num(0), Sexp::from_bytes(b), u64_to(*n)]),
            Internal::B { s } => Lst(vec![Num(1), Num(1), Sexp::from_str(s)]),
            Internal::C => Lst(vec![Num(1), Num(2)]),
        },
        AnyShape::Adjacent(a) => match a {
            Adjacent::A(b) => Lst(vec![Num(2), Num(0), Sexp::from_bytes(b)]),
            Adjacent::B(n, s) => Lst(vec![Num(2), Num(1), u64_to(*n as u64), Sexp::from_str(s)]),
            Adjacent::C => Lst(vec![Num(2), Num(2)]),
            Adjacent::D { x } => Lst(vec![Num(2), Num(3), opt(x.map(|x| Num(x as i64)))]),
        },
        AnyShape::Flat(f) => Lst(vec![
            Num(3),
            Num(f.id as i64),
            Sexp::from_bytes(&f.inner.b),
            Sexp::from_str(&f.inner.name),
            Lst(f.extra.iter().map(|(k, v)| Lst(vec![Sexp::from_str(k), Num(*v as i64)])).collect()),
        ]),
        AnyShape::Ren(r) => Lst(vec![
            Num(4),
            Sexp::from_str(&r.ty),
            Sexp::from_bytes(&r.ab),
            Num(r.some_number as i64),
            match &r.the_variant {
                RenE::One => Lst(vec![Num(0)]),
                RenE::Two(x) => Lst(vec![Num(1), Num(*x as i64)]),
            },
        ]),
        AnyShape::Skp(k) => Lst(vec![
            Num(5),
            opt(k.o.map(|x| Num(x as i64))),
            Sexp::from_bytes(&k.v),
            Num(k.d as i64),
            Sexp::from_str(&k.tail),
        ]),
        AnyShape::With(w) => Lst(vec![Num(6), Sexp::from_bytes(&w.hex), Sexp::from_bytes(&w.raw)]),
        AnyShape::News(n) => Lst(vec![
            Num(7),
            Sexp::from_bytes(&n.nt.0),
            u64_to(n.ntn.0),
            Num(n.ts.0 as i64),
            Sexp::from_bytes(&n.ts.1),
            Sexp::from_str(&n.ts.2),
        ]),
        AnyShape::MapInt(m) => Lst(vec![
            Num(8),
            Lst(m.iter().map(|(k, v)| Lst(vec![Num(*k as i64), Sexp::from_bytes(v)])).collect()),
        ]),
        AnyShape::MapStruct(m) => Lst(vec![
            Num(9),
            Lst(m.iter().map(|(k, v)| Lst(vec![Num(k.a as i64), Num(*v as i64)])).collect()),
        ]),
        AnyShape::OptOpt(o) => match o {
            None => Lst(vec![Num(10), Num(0)]),
            Some(None) => Lst(vec![Num(10), Num(1)]),
            Some(Some(b)) => Lst(vec![Num(10), Num(2), Sexp::from_bytes(b)]),
        },
        AnyShape::Res(r) => match r {
            Ok(b) => Lst(vec![Num(11), Num(0), Sexp::from_bytes(b)]),
            Err(e) => Lst(vec![Num(11), Num(1), Sexp::from_str(e)]),
        },
        AnyShape::Strs(s) => Lst(vec![
            Num(12),
            Sexp::from_str(&s.cow),
            Sexp::from_str(&s.boxed),
            Sexp::from_bytes(&s.cow_bytes),
        ]),
        AnyShape::Many(l) => Lst(vec![Num(13), Lst(l.iter().map(untagged_to).collect())]),
    }
}

/// (36 fn shape fail frame)
pub fn run(c: &Sexp) -> Sexp {
    let (remote, direct) = SHAPE_FNS[c.at(1).num() as usize % SHAPE_FNS.len()];
    let v = shape_of(c.at(2));
    let fail = c.at(3).num() as u8;
    set_frame(c.at(4));
    let show = |r: AR| match r {
        Ok(v) => Lst(vec![Num(0), shape_to(&v)]),
        Err(e) => Lst(vec![Num(1), err_to_sexp(&e)]),
    };
    Lst(vec![show(remote(v.clone(), fail)), show(direct(v, fail))])
}
