//! op 22: the websocket protocol (`Websocket<In, Out>::run_client` / `run_server` of
//! server_fn/src/lib.rs) over the loopback transport of looprt.rs: every item encoding, error
//! items in both directions, custom stream error types, items that cannot be encoded, frames
//! replaced in flight, several schedules of the four futures involved (caller, client
//! forwarder, server handler, server pump).
use crate::{
    errs::{err_from_case, err_to_sexp, text, Code},
    fns::{eplan_of, inner_of, inner_to, lib_err, AppErrCbor, AppErrMsgPack, Inner, Key, PoisonOut},
    glue::{demo_body, StrEncoding},
    looprt::{collect, run_tasks, serve, with_faults, Faults, LoopClient, LoopServer, WS_HANDSHAKE},
};
use futures::{stream, Stream, StreamExt};
use server_fn::{
    codec::{
        CborEncoding, JsonEncoding, MsgPackEncoding, PostcardEncoding, RkyvEncoding,
        SerdeLiteEncoding,
    },
    error::ServerFnError,
    BoxedStream, ServerFn, Websocket,
};
use server_fn_macro_default::server;
use std::pin::Pin;
use vsexp::{Lst, Num, Sexp};

type Items<T, E> = Pin<Box<dyn Stream<Item = Result<T, E>> + Send>>;

fn kind_err(kind: u8, msg: String) -> ServerFnError {
    use ServerFnError::*;
    match kind {
        1 => Registration(msg),
        2 => Request(msg),
        3 => Response(msg),
        4 => ServerError(msg),
        5 => MiddlewareError(msg),
        6 => Deserialization(msg),
        7 => Serialization(msg),
        8 => Args(msg),
        _ => MissingArg(msg),
    }
}
/// what the item-wise functions do with one item: "!<k><msg>" fails with kind k, anything
/// else comes back with x + 1 and a '~' appended to its label
fn item_plan(i: Inner) -> Result<Inner, ServerFnError> {
    let b = i.label.as_bytes();
    if b.len() >= 2 && b[0] == b'!' && (b'1'..=b'9').contains(&b[1]) {
        return Err(kind_err(b[1] - b'0', i.label[2..].to_string()));
    }
    Ok(Inner { x: i.x.wrapping_add(1), label: format!("{}~", i.label), opt: i.opt })
}
fn map_items(input: BoxedStream<Inner, ServerFnError>) -> BoxedStream<Inner, ServerFnError> {
    let s: Items<Inner, ServerFnError> = input.into();
    s.map(|item| item.and_then(item_plan)).into()
}

macro_rules! wsfn {
    ($name:ident, $i:ident, $o:ident) => {
        #[server(protocol = Websocket<$i, $o>, client = LoopClient, server = LoopServer)]
        pub async fn $name(
            input: BoxedStream<Inner, ServerFnError>,
        ) -> Result<BoxedStream<Inner, ServerFnError>, ServerFnError> {
            Ok(map_items(input))
        }
    };
}
wsfn!(ws_json, JsonEncoding, JsonEncoding);
wsfn!(ws_cbor, CborEncoding, CborEncoding);
wsfn!(ws_msgpack, MsgPackEncoding, MsgPackEncoding);
wsfn!(ws_postcard, PostcardEncoding, PostcardEncoding);
wsfn!(ws_rkyv, RkyvEncoding, RkyvEncoding);
wsfn!(ws_serdelite, SerdeLiteEncoding, SerdeLiteEncoding);
wsfn!(ws_json_rkyv, JsonEncoding, RkyvEncoding);
wsfn!(ws_rkyv_json, RkyvEncoding, JsonEncoding);
wsfn!(ws_cbor_postcard, CborEncoding, PostcardEncoding);

/// a body that waits for its first input item before it answers: "E<k><msg>" makes the call
/// itself fail, anything else starts the item-wise stream (first item included)
#[server(protocol = Websocket<JsonEncoding, JsonEncoding>, client = LoopClient, server = LoopServer)]
pub async fn ws_first(
    input: BoxedStream<Inner, ServerFnError>,
) -> Result<BoxedStream<Inner, ServerFnError>, ServerFnError> {
    let mut s: Items<Inner, ServerFnError> = input.into();
    let first = s.next().await;
    if let Some(Ok(i)) = &first {
        let b = i.label.as_bytes();
        if b.len() >= 2 && b[0] == b'E' && (b'1'..=b'9').contains(&b[1]) {
            return Err(kind_err(b[1] - b'0', i.label[2..].to_string()));
        }
    }
    Ok(stream::iter(first).chain(s).map(|item| item.and_then(item_plan)).into())
}

/// stream error types of their own, with binary encoders: Cbor-encoded errors travel to the
/// server, MsgPack-encoded ones back
fn app_convert(e: AppErrCbor) -> AppErrMsgPack {
    match e {
        AppErrCbor::Lib(l) => AppErrMsgPack::Lib(l),
        AppErrCbor::NotFound { id, what } => AppErrMsgPack::NotFound { id, what },
        AppErrCbor::Code(c) => AppErrMsgPack::Code(c),
        AppErrCbor::Many(m) => AppErrMsgPack::Many(m),
    }
}
fn app_item(item: Result<Inner, AppErrCbor>) -> Result<Inner, AppErrMsgPack> {
    match item {
        Err(e) => Err(app_convert(e)),
        Ok(i) => {
            let b = i.label.as_bytes();
            if b.len() >= 2 && b[0] == b'!' && (b'1'..=b'9').contains(&b[1]) {
                Err(AppErrMsgPack::Lib(lib_err(b[1] - b'0', i.label[2..].to_string())))
            } else if b.first() == Some(&b'?') {
                Err(AppErrMsgPack::NotFound { id: i.x as u32 as u64, what: i.label[1..].to_string() })
            } else {
                Ok(Inner { x: i.x.wrapping_add(1), label: format!("{}~", i.label), opt: i.opt })
            }
        }
    }
}
#[server(protocol = Websocket<PostcardEncoding, CborEncoding>, client = LoopClient, server = LoopServer)]
pub async fn ws_apperr(
    input: BoxedStream<Inner, AppErrCbor>,
) -> Result<BoxedStream<Inner, AppErrMsgPack>, ServerFnError> {
    let s: Items<Inner, AppErrCbor> = input.into();
    Ok(s.map(app_item).into())
}

/// items JSON cannot carry (maps with struct keys): an input item with a non-empty map cannot
/// be encoded by the client; an item whose pad starts with 'p' gets such a map on the way back
fn poison_item(item: Result<PoisonOut, ServerFnError>) -> Result<PoisonOut, ServerFnError> {
    item.map(|mut p| {
        if p.pad.starts_with('p') {
            p.m.insert(Key { a: 1 }, 2);
        }
        p.pad.push('~');
        p
    })
}
#[server(protocol = Websocket<JsonEncoding, JsonEncoding>, client = LoopClient, server = LoopServer)]
pub async fn ws_poison(
    input: BoxedStream<PoisonOut, ServerFnError>,
) -> Result<BoxedStream<PoisonOut, ServerFnError>, ServerFnError> {
    let s: Items<PoisonOut, ServerFnError> = input.into();
    Ok(s.map(poison_item).into())
}

/// the transparent codec of glue.rs (String <-> its UTF-8 bytes) and `ServerFnError<Code>`:
/// compared line by line with the Coq model of the websocket framing
fn glue_item(item: Result<String, ServerFnError<Code>>) -> Result<String, ServerFnError<Code>> {
    item.and_then(|s| demo_body(&s))
}
#[server(protocol = Websocket<StrEncoding, StrEncoding>, client = LoopClient, server = LoopServer)]
pub async fn ws_glue(
    input: BoxedStream<String, ServerFnError<Code>>,
) -> Result<BoxedStream<String, ServerFnError<Code>>, ServerFnError<Code>> {
    let s: Items<String, ServerFnError<Code>> = input.into();
    Ok(s.map(glue_item).into())
}

// ---------------------------------------------------------------- driving
fn items_to<T, E>(
    r: Result<Vec<Result<T, E>>, Sexp>,
    ok: &dyn Fn(&T) -> Sexp,
    err: &dyn Fn(&E) -> Sexp,
) -> Sexp {
    match r {
        Ok(items) => Lst(vec![
            Num(0),
            Lst(items
                .iter()
                .map(|i| match i {
                    Ok(v) => Lst(vec![Num(0), ok(v)]),
                    Err(e) => Lst(vec![Num(1), err(e)]),
                })
                .collect()),
        ]),
        Err(e) => e,
    }
}

/// remote (through the loopback websocket, on the harness executor) and direct
macro_rules! ws_both {
    ($strct:ident, $func:ident, $items:expr, $sched:expr, $take:expr, $ok:expr, $err:expr, $callerr:expr) => {{
        let items = $items;
        let take: usize = $take;
        let lim = if take == 0 { usize::MAX } else { take };
        let remote_items = items.clone();
        let remote = run_tasks(
            async move {
                let arg = $strct::from(BoxedStream::from(stream::iter(remote_items)));
                match arg.run_on_client().await {
                    Ok(out) => {
                        let s: Items<_, _> = out.into();
                        Ok(s.take(lim).collect::<Vec<_>>().await)
                    }
                    Err(e) => Err(Lst(vec![Num(1), $callerr(&e)])),
                }
            },
            $sched,
            20_000,
        )
        .unwrap_or_else(|m| Err(Lst(vec![Num(2), Sexp::from_str(&m)])));
        let handshake = WS_HANDSHAKE.with(|h| h.get());
        let direct = futures::executor::block_on(async move {
            match $func(BoxedStream::from(stream::iter(items))).await {
                Ok(out) => {
                    let s: Items<_, _> = out.into();
                    Ok(s.take(lim).collect::<Vec<_>>().await)
                }
                Err(e) => Err(Lst(vec![Num(1), $callerr(&e)])),
            }
        });
        Lst(vec![
            items_to(remote, &$ok, &$err),
            items_to(direct, &$ok, &$err),
            Num(handshake as i64),
        ])
    }};
}

fn app_cbor_of(s: &Sexp) -> AppErrCbor {
    let p = eplan_of(s);
    match p.variant {
        1 => AppErrCbor::NotFound { id: p.id, what: p.what },
        2 => AppErrCbor::Code(p.code),
        3 => AppErrCbor::Many(p.many),
        _ => AppErrCbor::Lib(lib_err(p.kind, p.what)),
    }
}

pub fn run(c: &Sexp) -> Sexp {
    let which = c.at(1).num();
    // a plain request (no upgrade) to a websocket function: the generic platform has no
    // websockets, the answer must be an error response
    if which == 13 {
        let req = http::Request::builder()
            .method("GET")
            .uri(WsJson::PATH)
            .body(bytes::Bytes::new())
            .unwrap();
        let w = futures::executor::block_on(async { collect(serve(req).await).await });
        return Lst(vec![Num(w.status as i64), Sexp::from_bytes(&w.body())]);
    }
    let sched: Vec<usize> = c.at(3).list().iter().map(|n| n.num().max(0) as usize).collect();
    let take = c.at(4).num().max(0) as usize;
    let mut faults = Faults::default();
    for f in c.at(5).list() {
        let frame = if f.at(2).at(0).num() == 0 { Ok(f.at(2).at(1).bytes()) } else { Err(f.at(2).at(1).bytes()) };
        faults.ws_frames.push((f.at(0).num() as u8, f.at(1).num().max(0) as usize, frame));
    }
    if c.at(6).list().len() == 2 {
        crate::looprt::FRAME
            .with(|f| f.set((c.at(6).at(0).num() as usize % 10, c.at(6).at(1).num() as usize % 10)));
    }
    let sfe = |e: &ServerFnError| err_to_sexp(e);
    let inner_items = || -> Vec<Result<Inner, ServerFnError>> {
        c.at(2)
            .list()
            .iter()
            .map(|i| match i.at(0).num() {
                0 => Ok(inner_of(i.at(1))),
                _ => Err(err_from_case(i.at(1).num(), i.at(2))),
            })
            .collect()
    };
    macro_rules! plain {
        ($strct:ident, $func:ident) => {
            with_faults(faults, || {
                ws_both!($strct, $func, inner_items(), &sched, take, inner_to, sfe, sfe)
            })
        };
    }
    match which {
        0 => {
            let items: Vec<Result<String, ServerFnError<Code>>> = c
                .at(2)
                .list()
                .iter()
                .map(|i| match i.at(0).num() {
                    0 => Ok(text(i.at(1))),
                    _ => Err(err_from_case(i.at(1).num(), i.at(2))),
                })
                .collect();
            let e = |e: &ServerFnError<Code>| err_to_sexp(e);
            with_faults(faults, || {
                ws_both!(WsGlue, ws_glue, items, &sched, take, |s: &String| Sexp::from_str(s), e, e)
            })
        }
        1 => plain!(WsJson, ws_json),
        2 => plain!(WsCbor, ws_cbor),
        3 => plain!(WsMsgpack, ws_msgpack),
        4 => plain!(WsPostcard, ws_postcard),
        5 => plain!(WsRkyv, ws_rkyv),
        6 => plain!(WsSerdelite, ws_serdelite),
        7 => plain!(WsJsonRkyv, ws_json_rkyv),
        8 => plain!(WsRkyvJson, ws_rkyv_json),
        9 => plain!(WsCborPostcard, ws_cbor_postcard),
        10 => plain!(WsFirst, ws_first),
        11 => {
            let items: Vec<Result<Inner, AppErrCbor>> = c
                .at(2)
                .list()
                .iter()
                .map(|i| match i.at(0).num() {
                    0 => Ok(inner_of(i.at(1))),
                    _ => Err(app_cbor_of(i.at(1))),
                })
                .collect();
            with_faults(faults, || {
                ws_both!(WsApperr, ws_apperr, items, &sched, take, inner_to, |e: &AppErrMsgPack| e.sexp(), sfe)
            })
        }
        _ => {
            let items: Vec<Result<PoisonOut, ServerFnError>> = c
                .at(2)
                .list()
                .iter()
                .map(|i| {
                    let mut m = std::collections::HashMap::new();
                    if i.at(2).num() != 0 {
                        m.insert(Key { a: 1 }, 2u32);
                    }
                    Ok(PoisonOut { pad: text(i.at(1)), m })
                })
                .collect();
            let show = |p: &PoisonOut| Lst(vec![Sexp::from_str(&p.pad), Num(p.m.len() as i64)]);
            with_faults(faults, || ws_both!(WsPoison, ws_poison, items, &sched, take, show, sfe, sfe))
        }
    }
}
