//! Harness for the server_fn properties. `h_serverfn c13` reads cases on stdin (one sexp
//! per line) and prints one observation per line.
mod errs;
mod fns;
mod glue;
mod looprt;

fn main() {
    let which = std::env::args().nth(1).unwrap_or_default();
    match which.as_str() {
        "c13" => vsexp::drive(c13),
        other => {
            eprintln!("unknown sub-command {other:?}");
            std::process::exit(2)
        }
    }
}

fn c13(c: &vsexp::Sexp) -> vsexp::Sexp {
    match c.at(0).num() {
        0..=6 | 16 => errs::run(c),
        7..=9 => glue::run(c),
        10..=15 | 17 => fns::run(c),
        _ => vsexp::Lst(vec![]),
    }
}
