//! Harness for the server_fn properties. `h_serverfn c13` reads cases on stdin (one sexp
//! per line) and prints one observation per line.
mod ax;
mod errs;
mod fns;
mod glue;
mod looprt;
mod more;
mod opts;
mod shapes;
mod ws;

fn main() {
    let which = std::env::args().nth(1).unwrap_or_default();
    match which.as_str() {
        "c13" => vsexp::drive(c13),
        other => {
            eprintln!("unknown sub-command {other:?}");
            std::process::exit(2)
        }
    }
}

fn c13(c: &vsexp::Sexp) -> vsexp::Sexp {
    // transport framing: header lengths of the request / response frames. Ops 10, 11 and 18
    // name them in the case; every other op gets a deterministic pair derived from the case.
    let h = c.to_string().len();
    looprt::FRAME.with(|f| f.set((h % 10, (h / 10) % 10)));
    looprt::RECHUNK.with(|r| r.set((0, 0)));
    match c.at(0).num() {
        0..=6 | 16 | 23..=26 => errs::run(c),
        7..=9 => glue::run(c),
        10..=15 | 17 | 18 | 20 | 21 => fns::run(c),
        22 => ws::run(c),
        29 | 30 => opts::run(c),
        31 | 32 => ax::run(c),
        36 => shapes::run(c),
        27 | 28 | 33..=35 => more::run(c),
        // a history: several calls on this thread, one after the other
        19 => vsexp::Lst(c.list()[1..].iter().map(c13).collect()),
        _ => vsexp::Lst(vec![]),
    }
}
