//! ops 10..: server functions declared with the real `#[server]` macro for every input x
//! output encoding /repo provides, called remotely through the loopback client and directly.
use crate::{
    errs::text,
    looprt::{collect, serve, with_faults, Edit, Faults, LoopClient, LoopServer},
};
use bytes::Bytes;
use futures::{stream, StreamExt};
use serde::{Deserialize, Serialize};
use server_fn::{
    codec::{
        ByteStream, Cbor, DeleteUrl, GetUrl, Json, MsgPack, MultipartData, MultipartFormData,
        PatchCbor, PatchJson, PatchMsgPack, PatchPostcard, PatchRkyv, PatchSerdeLite, PatchUrl,
        PostUrl, Postcard, PutCbor, PutJson, PutMsgPack, PutPostcard, PutRkyv, PutSerdeLite, PutUrl,
        Rkyv, SerdeLite, Streaming, StreamingText, TextStream,
    },
    error::{NoCustomError, ServerFnError},
    ServerFn,
};
use server_fn_macro_default::server;
use vsexp::{Lst, Num, Sexp};

#[derive(
    Clone, Debug, PartialEq, Serialize, Deserialize, serde_lite::Serialize, serde_lite::Deserialize,
    rkyv::Archive, rkyv::Serialize, rkyv::Deserialize,
)]
pub struct Inner {
    pub x: i32,
    pub label: String,
    pub opt: Option<String>,
}

#[derive(
    Clone, Debug, Serialize, Deserialize, serde_lite::Serialize, serde_lite::Deserialize,
    rkyv::Archive, rkyv::Serialize, rkyv::Deserialize,
)]
pub struct Val {
    pub id: u64,
    pub neg: i64,
    pub small: u8,
    pub flag: bool,
    pub ratio: f64,
    pub name: String,
    pub inner: Inner,
    pub items: Vec<Inner>,
    pub tags: Vec<String>,
    pub maybe: Option<Inner>,
}
impl PartialEq for Val {
    fn eq(&self, o: &Self) -> bool {
        self.id == o.id
            && self.neg == o.neg
            && self.small == o.small
            && self.flag == o.flag
            && self.ratio.to_bits() == o.ratio.to_bits()
            && self.name == o.name
            && self.inner == o.inner
            && self.items == o.items
            && self.tags == o.tags
            && self.maybe == o.maybe
    }
}

/// what the body should do: 0 = succeed, 1..=9 = fail with that kind, 10 = the wrapped custom error
#[derive(
    Clone, Debug, PartialEq, Serialize, Deserialize, serde_lite::Serialize, serde_lite::Deserialize,
    rkyv::Archive, rkyv::Serialize, rkyv::Deserialize,
)]
pub struct Plan {
    pub fail: u8,
    pub msg: String,
}

/// the body shared by all typed server functions
pub fn body(v: Val, plan: Plan) -> Result<Val, ServerFnError> {
    use ServerFnError::*;
    match plan.fail {
        0 => {
            let mut v = v;
            v.name.push('~');
            v.small = v.small.wrapping_add(1);
            v.items.reverse();
            Ok(v)
        }
        1 => Err(Registration(plan.msg)),
        2 => Err(Request(plan.msg)),
        3 => Err(Response(plan.msg)),
        4 => Err(ServerError(plan.msg)),
        5 => Err(MiddlewareError(plan.msg)),
        6 => Err(Deserialization(plan.msg)),
        7 => Err(Serialization(plan.msg)),
        8 => Err(Args(plan.msg)),
        9 => Err(MissingArg(plan.msg)),
        _ => Err(WrappedServerError(NoCustomError)),
    }
}

macro_rules! sfn {
    ($name:ident, $strct:ident, $i:ident, $o:ident) => {
        #[server(input = $i, output = $o, client = LoopClient, server = LoopServer)]
        pub async fn $name(v: Val, plan: Plan) -> Result<Val, ServerFnError> {
            body(v, plan)
        }
    };
}

/// the same with `input_derive`: the macro chooses the derives of the argument struct by the
/// *name* of the input encoding (`Rkyv`, `SerdeLite`); for `PatchRkyv` / `PutRkyv` /
/// `PatchSerdeLite` / `PutSerdeLite` it would derive serde's traits, which does not compile
macro_rules! sfn_d {
    ($name:ident, $i:ident, $o:ident, ($($d:path),*)) => {
        #[server(input = $i, output = $o, client = LoopClient, server = LoopServer, input_derive = (Clone, $($d),*))]
        pub async fn $name(v: Val, plan: Plan) -> Result<Val, ServerFnError> {
            body(v, plan)
        }
    };
}

// every input encoding with Json output, every output encoding with Json input, and some
// mixed pairs
sfn!(f_json_json, FJsonJson, Json, Json);
sfn!(f_cbor_json, FCborJson, Cbor, Json);
sfn!(f_msgpack_json, FMsgpackJson, MsgPack, Json);
sfn!(f_postcard_json, FPostcardJson, Postcard, Json);
sfn!(f_rkyv_json, FRkyvJson, Rkyv, Json);
sfn!(f_serdelite_json, FSerdeliteJson, SerdeLite, Json);
sfn!(f_geturl_json, FGeturlJson, GetUrl, Json);
sfn!(f_posturl_json, FPosturlJson, PostUrl, Json);
sfn!(f_deleteurl_json, FDeleteurlJson, DeleteUrl, Json);
sfn!(f_patchurl_json, FPatchurlJson, PatchUrl, Json);
sfn!(f_puturl_json, FPuturlJson, PutUrl, Json);
sfn!(f_patchjson_json, FPatchjsonJson, PatchJson, Json);
sfn!(f_putjson_json, FPutjsonJson, PutJson, Json);
sfn!(f_json_cbor, FJsonCbor, Json, Cbor);
sfn!(f_json_msgpack, FJsonMsgpack, Json, MsgPack);
sfn!(f_json_postcard, FJsonPostcard, Json, Postcard);
sfn!(f_json_rkyv, FJsonRkyv, Json, Rkyv);
sfn!(f_json_serdelite, FJsonSerdelite, Json, SerdeLite);
sfn!(f_json_patchjson, FJsonPatchjson, Json, PatchJson);
sfn!(f_json_putjson, FJsonPutjson, Json, PutJson);
sfn!(f_cbor_cbor, FCborCbor, Cbor, Cbor);
sfn!(f_msgpack_msgpack, FMsgpackMsgpack, MsgPack, MsgPack);
sfn!(f_postcard_postcard, FPostcardPostcard, Postcard, Postcard);
sfn!(f_rkyv_rkyv, FRkyvRkyv, Rkyv, Rkyv);
sfn!(f_serdelite_serdelite, FSerdeliteSerdelite, SerdeLite, SerdeLite);
sfn!(f_geturl_cbor, FGeturlCbor, GetUrl, Cbor);
sfn!(f_posturl_rkyv, FPosturlRkyv, PostUrl, Rkyv);
sfn!(f_rkyv_postcard, FRkyvPostcard, Rkyv, Postcard);
sfn!(f_patchcbor_putcbor, FPatchcborPutcbor, PatchCbor, PutCbor);
sfn!(f_putcbor_msgpack, FPutcborMsgpack, PutCbor, MsgPack);
// (audit) the Patch/Put wrappers of every encoding, as input and as output
sfn!(f_json_patchcbor, FJsonPatchcbor, Json, PatchCbor);
sfn!(f_patchmsgpack_putmsgpack, FPatchmsgpackPutmsgpack, PatchMsgPack, PutMsgPack);
sfn!(f_putmsgpack_patchmsgpack, FPutmsgpackPatchmsgpack, PutMsgPack, PatchMsgPack);
sfn!(f_patchpostcard_putpostcard, FPatchpostcardPutpostcard, PatchPostcard, PutPostcard);
sfn!(f_putpostcard_patchpostcard, FPutpostcardPatchpostcard, PutPostcard, PatchPostcard);
sfn_d!(f_patchrkyv_putrkyv, PatchRkyv, PutRkyv, (rkyv::Archive, rkyv::Serialize, rkyv::Deserialize));
sfn_d!(f_putrkyv_patchrkyv, PutRkyv, PatchRkyv, (rkyv::Archive, rkyv::Serialize, rkyv::Deserialize));
sfn_d!(f_patchserdelite_putserdelite, PatchSerdeLite, PutSerdeLite, (serde_lite::Serialize, serde_lite::Deserialize));
sfn_d!(f_putserdelite_patchserdelite, PutSerdeLite, PatchSerdeLite, (serde_lite::Serialize, serde_lite::Deserialize));

// ---------------------------------------------------------------- Option arguments
/// what the Option-argument functions return: their arguments
#[derive(Clone, Debug, PartialEq, Serialize, Deserialize)]
pub struct OptEcho {
    pub first: Option<u32>,
    pub a: String,
    pub mid: Option<String>,
    pub list: Option<Vec<Inner>>,
    pub n: i64,
    pub last: Option<Inner>,
}
type RO = Result<OptEcho, ServerFnError>;

macro_rules! ofn {
    ($name:ident, $i:ident) => {
        #[server(input = $i, output = Json, client = LoopClient, server = LoopServer)]
        pub async fn $name(
            first: Option<u32>,
            a: String,
            mid: Option<String>,
            list: Option<Vec<Inner>>,
            n: i64,
            last: Option<Inner>,
        ) -> Result<OptEcho, ServerFnError> {
            Ok(OptEcho { first, a, mid, list, n, last })
        }
    };
}
macro_rules! ofn_d {
    ($name:ident, $i:ident, ($($d:path),*)) => {
        #[server(input = $i, output = Json, client = LoopClient, server = LoopServer, input_derive = (Clone, $($d),*))]
        pub async fn $name(
            first: Option<u32>,
            a: String,
            mid: Option<String>,
            list: Option<Vec<Inner>>,
            n: i64,
            last: Option<Inner>,
        ) -> Result<OptEcho, ServerFnError> {
            Ok(OptEcho { first, a, mid, list, n, last })
        }
    };
}
ofn!(o_json, Json);
ofn!(o_cbor, Cbor);
ofn!(o_msgpack, MsgPack);
ofn!(o_postcard, Postcard);
ofn!(o_rkyv, Rkyv);
ofn!(o_serdelite, SerdeLite);
ofn!(o_geturl, GetUrl);
ofn!(o_posturl, PostUrl);
ofn!(o_deleteurl, DeleteUrl);
ofn!(o_patchurl, PatchUrl);
ofn!(o_puturl, PutUrl);
ofn!(o_patchjson, PatchJson);
ofn!(o_putjson, PutJson);
ofn!(o_patchcbor, PatchCbor);
ofn!(o_putcbor, PutCbor);
ofn!(o_patchmsgpack, PatchMsgPack);
ofn!(o_putmsgpack, PutMsgPack);
ofn!(o_patchpostcard, PatchPostcard);
ofn!(o_putpostcard, PutPostcard);
ofn_d!(o_patchrkyv, PatchRkyv, (rkyv::Archive, rkyv::Serialize, rkyv::Deserialize));
ofn_d!(o_putrkyv, PutRkyv, (rkyv::Archive, rkyv::Serialize, rkyv::Deserialize));
ofn_d!(o_patchserdelite, PatchSerdeLite, (serde_lite::Serialize, serde_lite::Deserialize));
ofn_d!(o_putserdelite, PutSerdeLite, (serde_lite::Serialize, serde_lite::Deserialize));

macro_rules! otable {
    ($($name:ident / $strct:ident),* $(,)?) => {
        pub const OPT_FNS: &[(&str, fn(OptEcho) -> RO, fn(OptEcho) -> RO)] = &[
            $((
                stringify!($name),
                |e| futures::executor::block_on(
                    $strct { first: e.first, a: e.a, mid: e.mid, list: e.list, n: e.n, last: e.last }
                        .run_on_client(),
                ),
                |e| futures::executor::block_on($name(e.first, e.a, e.mid, e.list, e.n, e.last)),
            )),*
        ];
    };
}
otable!(
    o_json / OJson, o_cbor / OCbor, o_msgpack / OMsgpack, o_postcard / OPostcard, o_rkyv / ORkyv,
    o_serdelite / OSerdelite, o_geturl / OGeturl, o_posturl / OPosturl, o_deleteurl / ODeleteurl,
    o_patchurl / OPatchurl, o_puturl / OPuturl, o_patchjson / OPatchjson, o_putjson / OPutjson,
    o_patchcbor / OPatchcbor, o_putcbor / OPutcbor, o_patchmsgpack / OPatchmsgpack,
    o_putmsgpack / OPutmsgpack, o_patchpostcard / OPatchpostcard, o_putpostcard / OPutpostcard,
    o_patchrkyv / OPatchrkyv, o_putrkyv / OPutrkyv, o_patchserdelite / OPatchserdelite,
    o_putserdelite / OPutserdelite,
);

// ---------------------------------------------------------------- values a codec cannot carry
#[derive(Clone, Debug, PartialEq, Eq, Hash, Serialize, Deserialize)]
pub struct Key {
    pub a: u8,
}
#[derive(Clone, Debug, PartialEq, Serialize, Deserialize)]
pub struct PoisonOut {
    pub pad: String,
    pub m: std::collections::HashMap<Key, u32>,
}
/// JSON object keys must be strings: the argument fails to serialize after `pad` was written
#[server(input = Json, output = Json, client = LoopClient, server = LoopServer)]
pub async fn poison_arg(pad: String, m: std::collections::HashMap<Key, u32>) -> Result<u32, ServerFnError> {
    Ok((pad.len() + m.len()) as u32)
}
/// … and here the result does
#[server(input = Json, output = Json, client = LoopClient, server = LoopServer)]
pub async fn poison_result(pad: String) -> Result<PoisonOut, ServerFnError> {
    let mut m = std::collections::HashMap::new();
    m.insert(Key { a: 1 }, 2u32);
    Ok(PoisonOut { pad, m })
}
/// JSON has no NaN
#[server(input = Json, output = Json, client = LoopClient, server = LoopServer)]
pub async fn nan_arg(x: f64) -> Result<u32, ServerFnError> {
    Ok(x.is_nan() as u32)
}
#[derive(Clone, Debug, Serialize, Deserialize)]
pub struct D6 { pub x: u8 }
#[derive(Clone, Debug, Serialize, Deserialize)]
pub struct D5 { pub d: D6 }
#[derive(Clone, Debug, Serialize, Deserialize)]
pub struct D4 { pub d: D5 }
#[derive(Clone, Debug, Serialize, Deserialize)]
pub struct D3 { pub d: D4 }
#[derive(Clone, Debug, Serialize, Deserialize)]
pub struct D2 { pub d: D3 }
#[derive(Clone, Debug, Serialize, Deserialize)]
pub struct D1 { pub d: D2 }
/// nesting deeper than the URL codecs' limit of 5
#[server(input = GetUrl, output = Json, client = LoopClient, server = LoopServer)]
pub async fn deep(d: D1) -> Result<u32, ServerFnError> {
    Ok(d.d.d.d.d.d.x as u32)
}

// ---------------------------------------------------------------- custom error types
#[derive(Clone, Debug, Serialize, Deserialize)]
pub struct EPlan {
    pub variant: u8,
    pub id: u64,
    pub what: String,
    pub code: u32,
    pub many: Vec<u8>,
    pub kind: u8,
}
pub fn eplan_of(s: &Sexp) -> EPlan {
    EPlan {
        variant: s.at(0).num() as u8,
        id: u64_of(s.at(1)),
        what: text(s.at(2)),
        code: s.at(3).num() as u32,
        many: s.at(4).bytes(),
        kind: s.at(5).num() as u8,
    }
}
pub fn lib_err(kind: u8, m: String) -> server_fn::error::ServerFnErrorErr {
    use server_fn::error::ServerFnErrorErr as K;
    match kind {
        1 => K::Registration(m),
        2 => K::Request(m),
        3 => K::Response(m),
        4 => K::ServerError(m),
        5 => K::MiddlewareError(m),
        6 => K::Deserialization(m),
        7 => K::Serialization(m),
        8 => K::Args(m),
        9 => K::MissingArg(m),
        _ => K::UnsupportedRequestMethod(m),
    }
}
pub fn lib_err_to(e: &server_fn::error::ServerFnErrorErr) -> Sexp {
    use server_fn::error::ServerFnErrorErr as K;
    let (k, m) = match e {
        K::Registration(m) => (1, m),
        K::Request(m) => (2, m),
        K::Response(m) => (3, m),
        K::ServerError(m) => (4, m),
        K::MiddlewareError(m) => (5, m),
        K::Deserialization(m) => (6, m),
        K::Serialization(m) => (7, m),
        K::Args(m) => (8, m),
        K::MissingArg(m) => (9, m),
        K::UnsupportedRequestMethod(m) => (10, m),
    };
    Lst(vec![Num(k), Sexp::from_str(m)])
}
macro_rules! app_err {
    ($err:ident, $enc:ty, $fname:ident, $strct:ident, $input:ident) => {
        /// an application error type carried by its own encoding
        #[derive(Clone, Debug, PartialEq, Serialize, Deserialize)]
        pub enum $err {
            Lib(server_fn::error::ServerFnErrorErr),
            NotFound { id: u64, what: String },
            Code(u32),
            Many(Vec<u8>),
        }
        impl std::fmt::Display for $err {
            fn fmt(&self, f: &mut std::fmt::Formatter<'_>) -> std::fmt::Result {
                write!(f, "{self:?}")
            }
        }
        impl server_fn::error::FromServerFnError for $err {
            type Encoder = $enc;
            fn from_server_fn_error(e: server_fn::error::ServerFnErrorErr) -> Self {
                Self::Lib(e)
            }
        }
        impl $err {
            pub fn sexp(&self) -> Sexp {
                match self {
                    Self::Lib(e) => Lst(vec![Num(4), lib_err_to(e)]),
                    Self::NotFound { id, what } => Lst(vec![Num(1), u64_to(*id), Sexp::from_str(what)]),
                    Self::Code(c) => Lst(vec![Num(2), Num(*c as i64)]),
                    Self::Many(b) => Lst(vec![Num(3), Sexp::from_bytes(b)]),
                }
            }
            pub fn show(r: Result<u32, Self>) -> Sexp {
                match r {
                    Ok(n) => Lst(vec![Num(0), Num(n as i64)]),
                    Err(e) => Lst(vec![Num(1), e.sexp()]),
                }
            }
        }
        #[server(input = $input, output = Json, client = LoopClient, server = LoopServer)]
        pub async fn $fname(plan: EPlan) -> Result<u32, $err> {
            match plan.variant {
                0 => Ok(plan.code),
                1 => Err($err::NotFound { id: plan.id, what: plan.what }),
                2 => Err($err::Code(plan.code)),
                3 => Err($err::Many(plan.many)),
                _ => Err($err::Lib(lib_err(plan.kind, plan.what))),
            }
        }
    };
}
app_err!(AppErrJson, server_fn::codec::JsonEncoding, e_json, EJson, Json);
app_err!(AppErrCbor, server_fn::codec::CborEncoding, e_cbor, ECbor, Cbor);
app_err!(AppErrMsgPack, server_fn::codec::MsgPackEncoding, e_msgpack, EMsgpack, MsgPack);
app_err!(AppErrPostcard, server_fn::codec::PostcardEncoding, e_postcard, EPostcard, Postcard);
app_err!(AppErrPostcardJsonIn, server_fn::codec::PostcardEncoding, e_postcard_jsonin, EPostcardJsonin, Json);
app_err!(AppErrMsgPackUrlIn, server_fn::codec::MsgPackEncoding, e_msgpack_urlin, EMsgpackUrlin, PostUrl);

type AppFn = fn(EPlan) -> Sexp;
pub const APP_FNS: &[(AppFn, AppFn)] = &[
    (|p| AppErrJson::show(futures::executor::block_on(EJson { plan: p }.run_on_client())),
     |p| AppErrJson::show(futures::executor::block_on(e_json(p)))),
    (|p| AppErrCbor::show(futures::executor::block_on(ECbor { plan: p }.run_on_client())),
     |p| AppErrCbor::show(futures::executor::block_on(e_cbor(p)))),
    (|p| AppErrMsgPack::show(futures::executor::block_on(EMsgpack { plan: p }.run_on_client())),
     |p| AppErrMsgPack::show(futures::executor::block_on(e_msgpack(p)))),
    (|p| AppErrPostcard::show(futures::executor::block_on(EPostcard { plan: p }.run_on_client())),
     |p| AppErrPostcard::show(futures::executor::block_on(e_postcard(p)))),
    (|p| AppErrPostcardJsonIn::show(futures::executor::block_on(EPostcardJsonin { plan: p }.run_on_client())),
     |p| AppErrPostcardJsonIn::show(futures::executor::block_on(e_postcard_jsonin(p)))),
    (|p| AppErrMsgPackUrlIn::show(futures::executor::block_on(EMsgpackUrlin { plan: p }.run_on_client())),
     |p| AppErrMsgPackUrlIn::show(futures::executor::block_on(e_msgpack_urlin(p)))),
    // (audit) Rkyv- and SerdeLite-encoded error types, and one behind a middleware-free Put
    (|p| crate::more::AppErrRkyv::show(futures::executor::block_on(crate::more::ERkyv { plan: p }.run_on_client())),
     |p| crate::more::AppErrRkyv::show(futures::executor::block_on(crate::more::e_rkyv(p)))),
    (|p| crate::more::AppErrSerdeLite::show(futures::executor::block_on(crate::more::ESerdelite { plan: p }.run_on_client())),
     |p| crate::more::AppErrSerdeLite::show(futures::executor::block_on(crate::more::e_serdelite(p)))),
    (|p| crate::more::AppErrRkyv::show(futures::executor::block_on(crate::more::ERkyvPut { plan: p }.run_on_client())),
     |p| crate::more::AppErrRkyv::show(futures::executor::block_on(crate::more::e_rkyv_put(p)))),
];

type R = Result<Val, ServerFnError>;
macro_rules! table {
    ($($name:ident / $strct:ident),* $(,)?) => {
        /// (name, remote call, direct call)
        pub const PAIRS: &[(&str, fn(Val, Plan) -> R, fn(Val, Plan) -> R)] = &[
            $((
                stringify!($name),
                |v, plan| futures::executor::block_on($strct { v, plan }.run_on_client()),
                |v, plan| futures::executor::block_on($name(v, plan)),
            )),*
        ];
    };
}
table!(
    f_json_json / FJsonJson, f_cbor_json / FCborJson, f_msgpack_json / FMsgpackJson,
    f_postcard_json / FPostcardJson, f_rkyv_json / FRkyvJson, f_serdelite_json / FSerdeliteJson,
    f_geturl_json / FGeturlJson, f_posturl_json / FPosturlJson, f_deleteurl_json / FDeleteurlJson,
    f_patchurl_json / FPatchurlJson, f_puturl_json / FPuturlJson, f_patchjson_json / FPatchjsonJson,
    f_putjson_json / FPutjsonJson, f_json_cbor / FJsonCbor, f_json_msgpack / FJsonMsgpack,
    f_json_postcard / FJsonPostcard, f_json_rkyv / FJsonRkyv, f_json_serdelite / FJsonSerdelite,
    f_json_patchjson / FJsonPatchjson, f_json_putjson / FJsonPutjson, f_cbor_cbor / FCborCbor,
    f_msgpack_msgpack / FMsgpackMsgpack, f_postcard_postcard / FPostcardPostcard,
    f_rkyv_rkyv / FRkyvRkyv, f_serdelite_serdelite / FSerdeliteSerdelite,
    f_geturl_cbor / FGeturlCbor, f_posturl_rkyv / FPosturlRkyv, f_rkyv_postcard / FRkyvPostcard,
    f_patchcbor_putcbor / FPatchcborPutcbor, f_putcbor_msgpack / FPutcborMsgpack,
    f_json_patchcbor / FJsonPatchcbor, f_patchmsgpack_putmsgpack / FPatchmsgpackPutmsgpack,
    f_putmsgpack_patchmsgpack / FPutmsgpackPatchmsgpack,
    f_patchpostcard_putpostcard / FPatchpostcardPutpostcard,
    f_putpostcard_patchpostcard / FPutpostcardPatchpostcard,
    f_patchrkyv_putrkyv / FPatchrkyvPutrkyv, f_putrkyv_patchrkyv / FPutrkyvPatchrkyv,
    f_patchserdelite_putserdelite / FPatchserdelitePutserdelite,
    f_putserdelite_patchserdelite / FPutserdelitePatchserdelite,
);

// ---------------------------------------------------------------- streams
/// text in, text out: every chunk upper-cased (so the concatenated output does not depend on
/// where the transport cuts the stream)
#[server(input = StreamingText, output = StreamingText, client = LoopClient, server = LoopServer)]
pub async fn echo_text(input: TextStream) -> Result<TextStream, ServerFnError> {
    let s = input.into_inner().map(|item| item.map(|chunk| chunk.to_ascii_uppercase()));
    Ok(TextStream::new(s))
}
/// a chunk "!<kind><msg>" becomes an error item, any other chunk is upper-cased
fn chunk_plan(chunk: String) -> Result<String, ServerFnError> {
    let b = chunk.as_bytes();
    if b.len() >= 2 && b[0] == b'!' && (b'1'..=b'9').contains(&b[1]) {
        let plan = Plan { fail: b[1] - b'0', msg: chunk[2..].to_string() };
        return Err(body(dummy(), plan).unwrap_err());
    }
    Ok(chunk.to_ascii_uppercase())
}
fn dummy() -> Val {
    Val {
        id: 0, neg: 0, small: 0, flag: false, ratio: 0.0, name: String::new(),
        inner: Inner { x: 0, label: String::new(), opt: None },
        items: vec![], tags: vec![], maybe: None,
    }
}

/// json in, byte stream out: the chunks named in the argument
#[server(input = Json, output = Streaming, client = LoopClient, server = LoopServer)]
pub async fn emit_bytes(chunks: Vec<Vec<u8>>) -> Result<ByteStream, ServerFnError> {
    Ok(ByteStream::from(stream::iter(chunks.into_iter().map(Bytes::from))))
}

/// json in, text stream out
#[server(input = Json, output = StreamingText, client = LoopClient, server = LoopServer)]
pub async fn text_out(chunks: Vec<String>) -> Result<TextStream, ServerFnError> {
    Ok(TextStream::new(stream::iter(chunks.into_iter().map(chunk_plan))))
}

/// byte stream in, json out (the macro cannot express a `Streaming` input, whose argument type
/// must itself be the stream, so this one is written by hand the way the macro would expand)
pub struct BytesIn(std::sync::Mutex<std::pin::Pin<Box<dyn futures::Stream<Item = Bytes> + Send>>>);
impl BytesIn {
    pub fn new(chunks: Vec<Vec<u8>>) -> Self {
        BytesIn(std::sync::Mutex::new(Box::pin(stream::iter(chunks.into_iter().map(Bytes::from)))))
    }
}
impl futures::Stream for BytesIn {
    type Item = Bytes;
    fn poll_next(
        self: std::pin::Pin<&mut Self>,
        cx: &mut std::task::Context<'_>,
    ) -> std::task::Poll<Option<Bytes>> {
        self.get_mut().0.get_mut().unwrap().as_mut().poll_next(cx)
    }
}
impl From<ByteStream> for BytesIn {
    fn from(s: ByteStream) -> Self {
        BytesIn(std::sync::Mutex::new(Box::pin(s.into_inner().map(|r| r.unwrap_or_else(|e| e)))))
    }
}
pub async fn count_bytes(input: BytesIn) -> Result<Vec<u8>, ServerFnError> {
    let chunks: Vec<Bytes> = input.collect().await;
    Ok(chunks.concat())
}
impl ServerFn for BytesIn {
    const PATH: &'static str = "/api/count_bytes";
    type Client = LoopClient;
    type Server = LoopServer;
    type Protocol = server_fn::Http<Streaming, Json>;
    type Output = Vec<u8>;
    type Error = ServerFnError;
    type InputStreamError = ServerFnError;
    type OutputStreamError = ServerFnError;
    async fn run_body(self) -> Result<Vec<u8>, ServerFnError> {
        count_bytes(self).await
    }
}
server_fn::inventory::submit! {
    server_fn::ServerFnTraitObj::new::<BytesIn>(|req| Box::pin(BytesIn::run_on_server(req)))
}

/// multipart in (server side only; the browser builds such requests)
#[server(input = MultipartFormData, output = Json, client = LoopClient, server = LoopServer)]
pub async fn upload(data: MultipartData) -> Result<Vec<(String, usize)>, ServerFnError> {
    let mut data = data.into_inner().expect("server side");
    let mut out = vec![];
    while let Ok(Some(mut field)) = data.next_field().await {
        let name = field.name().unwrap_or_default().to_string();
        let mut n = 0;
        while let Ok(Some(chunk)) = field.chunk().await {
            n += chunk.len();
        }
        out.push((name, n));
    }
    Ok(out)
}

// ---------------------------------------------------------------- case decoding
pub fn u64_of(s: &Sexp) -> u64 {
    ((s.at(0).num() as u64) << 32) | (s.at(1).num() as u64 & 0xffff_ffff)
}
pub fn u64_to(v: u64) -> Sexp {
    Lst(vec![Num((v >> 32) as i64), Num((v & 0xffff_ffff) as i64)])
}
pub fn inner_of(s: &Sexp) -> Inner {
    Inner {
        x: s.at(0).num() as i32,
        label: text(s.at(1)),
        opt: s.at(2).list().first().map(text),
    }
}
pub fn inner_to(i: &Inner) -> Sexp {
    Lst(vec![
        Num(i.x as i64),
        Sexp::from_str(&i.label),
        Lst(i.opt.iter().map(|s| Sexp::from_str(s)).collect()),
    ])
}
pub fn val_of(s: &Sexp) -> Val {
    Val {
        id: u64_of(s.at(0)),
        neg: u64_of(s.at(1)) as i64,   // two's complement halves (the OCaml side has 63-bit ints)
        small: s.at(2).num() as u8,
        flag: s.at(3).num() != 0,
        ratio: f64::from_bits(u64_of(s.at(4))),
        name: text(s.at(5)),
        inner: inner_of(s.at(6)),
        items: s.at(7).list().iter().map(inner_of).collect(),
        tags: s.at(8).list().iter().map(text).collect(),
        maybe: s.at(9).list().first().map(inner_of),
    }
}
pub fn val_to(v: &Val) -> Sexp {
    Lst(vec![
        u64_to(v.id),
        u64_to(v.neg as u64),
        Num(v.small as i64),
        Sexp::bool(v.flag),
        u64_to(v.ratio.to_bits()),
        Sexp::from_str(&v.name),
        inner_to(&v.inner),
        Lst(v.items.iter().map(inner_to).collect()),
        Lst(v.tags.iter().map(|s| Sexp::from_str(s)).collect()),
        Lst(v.maybe.iter().map(inner_to).collect()),
    ])
}
pub fn plan_of(s: &Sexp) -> Plan {
    Plan { fail: s.at(0).num() as u8, msg: text(s.at(1)) }
}
pub fn res_to(r: &R) -> Sexp {
    match r {
        Ok(v) => Lst(vec![Num(0), val_to(v)]),
        Err(e) => Lst(vec![Num(1), crate::errs::err_to_sexp(e)]),
    }
}
fn edit_of(s: &Sexp) -> Edit {
    match s.at(0).num() {
        0 => Edit::Truncate(s.at(1).num() as usize),
        1 => Edit::Flip(s.at(1).num() as usize, s.at(2).num() as u8),
        2 => Edit::Splice(s.at(1).num() as usize, s.at(2).num() as usize, s.at(3).bytes()),
        _ => Edit::Replace(s.at(1).bytes()),
    }
}
fn items_to<T, F: Fn(&T) -> Sexp>(items: &[Result<T, ServerFnError>], f: F) -> Sexp {
    Lst(items
        .iter()
        .map(|i| match i {
            Ok(v) => Lst(vec![Num(0), f(v)]),
            Err(e) => Lst(vec![Num(1), crate::errs::err_to_sexp(e)]),
        })
        .collect())
}

/// (request-piece-size response-piece-size) for streamed bodies; absent = as sent
pub fn set_rechunk(s: &Sexp) {
    if s.list().len() == 2 {
        crate::looprt::RECHUNK.with(|r| r.set((s.at(0).num() as usize, s.at(1).num() as usize)));
    }
}
/// a chunk is written as segments `(n bytes)`: `bytes` repeated `n` times
pub fn chunk_of(s: &Sexp) -> Vec<u8> {
    let mut v = vec![];
    for seg in s.list() {
        let unit = seg.at(1).bytes();
        for _ in 0..seg.at(0).num().max(0) {
            v.extend_from_slice(&unit);
        }
    }
    v
}
fn chunk_text(s: &Sexp) -> String {
    String::from_utf8(chunk_of(s)).expect("case strings are valid UTF-8 by construction")
}
pub fn fnv(b: &[u8]) -> u64 {
    b.iter().fold(0xcbf29ce484222325u64, |h, x| (h ^ *x as u64).wrapping_mul(0x100000001b3))
}
/// what a stream delivered, independent of where it was cut: maximal runs of data as
/// (0 length fnv1a64), error items as (1 error)
pub fn runs(items: impl Iterator<Item = Result<Vec<u8>, Sexp>>) -> Sexp {
    let mut out = vec![];
    let mut run: Option<Vec<u8>> = None;
    let mut flush = |run: &mut Option<Vec<u8>>, out: &mut Vec<Sexp>| {
        // (an empty run carries no data: whether the sender emitted empty chunks is not observable)
        if let Some(r) = run.take().filter(|r| !r.is_empty()) {
            out.push(Lst(vec![Num(0), Num(r.len() as i64), u64_to(fnv(&r))]));
        }
    };
    for i in items {
        match i {
            Ok(b) => run.get_or_insert_with(Vec::new).extend_from_slice(&b),
            Err(e) => {
                flush(&mut run, &mut out);
                out.push(Lst(vec![Num(1), e]));
            }
        }
    }
    flush(&mut run, &mut out);
    Lst(out)
}
pub fn sum_text(r: Result<TextStream, ServerFnError>) -> Sexp {
    match r {
        Ok(s) => {
            let items: Vec<Result<String, ServerFnError>> =
                futures::executor::block_on(s.into_inner().collect());
            Lst(vec![
                Num(0),
                runs(items.into_iter().map(|i| match i {
                    Ok(s) => Ok(s.into_bytes()),
                    Err(e) => Err(crate::errs::err_to_sexp(&e)),
                })),
            ])
        }
        Err(e) => Lst(vec![Num(1), crate::errs::err_to_sexp(&e)]),
    }
}

/// (request-frame-header response-frame-header), each 0..=9; absent = keep the default
pub fn set_frame(s: &Sexp) {
    if s.list().len() == 2 {
        crate::looprt::FRAME
            .with(|f| f.set((s.at(0).num() as usize % 10, s.at(1).num() as usize % 10)));
    }
}

pub fn run(c: &Sexp) -> Sexp {
    use futures::executor::block_on;
    match c.at(0).num() {
        // remote vs direct
        10 => {
            let (_, remote, direct) = PAIRS[c.at(1).num() as usize % PAIRS.len()];
            let (v, plan) = (val_of(c.at(2)), plan_of(c.at(3)));
            set_frame(c.at(4));
            let r = remote(v.clone(), plan.clone());
            let d = direct(v, plan);
            Lst(vec![res_to(&r), res_to(&d)])
        }
        // remote under byte-level faults of the transport
        11 => {
            let (_, remote, _) = PAIRS[c.at(1).num() as usize % PAIRS.len()];
            let (v, plan) = (val_of(c.at(2)), plan_of(c.at(3)));
            set_frame(c.at(6));
            let mut f = Faults::default();
            match c.at(4).num() {
                0 => f.request = Some(edit_of(c.at(5))),
                1 => f.response = Some(edit_of(c.at(5))),
                2 => f.status = Some(c.at(5).num() as u16),
                // the transport itself fails / the body cannot be read
                3 => f.send_fails = true,
                _ => f.read_fails = true,
            }
            let r = with_faults(f, || remote(v, plan));
            match r {
                Ok(_) => Lst(vec![Num(0)]),
                Err(e) => Lst(vec![Num(1), crate::errs::err_to_sexp(&e)]),
            }
        }
        // a multipart request as the server receives it
        12 => {
            let mut b = http::Request::builder().method("POST").uri(Upload::PATH);
            if let Some(ct) = c.at(1).list().first() {
                b = b.header("content-type", http::HeaderValue::from_bytes(&ct.bytes()).unwrap());
            }
            let req = b
                .body(crate::looprt::framed(&c.at(2).bytes(), crate::looprt::FRAME.with(|f| f.get()).0))
                .unwrap();
            let w = block_on(async { collect(serve(req).await).await });
            Lst(vec![Num(w.status as i64), Sexp::from_bytes(&w.body())])
        }
        // text stream in, text stream out
        13 => {
            let chunks: Vec<String> = c.at(1).list().iter().map(chunk_text).collect();
            set_rechunk(c.at(2));
            // (the fourth element selects the constructor: `TextStream::new` over results, or
            // `TextStream::from` over anything that converts into a String)
            let ctor = c.at(3).num();
            let mk = || {
                if ctor == 1 {
                    TextStream::from(stream::iter(chunks.clone().into_iter()))
                } else if ctor == 2 {
                    let strs: Vec<std::borrow::Cow<'static, str>> =
                        chunks.iter().map(|c| std::borrow::Cow::Owned(c.clone())).collect();
                    TextStream::from(stream::iter(strs.into_iter()))
                } else {
                    TextStream::new(stream::iter(chunks.clone().into_iter().map(Ok)))
                }
            };
            let remote = sum_text(block_on(EchoText { input: mk() }.run_on_client()));
            let direct = sum_text(block_on(echo_text(mk())));
            Lst(vec![remote, direct])
        }
        // byte stream out
        14 => {
            let chunks: Vec<Vec<u8>> = c.at(1).list().iter().map(chunk_of).collect();
            set_rechunk(c.at(2));
            let sum = |r: Result<ByteStream, ServerFnError>| match r {
                Ok(s) => {
                    let items: Vec<Result<Bytes, Bytes>> = block_on(s.into_inner().collect());
                    Lst(vec![
                        Num(0),
                        runs(items.into_iter().map(|i| match i {
                            Ok(b) => Ok(b.to_vec()),
                            Err(b) => Err(Lst(vec![Num(-1), Sexp::from_bytes(&b)])),
                        })),
                    ])
                }
                Err(e) => Lst(vec![Num(1), crate::errs::err_to_sexp(&e)]),
            };
            let remote = sum(block_on(EmitBytes { chunks: chunks.clone() }.run_on_client()));
            let direct = sum(block_on(emit_bytes(chunks)));
            Lst(vec![remote, direct])
        }
        // text stream out (with error items)
        15 => {
            let chunks: Vec<String> = c.at(1).list().iter().map(chunk_text).collect();
            set_rechunk(c.at(2));
            let remote = sum_text(block_on(TextOut { chunks: chunks.clone() }.run_on_client()));
            let direct = sum_text(block_on(text_out(chunks)));
            Lst(vec![remote, direct])
        }
        // byte stream in
        17 => {
            let chunks: Vec<Vec<u8>> = c.at(1).list().iter().map(chunk_of).collect();
            set_rechunk(c.at(2));
            let show = |r: Result<Vec<u8>, ServerFnError>| match r {
                Ok(b) => Lst(vec![Num(0), runs(std::iter::once(Ok(b)))]),
                Err(e) => Lst(vec![Num(1), crate::errs::err_to_sexp(&e)]),
            };
            let remote = show(block_on(BytesIn::new(chunks.clone()).run_on_client()));
            let direct = show(block_on(count_bytes(BytesIn::new(chunks))));
            Lst(vec![remote, direct])
        }
        // Option arguments in first / middle / last position, for every input encoding
        18 => {
            let (_, remote, direct) = OPT_FNS[c.at(1).num() as usize % OPT_FNS.len()];
            let e = OptEcho {
                first: c.at(2).list().first().map(|x| x.num() as u32),
                a: text(c.at(3)),
                mid: c.at(4).list().first().map(text),
                list: c.at(5).list().first().map(|l| l.list().iter().map(inner_of).collect()),
                n: u64_of(c.at(6)) as i64,
                last: c.at(7).list().first().map(inner_of),
            };
            set_frame(c.at(8));
            let show = |r: RO| match r {
                Ok(e) => Lst(vec![
                    Num(0),
                    Lst(vec![
                        Lst(e.first.iter().map(|x| Num(*x as i64)).collect()),
                        Sexp::from_str(&e.a),
                        Lst(e.mid.iter().map(|s| Sexp::from_str(s)).collect()),
                        Lst(e.list.iter().map(|l| Lst(l.iter().map(inner_to).collect())).collect()),
                        u64_to(e.n as u64),
                        Lst(e.last.iter().map(inner_to).collect()),
                    ]),
                ]),
                Err(e) => Lst(vec![Num(1), crate::errs::err_to_sexp(&e)]),
            };
            let r = show(remote(e.clone()));
            let d = show(direct(e));
            Lst(vec![r, d])
        }
        // calls that cannot be encoded or decoded, on purpose
        20 => {
            let show = |r: Result<u32, ServerFnError>| match r {
                Ok(n) => Lst(vec![Num(0), Num(n as i64)]),
                Err(e) => Lst(vec![Num(1), crate::errs::err_to_sexp(&e)]),
            };
            let pad = "p".repeat(c.at(2).num().clamp(0, 5000) as usize);
            let mut m = std::collections::HashMap::new();
            m.insert(Key { a: 1 }, 2u32);
            match c.at(1).num() {
                0 => show(block_on(PoisonArg { pad, m }.run_on_client())),
                1 => show(block_on(PoisonResult { pad }.run_on_client()).map(|o| o.m.len() as u32)),
                2 => show(block_on(NanArg { x: f64::NAN }.run_on_client())),
                3 => show(block_on(
                    Deep { d: D1 { d: D2 { d: D3 { d: D4 { d: D5 { d: D6 { x: 7 } } } } } } }
                        .run_on_client(),
                )),
                // an error value its own encoder cannot encode (pad = number of map entries)
                _ => crate::more::badkeys((c.at(2).num().clamp(0, 5000) % 256) as u8),
            }
        }
        // custom error types with text and binary encoders
        21 => {
            let plan = eplan_of(c.at(2));
            set_frame(c.at(3));
            let (remote, direct) = APP_FNS[c.at(1).num() as usize % APP_FNS.len()];
            Lst(vec![remote(plan.clone()), direct(plan)])
        }
        _ => Lst(vec![]),
    }
}
