//! ops 7..9: the real protocol glue (`Http::run_client`, `Http::run_server`,
//! `ServerFn::run_on_server` with form redirects, `error_response`, `redirect`) driven with a
//! transparent codec (String <-> its UTF-8 bytes) so that the Coq model of the glue can be
//! compared line by line. The `ServerFn` impl is written by hand (what `#[server]` expands to).
use crate::{
    errs::{err_to_sexp, text, Code},
    looprt::{hook_log, serve, collect, with_faults, Faults, LoopClient, LoopServer, Wire},
};
use bytes::Bytes;
use server_fn::{
    codec::{Patch, Post, Put}, error::ServerFnError, ContentType, Decodes, Encodes, Format, FormatType, Http,
    ServerFn, ServerFnTraitObj,
};
use vsexp::{Lst, Num, Sexp};

pub struct StrEncoding;
impl ContentType for StrEncoding {
    const CONTENT_TYPE: &'static str = "text/plain";
}
impl FormatType for StrEncoding {
    const FORMAT_TYPE: Format = Format::Text;
}
impl Encodes<String> for StrEncoding {
    type Error = std::fmt::Error;
    fn encode(v: &String) -> Result<Bytes, Self::Error> {
        Ok(Bytes::from(v.clone()))
    }
}
impl Decodes<String> for StrEncoding {
    type Error = std::string::FromUtf8Error;
    fn decode(b: Bytes) -> Result<String, Self::Error> {
        String::from_utf8(b.to_vec())
    }
}

/// "E<d><rest>": fail with the error of kind d (0 = the custom error, code = len(rest) mod 256);
/// anything else: succeed with the text followed by '!'
pub fn demo_body(s: &str) -> Result<String, ServerFnError<Code>> {
    use ServerFnError::*;
    let b = s.as_bytes();
    if b.len() >= 2 && b[0] == b'E' && b[1].is_ascii_digit() {
        let rest = s[2..].to_string();
        return Err(match b[1] {
            b'0' => WrappedServerError(Code((rest.len() % 256) as u8)),
            b'1' => Registration(rest),
            b'2' => Request(rest),
            b'3' => Response(rest),
            b'4' => ServerError(rest),
            b'5' => MiddlewareError(rest),
            b'6' => Deserialization(rest),
            b'7' => Serialization(rest),
            b'8' => Args(rest),
            _ => MissingArg(rest),
        });
    }
    Ok(format!("{s}!"))
}

macro_rules! glue_fn {
    ($name:ident, $path:literal, $wrap:ident) => {
        #[derive(Clone, Debug)]
        pub struct $name {
            pub s: String,
        }
        impl Encodes<$name> for StrEncoding {
            type Error = std::fmt::Error;
            fn encode(v: &$name) -> Result<Bytes, Self::Error> {
                Ok(Bytes::from(v.s.clone()))
            }
        }
        impl Decodes<$name> for StrEncoding {
            type Error = std::string::FromUtf8Error;
            fn decode(b: Bytes) -> Result<$name, Self::Error> {
                String::from_utf8(b.to_vec()).map(|s| $name { s })
            }
        }
        impl ServerFn for $name {
            const PATH: &'static str = $path;
            type Client = LoopClient;
            type Server = LoopServer;
            type Protocol = Http<$wrap<StrEncoding>, $wrap<StrEncoding>>;
            type Output = String;
            type Error = ServerFnError<Code>;
            type InputStreamError = ServerFnError<Code>;
            type OutputStreamError = ServerFnError<Code>;

            async fn run_body(self) -> Result<String, ServerFnError<Code>> {
                demo_body(&self.s)
            }
        }
        server_fn::inventory::submit! {
            ServerFnTraitObj::new::<$name>(|req| Box::pin($name::run_on_server(req)))
        }
    };
}
// the same function behind the three body-carrying method wrappers (post.rs / patch.rs / put.rs)
glue_fn!(Glue, "/api/glue", Post);
glue_fn!(GluePatch, "/api/glue_patch", Patch);
glue_fn!(GluePut, "/api/glue_put", Put);

fn call(sel: i64, s: String) -> Result<String, ServerFnError<Code>> {
    use futures::executor::block_on;
    match sel {
        1 => block_on(GluePatch { s }.run_on_client()),
        2 => block_on(GluePut { s }.run_on_client()),
        _ => block_on(Glue { s }.run_on_client()),
    }
}
fn route(sel: i64) -> (&'static str, &'static str) {
    match sel {
        1 => ("PATCH", GluePatch::PATH),
        2 => ("PUT", GluePut::PATH),
        _ => ("POST", Glue::PATH),
    }
}

fn opt_bytes(s: &Sexp) -> Option<Vec<u8>> {
    s.list().first().map(|b| b.bytes())
}
fn s_opt(o: Option<Vec<u8>>) -> Sexp {
    Lst(o.into_iter().map(|b| Sexp::from_bytes(&b)).collect())
}
pub fn result_sexp(r: &Result<String, ServerFnError<Code>>) -> Sexp {
    match r {
        Ok(s) => Lst(vec![Num(0), Sexp::from_str(s)]),
        Err(e) => Lst(vec![Num(1), err_to_sexp(e)]),
    }
}
fn drain_hooks() -> Sexp {
    let mut l = hook_log().lock().unwrap();
    Lst(l.drain(..).map(|s| Sexp::from_str(&s)).collect())
}

pub fn run(c: &Sexp) -> Sexp {
    hook_log();
    match c.at(0).num() {
        // client glue on a canned response
        7 => {
            let mut headers = http::HeaderMap::new();
            if c.at(3).num() != 0 {
                headers.insert(server_fn::redirect::REDIRECT_HEADER, "1".parse().unwrap());
            }
            if let Some(l) = opt_bytes(c.at(4)) {
                headers.insert("location", http::HeaderValue::from_bytes(&l).unwrap());
            }
            let wire = Wire {
                status: c.at(2).num() as u16,
                headers,
                chunks: vec![Ok(Bytes::from(c.at(5).bytes()))],
            };
            let _ = drain_hooks();
            let r = with_faults(Faults { canned: Some(wire), ..Default::default() }, || {
                call(c.at(6).num(), text(c.at(1)))
            });
            Lst(vec![result_sexp(&r), drain_hooks()])
        }
        // server glue on a raw request
        8 => {
            let (method, path) = route(c.at(4).num());
            let mut b = http::Request::builder().method(method).uri(path);
            if let Some(a) = opt_bytes(c.at(2)) {
                b = b.header("accept", http::HeaderValue::from_bytes(&a).unwrap());
            }
            // referer: () | (1 pre query fragment) an absolute URL | (2 raw) anything else
            let r = c.at(3);
            let referer = match r.at(0).num() {
                1 => Some(crate::errs::url_string(r.at(1), r.at(2), r.at(3)).into_bytes()),
                2 => Some(r.at(1).bytes()),
                _ => None,
            };
            if let Some(r) = referer {
                b = b.header("referer", http::HeaderValue::from_bytes(&r).unwrap());
            }
            let req = b
                .body(crate::looprt::framed(&c.at(1).bytes(), crate::looprt::FRAME.with(|f| f.get()).0))
                .unwrap();
            let w = futures::executor::block_on(async { collect(serve(req).await).await });
            Lst(vec![
                Num(w.status as i64),
                Sexp::from_bytes(&w.body()),
                s_opt(w.header(server_fn::error::SERVER_FN_ERROR_HEADER)),
                s_opt(w.header("location")),
                s_opt(w.header("content-type")),
            ])
        }
        // the whole loop, and the direct call
        9 => {
            let s = text(c.at(1));
            let _ = drain_hooks();
            let remote = call(c.at(2).num(), s.clone());
            let hooks = drain_hooks();
            let direct = demo_body(&s);
            Lst(vec![result_sexp(&remote), hooks, result_sexp(&direct)])
        }
        _ => Lst(vec![]),
    }
}
