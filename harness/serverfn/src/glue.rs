//! ops 7..9: the real protocol glue (`Http::run_client`, `Http::run_server`,
//! `ServerFn::run_on_server` with form redirects, `error_response`, `redirect`) driven with a
//! transparent codec (String <-> its UTF-8 bytes) so that the Coq model of the glue can be
//! compared line by line. The `ServerFn` impl is written by hand (what `#[server]` expands to).
use crate::{
    errs::{err_to_sexp, text, Code},
    looprt::{hook_log, serve, collect, with_faults, Faults, LoopClient, LoopServer, Wire},
};
use bytes::Bytes;
use server_fn::{
    codec::Post, error::ServerFnError, ContentType, Decodes, Encodes, Format, FormatType, Http,
    ServerFn, ServerFnTraitObj,
};
use vsexp::{Lst, Num, Sexp};

pub struct StrEncoding;
impl ContentType for StrEncoding {
    const CONTENT_TYPE: &'static str = "text/plain";
}
impl FormatType for StrEncoding {
    const FORMAT_TYPE: Format = Format::Text;
}
impl Encodes<Glue> for StrEncoding {
    type Error = std::fmt::Error;
    fn encode(v: &Glue) -> Result<Bytes, Self::Error> {
        Ok(Bytes::from(v.s.clone()))
    }
}
impl Decodes<Glue> for StrEncoding {
    type Error = std::string::FromUtf8Error;
    fn decode(b: Bytes) -> Result<Glue, Self::Error> {
        String::from_utf8(b.to_vec()).map(|s| Glue { s })
    }
}
impl Encodes<String> for StrEncoding {
    type Error = std::fmt::Error;
    fn encode(v: &String) -> Result<Bytes, Self::Error> {
        Ok(Bytes::from(v.clone()))
    }
}
impl Decodes<String> for StrEncoding {
    type Error = std::string::FromUtf8Error;
    fn decode(b: Bytes) -> Result<String, Self::Error> {
        String::from_utf8(b.to_vec())
    }
}

#[derive(Clone, Debug)]
pub struct Glue {
    pub s: String,
}

/// "E<d><rest>": fail with the error of kind d (0 = the custom error, code = len(rest) mod 256);
/// anything else: succeed with the text followed by '!'
pub fn demo_body(s: &str) -> Result<String, ServerFnError<Code>> {
    use ServerFnError::*;
    let b = s.as_bytes();
    if b.len() >= 2 && b[0] == b'E' && b[1].is_ascii_digit() {
        let rest = s[2..].to_string();
        return Err(match b[1] {
            b'0' => WrappedServerError(Code((rest.len() % 256) as u8)),
            b'1' => Registration(rest),
            b'2' => Request(rest),
            b'3' => Response(rest),
            b'4' => ServerError(rest),
            b'5' => MiddlewareError(rest),
            b'6' => Deserialization(rest),
            b'7' => Serialization(rest),
            b'8' => Args(rest),
            _ => MissingArg(rest),
        });
    }
    Ok(format!("{s}!"))
}

impl ServerFn for Glue {
    const PATH: &'static str = "/api/glue";
    type Client = LoopClient;
    type Server = LoopServer;
    type Protocol = Http<Post<StrEncoding>, Post<StrEncoding>>;
    type Output = String;
    type Error = ServerFnError<Code>;
    type InputStreamError = ServerFnError<Code>;
    type OutputStreamError = ServerFnError<Code>;

    async fn run_body(self) -> Result<String, ServerFnError<Code>> {
        demo_body(&self.s)
    }
}
server_fn::inventory::submit! {
    ServerFnTraitObj::new::<Glue>(|req| Box::pin(Glue::run_on_server(req)))
}

fn opt_bytes(s: &Sexp) -> Option<Vec<u8>> {
    s.list().first().map(|b| b.bytes())
}
fn s_opt(o: Option<Vec<u8>>) -> Sexp {
    Lst(o.into_iter().map(|b| Sexp::from_bytes(&b)).collect())
}
pub fn result_sexp(r: &Result<String, ServerFnError<Code>>) -> Sexp {
    match r {
        Ok(s) => Lst(vec![Num(0), Sexp::from_str(s)]),
        Err(e) => Lst(vec![Num(1), err_to_sexp(e)]),
    }
}
fn drain_hooks() -> Sexp {
    let mut l = hook_log().lock().unwrap();
    Lst(l.drain(..).map(|s| Sexp::from_str(&s)).collect())
}

pub fn run(c: &Sexp) -> Sexp {
    hook_log();
    match c.at(0).num() {
        // client glue on a canned response
        7 => {
            let mut headers = http::HeaderMap::new();
            if c.at(3).num() != 0 {
                headers.insert(server_fn::redirect::REDIRECT_HEADER, "1".parse().unwrap());
            }
            if let Some(l) = opt_bytes(c.at(4)) {
                headers.insert("location", http::HeaderValue::from_bytes(&l).unwrap());
            }
            let wire = Wire {
                status: c.at(2).num() as u16,
                headers,
                chunks: vec![Ok(Bytes::from(c.at(5).bytes()))],
            };
            let _ = drain_hooks();
            let r = with_faults(Faults { canned: Some(wire), ..Default::default() }, || {
                futures::executor::block_on(Glue { s: text(c.at(1)) }.run_on_client())
            });
            Lst(vec![result_sexp(&r), drain_hooks()])
        }
        // server glue on a raw request
        8 => {
            let mut b = http::Request::builder().method("POST").uri(Glue::PATH);
            if let Some(a) = opt_bytes(c.at(2)) {
                b = b.header("accept", http::HeaderValue::from_bytes(&a).unwrap());
            }
            // referer: () | (1 pre query fragment) an absolute URL | (2 raw) anything else
            let r = c.at(3);
            let referer = match r.at(0).num() {
                1 => Some(crate::errs::url_string(r.at(1), r.at(2), r.at(3)).into_bytes()),
                2 => Some(r.at(1).bytes()),
                _ => None,
            };
            if let Some(r) = referer {
                b = b.header("referer", http::HeaderValue::from_bytes(&r).unwrap());
            }
            let req = b.body(Bytes::from(c.at(1).bytes())).unwrap();
            let w = futures::executor::block_on(async { collect(serve(req).await).await });
            Lst(vec![
                Num(w.status as i64),
                Sexp::from_bytes(&w.body()),
                s_opt(w.header(server_fn::error::SERVER_FN_ERROR_HEADER)),
                s_opt(w.header("location")),
                s_opt(w.header("content-type")),
            ])
        }
        // the whole loop, and the direct call
        9 => {
            let s = text(c.at(1));
            let _ = drain_hooks();
            let remote = futures::executor::block_on(Glue { s: s.clone() }.run_on_client());
            let hooks = drain_hooks();
            let direct = demo_body(&s);
            Lst(vec![result_sexp(&remote), hooks, result_sexp(&direct)])
        }
        _ => Lst(vec![]),
    }
}
