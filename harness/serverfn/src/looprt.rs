//! Loopback runtime: a `Client` whose `send` hands the request straight to the server
//! function registered for (path, method) — found through the same `inventory` registry the
//! real integrations use — and a `Server` built on the `generic` request/response types of
//! /repo (`http::Request<Bytes>`, `http::Response<generic::Body>`).
use bytes::Bytes;
use futures::{stream, Sink, Stream, StreamExt};
use http::Method;
use server_fn::{
    client::Client,
    error::{FromServerFnError, IntoAppError, ServerFnErrorErr},
    request::{ClientReq, Req},
    response::{generic::Body, ClientRes},
    server::Server,
    ServerFnTraitObj,
};
use std::{
    borrow::Cow, cell::RefCell, collections::HashMap, future::Future, pin::Pin, sync::OnceLock,
};

// ------------------------------------------------------------------ server side
/// `http::Request<Bytes>` of /repo's `generic` module; every `Req` method delegates to
/// /repo's implementation. (The wrapper exists only because that implementation names
/// `Response<Bytes>` as its websocket response type while `Res`/`TryRes` are implemented for
/// `Response<Body>`, so the two generic types cannot be paired in a `Server` directly.)
pub struct SrvReq(pub http::Request<Bytes>, pub Option<WsEnds>);
pub type SrvRes = http::Response<Body>;
/// one direction of a loopback websocket
pub type WsRx = Pin<Box<dyn Stream<Item = Result<Bytes, Bytes>> + Send>>;
pub type WsTx = futures::channel::mpsc::UnboundedSender<Result<Bytes, Bytes>>;
/// the server's ends of an upgraded connection: frames from the client, frames to the client
pub type WsEnds = (WsRx, WsTx);
type Inner = http::Request<Bytes>;

impl<E, I, O> Req<E, I, O> for SrvReq
where
    E: FromServerFnError + Send,
    I: FromServerFnError + Send,
    O: FromServerFnError + Send,
{
    type WebsocketResponse = SrvRes;

    fn as_query(&self) -> Option<&str> {
        <Inner as Req<E, I, O>>::as_query(&self.0)
    }
    fn to_content_type(&self) -> Option<Cow<'_, str>> {
        <Inner as Req<E, I, O>>::to_content_type(&self.0)
    }
    fn accepts(&self) -> Option<Cow<'_, str>> {
        <Inner as Req<E, I, O>>::accepts(&self.0)
    }
    fn referer(&self) -> Option<Cow<'_, str>> {
        <Inner as Req<E, I, O>>::referer(&self.0)
    }
    fn try_into_bytes(self) -> impl Future<Output = Result<Bytes, E>> + Send {
        <Inner as Req<E, I, O>>::try_into_bytes(self.0)
    }
    fn try_into_string(self) -> impl Future<Output = Result<String, E>> + Send {
        <Inner as Req<E, I, O>>::try_into_string(self.0)
    }
    fn try_into_stream(
        self,
    ) -> Result<impl Stream<Item = Result<Bytes, Bytes>> + Send + 'static, E> {
        // /repo's stream, delivered in pieces of the size the case asks for (as a server
        // whose body arrives in transport frames would see it)
        let n = RECHUNK.with(|r| r.get()).0;
        let off = FRAME.with(|f| f.get()).0;
        <Inner as Req<E, I, O>>::try_into_stream(self.0).map(move |s| {
            s.flat_map(move |item| {
                stream::iter(
                    rechunk(vec![item], n)
                        .into_iter()
                        .map(move |c| c.map(|b| framed(&b, off)))
                        .collect::<Vec<_>>(),
                )
            })
        })
    }
    async fn try_into_websocket(
        self,
    ) -> Result<
        (
            impl Stream<Item = Result<Bytes, Bytes>> + Send + 'static,
            impl Sink<Result<Bytes, Bytes>> + Send + 'static,
            Self::WebsocketResponse,
        ),
        E,
    > {
        // an upgraded loopback connection (the harness is the platform here) ...
        if let Some((rx, tx)) = self.1 {
            let res = http::Response::builder()
                .status(101)
                .body(Body::Sync(Bytes::new()))
                .unwrap();
            return Ok::<(WsRx, WsTx, SrvRes), E>((rx, tx, res));
        }
        // ... otherwise /repo's generic request, which never upgrades
        match <Inner as Req<E, I, O>>::try_into_websocket(self.0).await {
            Err(e) => Err(e),
            Ok(_) => unreachable!("generic requests never upgrade"),
        }
    }
}

pub struct LoopServer;
impl<E, I, O> Server<E, I, O> for LoopServer
where
    E: FromServerFnError + Send + Sync,
    I: FromServerFnError + Send + Sync,
    O: FromServerFnError + Send + Sync,
{
    type Request = SrvReq;
    type Response = SrvRes;
    fn spawn(future: impl Future<Output = ()> + Send + 'static) -> Result<(), E> {
        spawn_task(future);
        Ok(())
    }
}

type Handler = ServerFnTraitObj<SrvReq, SrvRes>;
fn registry() -> &'static HashMap<(String, Method), Handler> {
    static MAP: OnceLock<HashMap<(String, Method), Handler>> = OnceLock::new();
    MAP.get_or_init(|| {
        server_fn::inventory::iter::<Handler>
            .into_iter()
            .map(|obj| ((obj.path().to_string(), obj.method()), obj.clone()))
            .collect()
    })
}

/// What an integration's `handle_server_fn` does: look the function up by (path, method) and
/// run its handler; 400 if there is none.
pub async fn serve(req: http::Request<Bytes>) -> SrvRes {
    serve_ws(req, None).await
}
pub async fn serve_ws(req: http::Request<Bytes>, ws: Option<WsEnds>) -> SrvRes {
    let key = (req.uri().path().to_string(), req.method().clone());
    match registry().get(&key) {
        // as `get_server_fn_service` + `service.run(req)` of the axum / actix integrations:
        // the handler boxed as a service, wrapped in the function's middleware layers
        Some(f) => {
            let mut service = f.clone().boxed();
            for layer in f.middleware() {
                service = layer.layer(service);
            }
            service.run(SrvReq(req, ws)).await
        }
        None => http::Response::builder()
            .status(400)
            .body(Body::Sync(Bytes::from_static(b"no server function at this route")))
            .unwrap(),
    }
}

/// A response as it travels: status, headers, body chunks (`Err` = an error frame of a stream).
#[derive(Clone, Debug)]
pub struct Wire {
    pub status: u16,
    pub headers: http::HeaderMap,
    pub chunks: Vec<Result<Bytes, Bytes>>,
}
impl Wire {
    pub fn body(&self) -> Vec<u8> {
        let mut v = vec![];
        for c in &self.chunks {
            match c {
                Ok(b) | Err(b) => v.extend_from_slice(b),
            }
        }
        v
    }
    pub fn header(&self, name: &str) -> Option<Vec<u8>> {
        self.headers.get(name).map(|v| v.as_bytes().to_vec())
    }
}

pub async fn collect(res: SrvRes) -> Wire {
    let (parts, body) = res.into_parts();
    let chunks = match body {
        Body::Sync(b) => vec![Ok(b)],
        Body::Async(mut s) => {
            let mut out = vec![];
            while let Some(item) = s.next().await {
                out.push(match item {
                    Ok(b) => Ok(b),
                    // a failed stream item travels as the text form of the error
                    Err(e) => Err(Bytes::from(e.to_string())),
                });
            }
            out
        }
    };
    Wire { status: parts.status.as_u16(), headers: parts.headers, chunks }
}

// ------------------------------------------------------------------ client side
pub enum LoopBody {
    Full(Bytes),
    Stream(Pin<Box<dyn Stream<Item = Bytes> + Send>>),
}
pub struct LoopReq {
    pub method: Method,
    pub uri: String,
    pub content_type: String,
    pub accept: String,
    pub body: LoopBody,
}
pub struct LoopRes(pub Wire);

fn new_req<E: FromServerFnError>(
    path: &str,
    query: Option<&str>,
    content_type: &str,
    accepts: &str,
    body: LoopBody,
    method: Method,
) -> Result<LoopReq, E> {
    let uri = match query {
        Some(q) => format!("{path}?{q}"),
        None => path.to_string(),
    };
    Ok(LoopReq {
        method,
        uri,
        content_type: content_type.to_string(),
        accept: accepts.to_string(),
        body,
    })
}

impl<E: FromServerFnError> ClientReq<E> for LoopReq {
    // (the multipart codec's IntoReq is only implemented for clients with this form type)
    type FormData = server_fn::request::browser::BrowserFormData;

    fn try_new_req_query(
        path: &str,
        content_type: &str,
        accepts: &str,
        query: &str,
        method: Method,
    ) -> Result<Self, E> {
        new_req(path, Some(query), content_type, accepts, LoopBody::Full(Bytes::new()), method)
    }
    fn try_new_req_text(
        path: &str,
        content_type: &str,
        accepts: &str,
        body: String,
        method: Method,
    ) -> Result<Self, E> {
        new_req(path, None, content_type, accepts, LoopBody::Full(Bytes::from(body)), method)
    }
    fn try_new_req_bytes(
        path: &str,
        content_type: &str,
        accepts: &str,
        body: Bytes,
        method: Method,
    ) -> Result<Self, E> {
        new_req(path, None, content_type, accepts, LoopBody::Full(body), method)
    }
    fn try_new_req_form_data(
        path: &str,
        accepts: &str,
        content_type: &str,
        body: Self::FormData,
        method: Method,
    ) -> Result<Self, E> {
        let _ = (path, accepts, content_type, body, method);
        Err(ServerFnErrorErr::Request("browser form data is not supported by the loopback client".into())
            .into_app_error())
    }
    fn try_new_req_multipart(
        _path: &str,
        _accepts: &str,
        _body: Self::FormData,
        _method: Method,
    ) -> Result<Self, E> {
        Err(ServerFnErrorErr::Request("multipart is not supported by the loopback client".into())
            .into_app_error())
    }
    fn try_new_req_streaming(
        path: &str,
        accepts: &str,
        content_type: &str,
        body: impl Stream<Item = Bytes> + Send + 'static,
        method: Method,
    ) -> Result<Self, E> {
        new_req(path, None, content_type, accepts, LoopBody::Stream(Box::pin(body)), method)
    }
}

impl<E: FromServerFnError> ClientRes<E> for LoopRes {
    async fn try_into_string(self) -> Result<String, E> {
        if FAULTS.with(|f| f.borrow().read_fails) {
            return Err(ServerFnErrorErr::Response("connection reset while reading the body".into())
                .into_app_error());
        }
        String::from_utf8(self.0.body()).map_err(|e| {
            ServerFnErrorErr::Deserialization(e.to_string()).into_app_error()
        })
    }
    async fn try_into_bytes(self) -> Result<Bytes, E> {
        if FAULTS.with(|f| f.borrow().read_fails) {
            return Err(ServerFnErrorErr::Response("connection reset while reading the body".into())
                .into_app_error());
        }
        Ok(framed(&self.0.body(), FRAME.with(|f| f.get()).1))
    }
    fn try_into_stream(
        self,
    ) -> Result<impl Stream<Item = Result<Bytes, Bytes>> + Send + Sync + 'static, E> {
        let off = FRAME.with(|f| f.get()).1;
        let chunks = rechunk(self.0.chunks, RECHUNK.with(|r| r.get()).1);
        Ok(stream::iter(chunks.into_iter().map(move |c| match c {
            Ok(b) => Ok(framed(&b, off)),
            Err(b) => Err(framed(&b, off)),
        })))
    }
    fn status(&self) -> u16 {
        self.0.status
    }
    fn status_text(&self) -> String {
        http::StatusCode::from_u16(self.0.status)
            .ok()
            .and_then(|s| s.canonical_reason())
            .unwrap_or("")
            .to_string()
    }
    fn location(&self) -> String {
        self.0
            .header("location")
            .map(|v| String::from_utf8_lossy(&v).into_owned())
            .unwrap_or_default()
    }
    fn has_redirect(&self) -> bool {
        self.0.headers.contains_key(server_fn::redirect::REDIRECT_HEADER)
    }
}

/// What the transport does to the bytes in flight (for the fault-injection cases).
#[derive(Clone, Debug, Default)]
pub struct Faults {
    /// replace the whole response (the request is not delivered)
    pub canned: Option<Wire>,
    /// edit of the request's payload (body, or query string when the body is empty)
    pub request: Option<Edit>,
    /// edit of the response body
    pub response: Option<Edit>,
    /// overwrite the response status
    pub status: Option<u16>,
    /// the transport fails: `Client::send` returns an error instead of a response
    pub send_fails: bool,
    /// the response arrives but its body cannot be read (`try_into_bytes`/`try_into_string` fail)
    pub read_fails: bool,
    /// websocket frames replaced in flight: (direction 0 = to the server / 1 = to the client,
    /// index of the frame in that direction, the frame delivered instead)
    pub ws_frames: Vec<(u8, usize, Result<Vec<u8>, Vec<u8>>)>,
}
#[derive(Clone, Debug)]
pub enum Edit {
    Truncate(usize),
    Flip(usize, u8),
    Splice(usize, usize, Vec<u8>),
    Replace(Vec<u8>),
}
impl Edit {
    pub fn apply(&self, v: &[u8]) -> Vec<u8> {
        let n = v.len();
        match self {
            Edit::Truncate(k) => v[..(*k).min(n)].to_vec(),
            Edit::Flip(i, m) => {
                let mut o = v.to_vec();
                if n > 0 {
                    o[*i % n] ^= *m;
                }
                o
            }
            Edit::Splice(at, del, ins) => {
                let at = (*at).min(n);
                let end = (at + *del).min(n);
                let mut o = v[..at].to_vec();
                o.extend_from_slice(ins);
                o.extend_from_slice(&v[end..]);
                o
            }
            Edit::Replace(b) => b.clone(),
        }
    }
}

/// What a transport may do to a chunked body: runs of data chunks are joined and cut into
/// pieces of `n` bytes (`n == 0`: left alone); error frames stay where they are.
pub fn rechunk(chunks: Vec<Result<Bytes, Bytes>>, n: usize) -> Vec<Result<Bytes, Bytes>> {
    if n == 0 {
        return chunks;
    }
    let mut out = vec![];
    let mut run: Vec<u8> = vec![];
    let flush = |run: &mut Vec<u8>, out: &mut Vec<Result<Bytes, Bytes>>| {
        for piece in run.chunks(n) {
            out.push(Ok(Bytes::copy_from_slice(piece)));
        }
        run.clear();
    };
    for c in chunks {
        match c {
            Ok(b) => run.extend_from_slice(&b),
            Err(e) => {
                flush(&mut run, &mut out);
                out.push(Err(e));
            }
        }
    }
    flush(&mut run, &mut out);
    out
}

/// The bytes as a framed transport hands them over: a `Bytes::slice` view that starts `off`
/// bytes after a 16-aligned address inside a larger receive buffer (header before, slack
/// after). What the view contains is exactly `data`.
pub fn framed(data: &[u8], off: usize) -> Bytes {
    let mut buf = vec![0xA5u8; data.len() + off + 48];
    let base = buf.as_ptr() as usize;
    let start = (16 - base % 16) % 16 + off;
    buf[start..start + data.len()].copy_from_slice(data);
    let whole = Bytes::from(buf);
    debug_assert_eq!(whole.as_ptr() as usize, base);
    whole.slice(start..start + data.len())
}

thread_local! {
    /// sizes at which the transport re-cuts a streamed request / response body
    /// (0 = deliver the sender's chunks as they are; n = pieces of n bytes)
    pub static RECHUNK: std::cell::Cell<(usize, usize)> = std::cell::Cell::new((0, 0));
    /// header lengths (0..=9) of the frames carrying the request and the response body
    pub static FRAME: std::cell::Cell<(usize, usize)> = std::cell::Cell::new((0, 0));
    pub static FAULTS: RefCell<Faults> = RefCell::new(Faults::default());
    /// what the server actually received / sent last (for the glue observations)
    pub static LAST_REQUEST: RefCell<Option<(String, String, Vec<(String, Vec<u8>)>, Vec<u8>)>> = RefCell::new(None);
}

pub struct LoopClient;
impl<E, I, O> Client<E, I, O> for LoopClient
where
    E: FromServerFnError + Send,
    I: FromServerFnError,
    O: FromServerFnError,
{
    type Request = LoopReq;
    type Response = LoopRes;

    async fn send(req: LoopReq) -> Result<LoopRes, E> {
        let faults = FAULTS.with(|f| f.borrow().clone());
        if let Some(w) = faults.canned {
            return Ok(LoopRes(w));
        }
        if faults.send_fails {
            return Err(ServerFnErrorErr::Request("connection refused".into()).into_app_error());
        }
        // the transport: flatten a streamed body (chunk boundaries are not preserved by HTTP)
        let mut body: Vec<u8> = match req.body {
            LoopBody::Full(b) => b.to_vec(),
            LoopBody::Stream(mut s) => {
                let mut v = vec![];
                while let Some(b) = s.next().await {
                    v.extend_from_slice(&b);
                }
                v
            }
        };
        let mut uri = req.uri.clone();
        if let Some(edit) = &faults.request {
            if body.is_empty() && uri.contains('?') {
                let (p, q) = uri.split_once('?').unwrap();
                let q2 = edit.apply(q.as_bytes());
                uri = format!("{p}?{}", String::from_utf8_lossy(&q2));
            } else {
                body = edit.apply(&body);
            }
        }
        let built = http::Request::builder()
            .method(req.method.clone())
            .uri(&uri)
            .header(http::header::CONTENT_TYPE, &req.content_type)
            .header(http::header::ACCEPT, &req.accept)
            .body(framed(&body, FRAME.with(|f| f.get()).0));
        let request = match built {
            Ok(r) => r,
            Err(e) => {
                return Err(ServerFnErrorErr::Request(e.to_string()).into_app_error());
            }
        };
        LAST_REQUEST.with(|l| {
            *l.borrow_mut() = Some((
                req.method.to_string(),
                uri.clone(),
                request
                    .headers()
                    .iter()
                    .map(|(k, v)| (k.to_string(), v.as_bytes().to_vec()))
                    .collect(),
                body,
            ))
        });
        let mut wire = collect(serve(request).await).await;
        if let Some(edit) = &faults.response {
            let b = edit.apply(&wire.body());
            wire.chunks = vec![Ok(Bytes::from(b))];
        }
        if let Some(s) = faults.status {
            wire.status = s;
        }
        Ok(LoopRes(wire))
    }

    async fn open_websocket(
        path: &str,
    ) -> Result<
        (
            impl Stream<Item = Result<Bytes, Bytes>> + Send + 'static,
            impl Sink<Result<Bytes, Bytes>> + Send + 'static,
        ),
        E,
    > {
        let faults = FAULTS.with(|f| f.borrow().clone());
        if faults.send_fails {
            return Err::<(WsRx, WsTx), E>(
                ServerFnErrorErr::Request("connection refused".into()).into_app_error(),
            );
        }
        let (c2s_tx, c2s_rx) = futures::channel::mpsc::unbounded::<Result<Bytes, Bytes>>();
        let (s2c_tx, s2c_rx) = futures::channel::mpsc::unbounded::<Result<Bytes, Bytes>>();
        let request = match http::Request::builder()
            .method(Method::GET)
            .uri(path)
            .header(http::header::UPGRADE, "websocket")
            .body(Bytes::new())
        {
            Ok(r) => r,
            Err(e) => return Err(ServerFnErrorErr::Request(e.to_string()).into_app_error()),
        };
        let (off_up, off_down) = FRAME.with(|f| f.get());
        let up = in_flight(Box::pin(c2s_rx), 0, off_up, faults.ws_frames.clone());
        let down = in_flight(Box::pin(s2c_rx), 1, off_down, faults.ws_frames);
        // the server side runs concurrently with the client (handshake included)
        let report = s2c_tx.clone();
        spawn_task(async move {
            let res = collect(serve_ws(request, Some((up, s2c_tx))).await).await;
            WS_HANDSHAKE.with(|h| h.set(res.status));
            if res.status != 101 {
                // the upgrade did not happen / the handler failed after it: the loopback
                // reports the response body as an error frame, then closes
                let _ = report.unbounded_send(Err(Bytes::from(res.body())));
            }
        });
        Ok((down, c2s_tx))
    }

    fn spawn(future: impl Future<Output = ()> + Send + 'static) {
        spawn_task(future);
    }
}

/// What the loopback websocket does to frames in flight: every frame is delivered as a
/// `Bytes::slice` view at offset `off` (as `framed`), frames named in `edits` are replaced.
fn in_flight(
    rx: WsRx,
    dir: u8,
    off: usize,
    edits: Vec<(u8, usize, Result<Vec<u8>, Vec<u8>>)>,
) -> WsRx {
    Box::pin(rx.enumerate().map(move |(i, frame)| {
        let frame = match edits.iter().find(|(d, k, _)| *d == dir && *k == i) {
            Some((_, _, Ok(b))) => Ok(Bytes::from(b.clone())),
            Some((_, _, Err(b))) => Err(Bytes::from(b.clone())),
            None => frame,
        };
        match frame {
            Ok(b) => Ok(framed(&b, off)),
            Err(b) => Err(framed(&b, off)),
        }
    }))
}

// ------------------------------------------------------------------ executor
thread_local! {
    /// tasks handed to `Client::spawn` / `Server::spawn` (and the server side of a websocket)
    static TASKS: RefCell<Vec<Pin<Box<dyn Future<Output = ()> + Send>>>> = RefCell::new(Vec::new());
    /// status of the last websocket handshake response (0 = none yet)
    pub static WS_HANDSHAKE: std::cell::Cell<u16> = std::cell::Cell::new(0);
}
pub fn spawn_task(f: impl Future<Output = ()> + Send + 'static) {
    TASKS.with(|t| t.borrow_mut().push(Box::pin(f)));
}
/// Runs `main` together with the spawned tasks on this thread, deterministically: in every
/// round the futures that are still alive are polled once each, in the order the schedule
/// names for that round (`sched[round % len]` rotates the list; 0 = main first). Returns
/// `Err` when `main` is still pending after `fuel` rounds (a lost wake-up / deadlock).
pub fn run_tasks<T>(main: impl Future<Output = T>, sched: &[usize], fuel: usize) -> Result<T, String> {
    use std::task::{Context, Poll};
    TASKS.with(|t| t.borrow_mut().clear());
    WS_HANDSHAKE.with(|h| h.set(0));
    let waker = futures::task::noop_waker();
    let mut cx = Context::from_waker(&waker);
    let mut main = Box::pin(main);
    let mut tasks: Vec<Pin<Box<dyn Future<Output = ()> + Send>>> = vec![];
    for round in 0..fuel {
        tasks.extend(TASKS.with(|t| std::mem::take(&mut *t.borrow_mut())));
        let n = tasks.len() + 1;
        let rot = if sched.is_empty() { 0 } else { sched[round % sched.len()] % n };
        let mut done = vec![];
        for k in 0..n {
            let who = (k + rot) % n;
            if who == 0 {
                if let Poll::Ready(v) = main.as_mut().poll(&mut cx) {
                    TASKS.with(|t| t.borrow_mut().clear());
                    return Ok(v);
                }
            } else if tasks[who - 1].as_mut().poll(&mut cx).is_ready() {
                done.push(who - 1);
            }
        }
        done.sort_unstable();
        for i in done.into_iter().rev() {
            drop(tasks.remove(i));
        }
    }
    TASKS.with(|t| t.borrow_mut().clear());
    Err(format!("stalled: the call did not complete within {fuel} scheduling rounds"))
}

pub fn with_faults<T>(f: Faults, run: impl FnOnce() -> T) -> T {
    FAULTS.with(|c| *c.borrow_mut() = f);
    let r = std::panic::catch_unwind(std::panic::AssertUnwindSafe(run));
    FAULTS.with(|c| *c.borrow_mut() = Faults::default());
    match r {
        Ok(v) => v,
        Err(p) => std::panic::resume_unwind(p),
    }
}

/// redirect-hook log (the hook is process-global and can be set once)
pub fn hook_log() -> &'static std::sync::Mutex<Vec<String>> {
    static LOG: OnceLock<std::sync::Mutex<Vec<String>>> = OnceLock::new();
    let log = LOG.get_or_init(|| std::sync::Mutex::new(vec![]));
    static SET: OnceLock<()> = OnceLock::new();
    SET.get_or_init(|| {
        let _ = server_fn::redirect::set_redirect_hook(|loc| {
            hook_log().lock().unwrap().push(loc.to_string());
        });
    });
    log
}
