//! ops 0..: the error wire formats of server_fn/src/error.rs, driven through the public API.
use server_fn::{
    error::{FromServerFnError, ServerFnError},
    Bytes,
};
use std::{fmt, str::FromStr};
use vsexp::{Lst, Num, Sexp};

/// A custom error type with a fallible `FromStr`: a status-like code.
#[derive(Debug, Clone, Copy, PartialEq, Eq)]
pub struct Code(pub u8);
impl fmt::Display for Code {
    fn fmt(&self, f: &mut fmt::Formatter<'_>) -> fmt::Result {
        write!(f, "{}", self.0)
    }
}
impl FromStr for Code {
    type Err = std::num::ParseIntError;
    fn from_str(s: &str) -> Result<Self, Self::Err> {
        s.parse::<u8>().map(Code)
    }
}

pub trait Cust: fmt::Debug + fmt::Display + FromStr + Clone + PartialEq + Send + Sync + 'static {
    fn from_case(payload: &Sexp) -> Self;
}
impl Cust for server_fn::error::NoCustomError {
    fn from_case(_: &Sexp) -> Self {
        server_fn::error::NoCustomError
    }
}
impl Cust for Code {
    fn from_case(p: &Sexp) -> Self {
        Code(p.at(0).num() as u8)
    }
}

pub fn text(s: &Sexp) -> String {
    s.string().expect("case strings are valid UTF-8 by construction")
}

/// (kind payload) -> ServerFnError<C>; kind 0 = WrappedServerError
pub fn err_from_case<C: Cust>(kind: i64, payload: &Sexp) -> ServerFnError<C> {
    use ServerFnError::*;
    match kind {
        0 => WrappedServerError(C::from_case(payload)),
        1 => Registration(text(payload)),
        2 => Request(text(payload)),
        3 => Response(text(payload)),
        4 => ServerError(text(payload)),
        5 => MiddlewareError(text(payload)),
        6 => Deserialization(text(payload)),
        7 => Serialization(text(payload)),
        8 => Args(text(payload)),
        9 => MissingArg(text(payload)),
        _ => ServerError(text(payload)),
    }
}

/// ServerFnError<C> -> (kind payload-bytes)
pub fn err_to_sexp<C: Cust>(e: &ServerFnError<C>) -> Sexp {
    use ServerFnError::*;
    let (k, p) = match e {
        WrappedServerError(c) => (0, c.to_string()),
        Registration(s) => (1, s.clone()),
        Request(s) => (2, s.clone()),
        Response(s) => (3, s.clone()),
        ServerError(s) => (4, s.clone()),
        MiddlewareError(s) => (5, s.clone()),
        Deserialization(s) => (6, s.clone()),
        Serialization(s) => (7, s.clone()),
        Args(s) => (8, s.clone()),
        MissingArg(s) => (9, s.clone()),
    };
    Lst(vec![Num(k), Sexp::from_str(&p)])
}

fn with_cust<C: Cust>(c: &Sexp) -> Sexp {
    match c.at(0).num() {
        // ser, then de of what was written
        0 => {
            let e: ServerFnError<C> = err_from_case(c.at(2).num(), c.at(3));
            let wire: Bytes = e.ser();
            let back = ServerFnError::<C>::de(wire.clone());
            Lst(vec![Sexp::from_bytes(&wire), err_to_sexp(&back)])
        }
        // de of arbitrary bytes
        1 => {
            let back = ServerFnError::<C>::de(Bytes::from(c.at(2).bytes()));
            err_to_sexp(&back)
        }
        _ => Lst(vec![]),
    }
}

pub fn run(c: &Sexp) -> Sexp {
    match c.at(1).num() {
        0 => with_cust::<server_fn::error::NoCustomError>(c),
        _ => with_cust::<Code>(c),
    }
}
