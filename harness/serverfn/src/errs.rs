//! ops 0..: the error wire formats of server_fn/src/error.rs, driven through the public API.
use server_fn::{
    error::{FromServerFnError, ServerFnError, ServerFnUrlError},
    Bytes,
};
use std::{fmt, str::FromStr};
use vsexp::{Lst, Num, Sexp};

/// A custom error type with a fallible `FromStr`: a status-like code.
#[derive(Debug, Clone, Copy, PartialEq, Eq)]
pub struct Code(pub u8);
impl fmt::Display for Code {
    fn fmt(&self, f: &mut fmt::Formatter<'_>) -> fmt::Result {
        write!(f, "{}", self.0)
    }
}
impl std::error::Error for Code {}
impl FromStr for Code {
    type Err = std::num::ParseIntError;
    fn from_str(s: &str) -> Result<Self, Self::Err> {
        s.parse::<u8>().map(Code)
    }
}

pub trait Cust: fmt::Debug + fmt::Display + FromStr + Clone + PartialEq + Send + Sync + 'static {
    fn from_case(payload: &Sexp) -> Self;
}
impl Cust for server_fn::error::NoCustomError {
    fn from_case(_: &Sexp) -> Self {
        server_fn::error::NoCustomError
    }
}
impl Cust for Code {
    fn from_case(p: &Sexp) -> Self {
        Code(p.at(0).num() as u8)
    }
}

pub fn text(s: &Sexp) -> String {
    s.string().expect("case strings are valid UTF-8 by construction")
}

/// (kind payload) -> ServerFnError<C>; kind 0 = WrappedServerError
pub fn err_from_case<C: Cust>(kind: i64, payload: &Sexp) -> ServerFnError<C> {
    use ServerFnError::*;
    match kind {
        0 => WrappedServerError(C::from_case(payload)),
        1 => Registration(text(payload)),
        2 => Request(text(payload)),
        3 => Response(text(payload)),
        4 => ServerError(text(payload)),
        5 => MiddlewareError(text(payload)),
        6 => Deserialization(text(payload)),
        7 => Serialization(text(payload)),
        8 => Args(text(payload)),
        9 => MissingArg(text(payload)),
        _ => ServerError(text(payload)),
    }
}

/// ServerFnError<C> -> (kind payload-bytes)
pub fn err_to_sexp<C: Cust>(e: &ServerFnError<C>) -> Sexp {
    use ServerFnError::*;
    let (k, p) = match e {
        WrappedServerError(c) => (0, c.to_string()),
        Registration(s) => (1, s.clone()),
        Request(s) => (2, s.clone()),
        Response(s) => (3, s.clone()),
        ServerError(s) => (4, s.clone()),
        MiddlewareError(s) => (5, s.clone()),
        Deserialization(s) => (6, s.clone()),
        Serialization(s) => (7, s.clone()),
        Args(s) => (8, s.clone()),
        MissingArg(s) => (9, s.clone()),
    };
    Lst(vec![Num(k), Sexp::from_str(&p)])
}

fn with_cust<C: Cust>(c: &Sexp) -> Sexp {
    match c.at(0).num() {
        // ser, then de of what was written
        0 => {
            let e: ServerFnError<C> = err_from_case(c.at(2).num(), c.at(3));
            let wire: Bytes = e.ser();
            let back = ServerFnError::<C>::de(wire.clone());
            Lst(vec![Sexp::from_bytes(&wire), err_to_sexp(&back)])
        }
        // de of arbitrary bytes
        1 => {
            let back = ServerFnError::<C>::de(Bytes::from(c.at(2).bytes()));
            err_to_sexp(&back)
        }
        // URL form: ServerFnUrlError::to_url, then what the client side reads back
        // (the last __path / __err query pair, decode_err)
        4 => {
            let e: ServerFnError<C> = err_from_case(c.at(2).num(), c.at(3));
            let path = text(c.at(4));
            let base = url_string(c.at(5), c.at(6), c.at(7));
            let url = match ServerFnUrlError::new(&path, e).to_url(&base) {
                Ok(u) => u,
                Err(err) => return Lst(vec![Num(-1), Sexp::from_str(&err.to_string())]),
            };
            let s = url.as_str().to_string();
            let parsed = url::Url::parse(&s).expect("to_url produced an unparsable URL");
            let mut p_back = None;
            let mut e_back = None;
            for (k, v) in parsed.query_pairs() {
                if k == "__path" {
                    p_back = Some(v.to_string());
                } else if k == "__err" {
                    e_back = Some(v.to_string());
                }
            }
            Lst(vec![
                Sexp::from_str(&s),
                opt(p_back.map(|p| Sexp::from_str(&p))),
                opt(e_back.map(|v| {
                    err_to_sexp(&ServerFnUrlError::<ServerFnError<C>>::decode_err(&v))
                })),
            ])
        }
        5 => {
            let back = ServerFnUrlError::<ServerFnError<C>>::decode_err(&text(c.at(2)));
            err_to_sexp(&back)
        }
        // the library's own error kinds converted into the application's error type
        16 => {
            use server_fn::error::ServerFnErrorErr as K;
            let m = text(c.at(3));
            let e = match c.at(2).num() {
                1 => K::Registration(m),
                2 => K::Request(m),
                3 => K::Response(m),
                4 => K::ServerError(m),
                5 => K::MiddlewareError(m),
                6 => K::Deserialization(m),
                7 => K::Serialization(m),
                8 => K::Args(m),
                9 => K::MissingArg(m),
                _ => K::UnsupportedRequestMethod(m),
            };
            err_to_sexp(&ServerFnError::<C>::from_server_fn_error(e))
        }
        _ => Lst(vec![]),
    }
}

// ---------------------------------------------------------------- ops 23..26 (coverage audit)
/// every error type of the harness, built from a case and shown as a sexp
pub trait CaseErr: FromServerFnError + Clone {
    fn of_case(a: &Sexp, b: &Sexp) -> Self;
    fn shown(&self) -> Sexp;
}
impl<C: Cust> CaseErr for ServerFnError<C> {
    fn of_case(a: &Sexp, b: &Sexp) -> Self {
        err_from_case(a.num(), b)
    }
    fn shown(&self) -> Sexp {
        err_to_sexp(self)
    }
}
macro_rules! case_err_lib {
    ($($t:ty),*) => {$(
        impl CaseErr for $t {
            fn of_case(a: &Sexp, _: &Sexp) -> Self {
                let p = crate::fns::eplan_of(a);
                match p.variant {
                    1 => Self::NotFound { id: p.id, what: p.what },
                    2 => Self::Code(p.code),
                    3 => Self::Many(p.many),
                    _ => Self::Lib(crate::fns::lib_err(p.kind, p.what)),
                }
            }
            fn shown(&self) -> Sexp {
                self.sexp()
            }
        }
    )*};
}
case_err_lib!(crate::fns::AppErrJson, crate::fns::AppErrCbor, crate::fns::AppErrMsgPack, crate::fns::AppErrPostcard);
macro_rules! case_err_k {
    ($($t:ty),*) => {$(
        impl CaseErr for $t {
            fn of_case(a: &Sexp, _: &Sexp) -> Self {
                let p = crate::fns::eplan_of(a);
                match p.variant {
                    1 => Self::NotFound { id: p.id, what: p.what },
                    2 => Self::Code(p.code),
                    3 => Self::Many(p.many),
                    _ => Self::Lib { kind: p.kind, msg: p.what },
                }
            }
            fn shown(&self) -> Sexp {
                self.sexp()
            }
        }
    )*};
}
case_err_k!(crate::more::AppErrRkyv, crate::more::AppErrSerdeLite);

fn with_err<E: CaseErr>(c: &Sexp) -> Sexp {
    use server_fn::error::ServerFnErrorWrapper as W;
    match c.at(0).num() {
        // the string form of an error (Display of the wrapper), read back with FromStr
        23 => {
            let e = E::of_case(c.at(2), c.at(3));
            let s = W(e).to_string();
            let back = s.parse::<W<E>>().expect("FromStr of the wrapper never fails").0;
            Lst(vec![Sexp::from_str(&s), back.shown()])
        }
        24 => text(c.at(2)).parse::<W<E>>().expect("FromStr of the wrapper never fails").0.shown(),
        // the URL form for any error type; the base may be a relative reference
        26 => {
            let e = E::of_case(c.at(2), c.at(3));
            let path = text(c.at(4));
            let base = url_string(c.at(5), c.at(6), c.at(7));
            let ue = ServerFnUrlError::new(&path, e);
            let acc = Lst(vec![Sexp::from_str(ue.path()), ue.error().shown()]);
            let url = match ue.to_url(&base) {
                Ok(u) => u,
                Err(err) => return Lst(vec![Num(-1), Sexp::from_str(&err.to_string()), acc]),
            };
            let s = url.as_str().to_string();
            let parsed = url::Url::parse(&s).expect("to_url produced an unparsable URL");
            let mut p_back = None;
            let mut e_back = None;
            for (k, v) in parsed.query_pairs() {
                if k == "__path" {
                    p_back = Some(v.to_string());
                } else if k == "__err" {
                    e_back = Some(v.to_string());
                }
            }
            Lst(vec![
                Sexp::from_str(&s),
                opt(p_back.map(|p| Sexp::from_str(&p))),
                opt(e_back.map(|v| ServerFnUrlError::<E>::decode_err(&v).shown())),
                acc,
            ])
        }
        _ => Lst(vec![]),
    }
}
fn any_err(c: &Sexp) -> Sexp {
    match c.at(1).num() {
        0 => {
            // `From<ServerFnError> for throw_error::Error` (what an ErrorBoundary shows)
            if c.at(0).num() == 23 && c.at(4).num() == 1 {
                let e: ServerFnError = err_from_case(c.at(2).num(), c.at(3));
                let s = throw_error::Error::from(e).to_string();
                let back = s
                    .parse::<server_fn::error::ServerFnErrorWrapper<ServerFnError>>()
                    .expect("FromStr of the wrapper never fails")
                    .0;
                return Lst(vec![Sexp::from_str(&s), err_to_sexp(&back)]);
            }
            // the two conversions out of a ServerFnUrlError
            if c.at(0).num() == 26 && c.at(8).num() == 1 {
                let e: ServerFnError<Code> = err_from_case(c.at(2).num(), c.at(3));
                let ue = ServerFnUrlError::new(text(c.at(4)), e);
                let back: ServerFnError<Code> = ue.into();
                return Lst(vec![Num(-2), err_to_sexp(&back)]);
            }
            with_err::<ServerFnError>(c)
        }
        1 => with_err::<ServerFnError<Code>>(c),
        2 => with_err::<crate::fns::AppErrJson>(c),
        3 => with_err::<crate::fns::AppErrCbor>(c),
        4 => with_err::<crate::fns::AppErrMsgPack>(c),
        5 => with_err::<crate::fns::AppErrPostcard>(c),
        6 => with_err::<crate::more::AppErrRkyv>(c),
        _ => with_err::<crate::more::AppErrSerdeLite>(c),
    }
}
/// (25 enc mode data): `FormatType::{into_encoded_string, from_encoded_string}` of every encoding
fn format_type(c: &Sexp) -> Sexp {
    use server_fn::{
        codec::{CborEncoding, JsonEncoding, MsgPackEncoding, PostcardEncoding, RkyvEncoding, SerdeLiteEncoding},
        error::ServerFnErrorEncoding,
        FormatType,
    };
    fn go<F: FormatType>(c: &Sexp) -> Sexp {
        if c.at(2).num() == 0 {
            let w = F::into_encoded_string(Bytes::from(c.at(3).bytes()));
            let back = F::from_encoded_string(&w);
            Lst(vec![Sexp::from_str(&w), b64_result(back)])
        } else {
            b64_result(F::from_encoded_string(&text(c.at(3))))
        }
    }
    match c.at(1).num() {
        0 => go::<JsonEncoding>(c),
        1 => go::<SerdeLiteEncoding>(c),
        2 => go::<ServerFnErrorEncoding>(c),
        3 => go::<CborEncoding>(c),
        4 => go::<MsgPackEncoding>(c),
        5 => go::<PostcardEncoding>(c),
        _ => go::<RkyvEncoding>(c),
    }
}

fn opt(o: Option<Sexp>) -> Sexp {
    Lst(o.into_iter().collect())
}

/// pre ++ ?query ++ #fragment
pub fn url_string(pre: &Sexp, q: &Sexp, f: &Sexp) -> String {
    let mut s = text(pre);
    if let Some(q) = q.list().first() {
        s.push('?');
        s.push_str(&text(q));
    }
    if let Some(f) = f.list().first() {
        s.push('#');
        s.push_str(&text(f));
    }
    s
}

fn b64_result(r: Result<Bytes, impl fmt::Display>) -> Sexp {
    match r {
        Ok(b) => Lst(vec![Num(0), Sexp::from_bytes(&b)]),
        Err(e) => Lst(vec![Num(1), Sexp::from_str(&e.to_string())]),
    }
}

pub fn run(c: &Sexp) -> Sexp {
    use server_fn::{codec::CborEncoding, FormatType};
    match c.at(0).num() {
        // FormatType::Binary: STANDARD_NO_PAD text form of binary-encoded values
        2 => {
            let w = CborEncoding::into_encoded_string(Bytes::from(c.at(1).bytes()));
            let back = CborEncoding::from_encoded_string(&w);
            Lst(vec![Sexp::from_str(&w), b64_result(back)])
        }
        3 => b64_result(CborEncoding::from_encoded_string(&text(c.at(1)))),
        23 | 24 | 26 => any_err(c),
        25 => format_type(c),
        6 => {
            let mut s = url_string(c.at(1), c.at(2), c.at(3));
            ServerFnUrlError::<ServerFnError>::strip_error_info(&mut s);
            Sexp::from_str(&s)
        }
        _ => match c.at(1).num() {
            0 => with_cust::<server_fn::error::NoCustomError>(c),
            _ => with_cust::<Code>(c),
        },
    }
}
