//! (coverage audit) further server functions: error types carried by the Rkyv and SerdeLite
//! encoders, an error that its encoder cannot encode, value types of every serde representation
//! class (op 27), values at size boundaries (op 28), byte streams with error items (op 33), a
//! text stream with a custom error type (op 34), bodies that fail through `?` / the
//! constructors of error.rs (op 35).
use crate::{
    errs::{err_to_sexp, text, Code},
    fns::{chunk_of, eplan_of, fnv, lib_err, runs, set_frame, set_rechunk, u64_of, u64_to, EPlan, Inner, Key},
    looprt::{LoopClient, LoopServer},
};
use bytes::Bytes;
use futures::{stream, StreamExt};
use server_fn::{
    codec::{
        ByteStream, Cbor, Json, JsonEncoding, MsgPack, PatchCbor, PatchJson, PatchMsgPack,
        PatchPostcard, Postcard, PutCbor, PutJson, PutMsgPack, PutPostcard, PutRkyv, Rkyv,
        RkyvEncoding, SerdeLite, SerdeLiteEncoding, Streaming, StreamingText, TextStream,
        GetUrl, PostUrl, DeleteUrl, PatchUrl, PutUrl, PatchRkyv, PatchSerdeLite, PutSerdeLite,
    },
    error::{FromServerFnError, ServerFnError, ServerFnErrorErr},
    ServerFn,
};
use server_fn_macro_default::server;
use std::collections::{BTreeMap, HashMap};
use vsexp::{Lst, Num, Sexp};

fn block<T>(f: impl std::future::Future<Output = T>) -> T {
    futures::executor::block_on(f)
}
fn kind_of(e: &ServerFnErrorErr) -> (u8, String) {
    use ServerFnErrorErr as K;
    match e {
        K::Registration(m) => (1, m.clone()),
        K::Request(m) => (2, m.clone()),
        K::Response(m) => (3, m.clone()),
        K::ServerError(m) => (4, m.clone()),
        K::MiddlewareError(m) => (5, m.clone()),
        K::Deserialization(m) => (6, m.clone()),
        K::Serialization(m) => (7, m.clone()),
        K::Args(m) => (8, m.clone()),
        K::MissingArg(m) => (9, m.clone()),
        K::UnsupportedRequestMethod(m) => (10, m.clone()),
    }
}

fn sfe(kind: u8, msg: String) -> ServerFnError {
    use ServerFnError::*;
    match kind {
        1 => Registration(msg),
        2 => Request(msg),
        3 => Response(msg),
        4 => ServerError(msg),
        5 => MiddlewareError(msg),
        6 => Deserialization(msg),
        7 => Serialization(msg),
        8 => Args(msg),
        _ => MissingArg(msg),
    }
}

// ---------------------------------------------------------------- error types (Rkyv, SerdeLite)
macro_rules! app_err_k {
    ($err:ident, $enc:ty, [$($derive:path),*]) => {
        /// an application error type carried by its own encoding (library errors kept as kind + text)
        #[derive(Clone, Debug, PartialEq, $($derive),*)]
        pub enum $err {
            Lib { kind: u8, msg: String },
            NotFound { id: u64, what: String },
            Code(u32),
            Many(Vec<u8>),
        }
        impl std::fmt::Display for $err {
            fn fmt(&self, f: &mut std::fmt::Formatter<'_>) -> std::fmt::Result {
                write!(f, "{self:?}")
            }
        }
        impl FromServerFnError for $err {
            type Encoder = $enc;
            fn from_server_fn_error(e: ServerFnErrorErr) -> Self {
                let (kind, msg) = kind_of(&e);
                Self::Lib { kind, msg }
            }
        }
        impl $err {
            pub fn sexp(&self) -> Sexp {
                match self {
                    Self::Lib { kind, msg } => {
                        Lst(vec![Num(4), Lst(vec![Num(*kind as i64), Sexp::from_str(msg)])])
                    }
                    Self::NotFound { id, what } => Lst(vec![Num(1), u64_to(*id), Sexp::from_str(what)]),
                    Self::Code(c) => Lst(vec![Num(2), Num(*c as i64)]),
                    Self::Many(b) => Lst(vec![Num(3), Sexp::from_bytes(b)]),
                }
            }
            pub fn show(r: Result<u32, Self>) -> Sexp {
                match r {
                    Ok(n) => Lst(vec![Num(0), Num(n as i64)]),
                    Err(e) => Lst(vec![Num(1), e.sexp()]),
                }
            }
            pub fn of_plan(plan: EPlan) -> Result<u32, Self> {
                match plan.variant {
                    0 => Ok(plan.code),
                    1 => Err(Self::NotFound { id: plan.id, what: plan.what }),
                    2 => Err(Self::Code(plan.code)),
                    3 => Err(Self::Many(plan.many)),
                    _ => Err(Self::Lib { kind: plan.kind, msg: plan.what }),
                }
            }
        }
    };
}
app_err_k!(AppErrRkyv, RkyvEncoding, [rkyv::Archive, rkyv::Serialize, rkyv::Deserialize]);
app_err_k!(AppErrSerdeLite, SerdeLiteEncoding, [serde_lite::Serialize, serde_lite::Deserialize]);

#[server(input = Json, output = Json, client = LoopClient, server = LoopServer)]
pub async fn e_rkyv(plan: EPlan) -> Result<u32, AppErrRkyv> {
    AppErrRkyv::of_plan(plan)
}
#[server(input = Json, output = Json, client = LoopClient, server = LoopServer)]
pub async fn e_serdelite(plan: EPlan) -> Result<u32, AppErrSerdeLite> {
    AppErrSerdeLite::of_plan(plan)
}
#[server(input = PutCbor, output = PutRkyv, client = LoopClient, server = LoopServer)]
pub async fn e_rkyv_put(plan: EPlan) -> Result<u32, AppErrRkyv> {
    AppErrRkyv::of_plan(plan)
}

/// an error value its own (JSON) encoder cannot encode: a map with struct keys
#[derive(Clone, Debug, PartialEq, serde::Serialize, serde::Deserialize)]
pub enum AppErrBadKeys {
    Lib(ServerFnErrorErr),
    Bad(HashMap<Key, u32>),
}
impl std::fmt::Display for AppErrBadKeys {
    fn fmt(&self, f: &mut std::fmt::Formatter<'_>) -> std::fmt::Result {
        write!(f, "{self:?}")
    }
}
impl FromServerFnError for AppErrBadKeys {
    type Encoder = JsonEncoding;
    fn from_server_fn_error(e: ServerFnErrorErr) -> Self {
        Self::Lib(e)
    }
}
#[server(input = Json, output = Json, client = LoopClient, server = LoopServer)]
pub async fn e_badkeys(n: u8) -> Result<u32, AppErrBadKeys> {
    Err(AppErrBadKeys::Bad((0..n).map(|a| (Key { a }, a as u32)).collect()))
}
pub fn badkeys(n: u8) -> Sexp {
    let show = |r: Result<u32, AppErrBadKeys>| match r {
        Ok(v) => Lst(vec![Num(0), Num(v as i64)]),
        Err(AppErrBadKeys::Lib(e)) => Lst(vec![Num(1), crate::fns::lib_err_to(&e)]),
        Err(AppErrBadKeys::Bad(m)) => Lst(vec![Num(1), Lst(vec![Num(-1), Num(m.len() as i64)])]),
    };
    show(block(EBadkeys { n }.run_on_client()))
}

// ---------------------------------------------------------------- op 27: representation classes
#[derive(Clone, Debug, PartialEq, serde::Serialize, serde::Deserialize)]
pub enum Shape {
    Unit,
    New(i64),
    Tup(u8, String),
    Rec { a: Option<u8>, b: Vec<u8> },
}
#[derive(Clone, Debug, PartialEq, Default, serde::Serialize, serde::Deserialize)]
pub struct Empty {}
#[derive(Clone, Debug, PartialEq, serde::Serialize, serde::Deserialize)]
pub struct Zoo {
    pub shape: Shape,
    pub shapes: Vec<Shape>,
    pub pair: (i32, String),
    pub map: BTreeMap<String, u32>,
    pub ch: char,
    pub big: u128,
    pub sbig: i128,
    pub f: f32,
    pub unit: (),
    pub bytes: Vec<u8>,
    pub empty: Empty,
    pub res: Result<u8, String>,
    pub arr: [u16; 3],
}
fn zoo_body(mut z: Zoo, fail: u8) -> Result<Zoo, ServerFnError> {
    if fail != 0 {
        return Err(ServerFnError::ServerError(format!("{:?}", z.shape)));
    }
    z.shapes.reverse();
    z.pair.0 = z.pair.0.wrapping_add(1);
    z.bytes.reverse();
    Ok(z)
}
macro_rules! zfn {
    ($name:ident, $i:ident, $o:ident) => {
        #[server(input = $i, output = $o, client = LoopClient, server = LoopServer)]
        pub async fn $name(z: Zoo, fail: u8) -> Result<Zoo, ServerFnError> {
            zoo_body(z, fail)
        }
    };
}
zfn!(z_json, Json, Json);
zfn!(z_cbor, Cbor, Cbor);
zfn!(z_msgpack, MsgPack, MsgPack);
zfn!(z_postcard, Postcard, Postcard);
zfn!(z_patchjson_putcbor, PatchJson, PutCbor);
zfn!(z_putmsgpack_patchpostcard, PutMsgPack, PatchPostcard);
zfn!(z_patchcbor_putjson, PatchCbor, PutJson);
zfn!(z_putpostcard_patchmsgpack, PutPostcard, PatchMsgPack);
type ZR = Result<Zoo, ServerFnError>;
macro_rules! ztable {
    ($($name:ident / $strct:ident),* $(,)?) => {
        pub const ZOO_FNS: &[(fn(Zoo, u8) -> ZR, fn(Zoo, u8) -> ZR)] = &[
            $((|z, fail| block($strct { z, fail }.run_on_client()), |z, fail| block($name(z, fail)))),*
        ];
    };
}
ztable!(
    z_json / ZJson, z_cbor / ZCbor, z_msgpack / ZMsgpack, z_postcard / ZPostcard,
    z_patchjson_putcbor / ZPatchjsonPutcbor, z_putmsgpack_patchpostcard / ZPutmsgpackPatchpostcard,
    z_patchcbor_putjson / ZPatchcborPutjson, z_putpostcard_patchmsgpack / ZPutpostcardPatchmsgpack,
);
fn shape_of(s: &Sexp) -> Shape {
    match s.at(0).num() {
        0 => Shape::Unit,
        1 => Shape::New(u64_of(s.at(1)) as i64),
        2 => Shape::Tup(s.at(1).num() as u8, text(s.at(2))),
        _ => Shape::Rec { a: s.at(1).list().first().map(|x| x.num() as u8), b: s.at(2).bytes() },
    }
}
fn shape_to(s: &Shape) -> Sexp {
    match s {
        Shape::Unit => Lst(vec![Num(0)]),
        Shape::New(n) => Lst(vec![Num(1), u64_to(*n as u64)]),
        Shape::Tup(a, b) => Lst(vec![Num(2), Num(*a as i64), Sexp::from_str(b)]),
        Shape::Rec { a, b } => Lst(vec![
            Num(3),
            Lst(a.iter().map(|x| Num(*x as i64)).collect()),
            Sexp::from_bytes(b),
        ]),
    }
}
fn u128_of(s: &Sexp) -> u128 {
    ((u64_of(s.at(0)) as u128) << 64) | u64_of(s.at(1)) as u128
}
fn u128_to(v: u128) -> Sexp {
    Lst(vec![u64_to((v >> 64) as u64), u64_to(v as u64)])
}
fn zoo_of(s: &Sexp) -> Zoo {
    Zoo {
        shape: shape_of(s.at(0)),
        shapes: s.at(1).list().iter().map(shape_of).collect(),
        pair: (s.at(2).at(0).num() as i32, text(s.at(2).at(1))),
        map: s.at(3).list().iter().map(|kv| (text(kv.at(0)), kv.at(1).num() as u32)).collect(),
        ch: char::from_u32(s.at(4).num() as u32).unwrap_or('?'),
        big: u128_of(s.at(5)),
        sbig: u128_of(s.at(6)) as i128,
        f: f32::from_bits(s.at(7).num() as u32),
        unit: (),
        bytes: s.at(8).bytes(),
        empty: Empty {},
        res: match s.at(9).at(0).num() {
            0 => Ok(s.at(9).at(1).num() as u8),
            _ => Err(text(s.at(9).at(1))),
        },
        arr: [s.at(10).at(0).num() as u16, s.at(10).at(1).num() as u16, s.at(10).at(2).num() as u16],
    }
}
fn zoo_to(z: &Zoo) -> Sexp {
    Lst(vec![
        shape_to(&z.shape),
        Lst(z.shapes.iter().map(shape_to).collect()),
        Lst(vec![Num(z.pair.0 as i64), Sexp::from_str(&z.pair.1)]),
        Lst(z.map.iter().map(|(k, v)| Lst(vec![Sexp::from_str(k), Num(*v as i64)])).collect()),
        Num(z.ch as u32 as i64),
        u128_to(z.big),
        u128_to(z.sbig as u128),
        Num(z.f.to_bits() as i64),
        Sexp::from_bytes(&z.bytes),
        match &z.res {
            Ok(v) => Lst(vec![Num(0), Num(*v as i64)]),
            Err(m) => Lst(vec![Num(1), Sexp::from_str(m)]),
        },
        Lst(z.arr.iter().map(|x| Num(*x as i64)).collect()),
    ])
}

// ---------------------------------------------------------------- op 28: sizes
#[derive(
    Clone, Debug, PartialEq, serde::Serialize, serde::Deserialize, serde_lite::Serialize, serde_lite::Deserialize,
    rkyv::Archive, rkyv::Serialize, rkyv::Deserialize,
)]
pub struct Big {
    pub s: String,
    pub nums: Vec<u32>,
    pub items: Vec<Inner>,
    pub bytes: Vec<u8>,
    pub strs: Vec<String>,
}
fn big_body(mut b: Big) -> Result<Big, ServerFnError> {
    b.s.push('~');
    b.nums.reverse();
    b.items.reverse();
    for x in b.bytes.iter_mut() {
        *x = x.wrapping_add(1);
    }
    Ok(b)
}
macro_rules! bfn {
    ($name:ident, $i:ident, $o:ident) => {
        #[server(input = $i, output = $o, client = LoopClient, server = LoopServer)]
        pub async fn $name(b: Big) -> Result<Big, ServerFnError> {
            big_body(b)
        }
    };
}
bfn!(b_json, Json, Json);
bfn!(b_cbor, Cbor, Cbor);
bfn!(b_msgpack, MsgPack, MsgPack);
bfn!(b_postcard, Postcard, Postcard);
bfn!(b_rkyv, Rkyv, Rkyv);
bfn!(b_serdelite, SerdeLite, SerdeLite);
bfn!(b_posturl, PostUrl, Json);
bfn!(b_geturl, GetUrl, Json);
bfn!(b_deleteurl, DeleteUrl, Cbor);
bfn!(b_patchurl, PatchUrl, MsgPack);
bfn!(b_puturl, PutUrl, Postcard);
#[server(input = PatchRkyv, output = PutRkyv, client = LoopClient, server = LoopServer,
         input_derive = (Clone, rkyv::Archive, rkyv::Serialize, rkyv::Deserialize))]
pub async fn b_patchrkyv(b: Big) -> Result<Big, ServerFnError> {
    big_body(b)
}
#[server(input = PatchSerdeLite, output = PutSerdeLite, client = LoopClient, server = LoopServer,
         input_derive = (Clone, serde_lite::Serialize, serde_lite::Deserialize))]
pub async fn b_patchserdelite(b: Big) -> Result<Big, ServerFnError> {
    big_body(b)
}
type BR = Result<Big, ServerFnError>;
macro_rules! btable {
    ($($name:ident / $strct:ident),* $(,)?) => {
        pub const BIG_FNS: &[(fn(Big) -> BR, fn(Big) -> BR)] = &[
            $((|b| block($strct { b }.run_on_client()), |b| block($name(b)))),*
        ];
    };
}
btable!(
    b_json / BJson, b_cbor / BCbor, b_msgpack / BMsgpack, b_postcard / BPostcard, b_rkyv / BRkyv,
    b_serdelite / BSerdelite, b_posturl / BPosturl, b_geturl / BGeturl, b_deleteurl / BDeleteurl,
    b_patchurl / BPatchurl, b_puturl / BPuturl, b_patchrkyv / BPatchrkyv,
    b_patchserdelite / BPatchserdelite,
);
/// a Big is described by run lengths: (string segments) (n first step) (n item-label-length) (n byte) (n each-len)
fn big_of(s: &Sexp) -> Big {
    let n = |x: &Sexp| x.num().clamp(0, 200_000) as usize;
    let nums = s.at(1);
    let items = s.at(2);
    let bytes = s.at(3);
    let strs = s.at(4);
    Big {
        s: String::from_utf8(chunk_of(s.at(0))).expect("case strings are valid UTF-8 by construction"),
        nums: (0..n(nums.at(0)) as u32)
            .map(|i| (nums.at(1).num() as u32).wrapping_add(i.wrapping_mul(nums.at(2).num() as u32)))
            .collect(),
        items: (0..n(items.at(0)))
            .map(|i| Inner {
                x: i as i32,
                label: "l".repeat(n(items.at(1))),
                opt: if i % 2 == 0 { None } else { Some(i.to_string()) },
            })
            .collect(),
        bytes: (0..n(bytes.at(0))).map(|i| (bytes.at(1).num() as usize + i) as u8).collect(),
        strs: (0..n(strs.at(0))).map(|i| "s".repeat(n(strs.at(1)) + i % 2)).collect(),
    }
}
fn big_to(r: &BR) -> Sexp {
    match r {
        Ok(b) => {
            let mut h = vec![];
            for i in &b.items {
                h.extend_from_slice(&i.x.to_le_bytes());
                h.extend_from_slice(i.label.as_bytes());
                h.push(0xff);
                if let Some(o) = &i.opt {
                    h.extend_from_slice(o.as_bytes());
                }
                h.push(0xfe);
            }
            let mut hs = vec![];
            for s in &b.strs {
                hs.extend_from_slice(s.as_bytes());
                hs.push(0xff);
            }
            let nums: Vec<u8> = b.nums.iter().flat_map(|x| x.to_le_bytes()).collect();
            Lst(vec![
                Num(0),
                Lst(vec![
                    Lst(vec![Num(b.s.len() as i64), u64_to(fnv(b.s.as_bytes()))]),
                    Lst(vec![Num(b.nums.len() as i64), u64_to(fnv(&nums))]),
                    Lst(vec![Num(b.items.len() as i64), u64_to(fnv(&h))]),
                    Lst(vec![Num(b.bytes.len() as i64), u64_to(fnv(&b.bytes))]),
                    Lst(vec![Num(b.strs.len() as i64), u64_to(fnv(&hs))]),
                ]),
            ])
        }
        Err(e) => Lst(vec![Num(1), err_to_sexp(e)]),
    }
}

// ---------------------------------------------------------------- op 33: byte stream with error items
/// `ByteStream::new` over a stream of results: an item (1 kind msg) is an error frame carrying
/// that error's wire form
#[server(input = Json, output = Streaming, client = LoopClient, server = LoopServer)]
pub async fn emit_items(items: Vec<(u8, Vec<u8>)>) -> Result<ByteStream, ServerFnError> {
    Ok(ByteStream::new(stream::iter(items.into_iter().map(|(kind, data)| {
        if kind == 0 {
            Ok(Bytes::from(data))
        } else {
            Err(sfe(kind, String::from_utf8_lossy(&data).into_owned()).ser())
        }
    }))))
}

// ---------------------------------------------------------------- op 34: TextStream<custom error>
pub use crate::fns::AppErrJson;
#[server(input = Cbor, output = StreamingText, client = LoopClient, server = LoopServer)]
pub async fn text_out_app(chunks: Vec<String>) -> Result<TextStream<AppErrJson>, AppErrJson> {
    if chunks.first().map(|c| c.starts_with("E!")).unwrap_or(false) {
        return Err(AppErrJson::Code(chunks.len() as u32));
    }
    Ok(TextStream::new(stream::iter(chunks.into_iter().map(|chunk| {
        let b = chunk.as_bytes();
        if b.len() >= 2 && b[0] == b'!' && (b'1'..=b'9').contains(&b[1]) {
            Err(AppErrJson::Lib(lib_err(b[1] - b'0', chunk[2..].to_string())))
        } else if b.first() == Some(&b'?') {
            Err(AppErrJson::NotFound { id: b.len() as u64, what: chunk[1..].to_string() })
        } else {
            Ok(chunk.to_ascii_uppercase())
        }
    }))))
}
fn sum_text_app(r: Result<TextStream<AppErrJson>, AppErrJson>) -> Sexp {
    match r {
        Ok(s) => {
            let items: Vec<Result<String, AppErrJson>> = block(s.into_inner().collect());
            Lst(vec![
                Num(0),
                runs(items.into_iter().map(|i| match i {
                    Ok(s) => Ok(s.into_bytes()),
                    Err(e) => Err(e.sexp()),
                })),
            ])
        }
        Err(e) => Lst(vec![Num(1), e.sexp()]),
    }
}

// ---------------------------------------------------------------- op 35: `?` and the constructors
#[derive(Debug, Clone)]
pub struct Boom(pub String);
impl std::fmt::Display for Boom {
    fn fmt(&self, f: &mut std::fmt::Formatter<'_>) -> std::fmt::Result {
        write!(f, "boom: {}", self.0)
    }
}
impl std::error::Error for Boom {}
/// how = 0 `?` on a std error (From<E: Error>), 1 `ServerFnError::new`, other: Ok
/// (`server_fn_error!()` without argument does not compile: it names `$crate::ViaError`)
#[allow(deprecated)]
#[server(input = Json, output = Json, client = LoopClient, server = LoopServer)]
pub async fn q_std(how: u8, s: String) -> Result<i64, ServerFnError> {
    match how {
        0 => Ok(s.parse::<i64>()?),
        1 => Err(ServerFnError::new(Boom(s))),
        _ => Ok(s.len() as i64),
    }
}
/// how = 0 `?` on the custom error (From<CustErr>), 1 `server_fn_error!(E: Error + Clone)`
#[allow(deprecated)]
#[server(input = Cbor, output = Json, client = LoopClient, server = LoopServer)]
pub async fn q_code(how: u8, n: u8) -> Result<i64, ServerFnError<Code>> {
    fn inner(n: u8) -> Result<i64, Code> {
        Err(Code(n))
    }
    use server_fn::server_fn_error;
    match how {
        0 => Ok(inner(n)?),
        1 => Err(server_fn_error!(Code(n))),
        _ => Ok(n as i64),
    }
}

// ---------------------------------------------------------------- driving
pub fn run(c: &Sexp) -> Sexp {
    match c.at(0).num() {
        27 => {
            let (remote, direct) = ZOO_FNS[c.at(1).num() as usize % ZOO_FNS.len()];
            let z = zoo_of(c.at(2));
            let fail = c.at(3).num() as u8;
            set_frame(c.at(4));
            let show = |r: ZR| match r {
                Ok(z) => Lst(vec![Num(0), zoo_to(&z)]),
                Err(e) => Lst(vec![Num(1), err_to_sexp(&e)]),
            };
            Lst(vec![show(remote(z.clone(), fail)), show(direct(z, fail))])
        }
        28 => {
            let (remote, direct) = BIG_FNS[c.at(1).num() as usize % BIG_FNS.len()];
            let b = big_of(c.at(2));
            set_frame(c.at(3));
            Lst(vec![big_to(&remote(b.clone())), big_to(&direct(b))])
        }
        33 => {
            let items: Vec<(u8, Vec<u8>)> =
                c.at(1).list().iter().map(|i| (i.at(0).num() as u8, chunk_of(i.at(1)))).collect();
            set_rechunk(c.at(2));
            let sum = |r: Result<ByteStream, ServerFnError>| match r {
                Ok(s) => {
                    let items: Vec<Result<Bytes, Bytes>> = block(s.into_inner().collect());
                    Lst(vec![
                        Num(0),
                        runs(items.into_iter().map(|i| match i {
                            Ok(b) => Ok(b.to_vec()),
                            // an error frame carries an error's wire form: show the error
                            Err(b) => Err(err_to_sexp(&ServerFnError::<server_fn::error::NoCustomError>::de(b))),
                        })),
                    ])
                }
                Err(e) => Lst(vec![Num(1), err_to_sexp(&e)]),
            };
            let remote = sum(block(EmitItems { items: items.clone() }.run_on_client()));
            let direct = sum(block(emit_items(items)));
            Lst(vec![remote, direct])
        }
        34 => {
            let chunks: Vec<String> = c
                .at(1)
                .list()
                .iter()
                .map(|s| String::from_utf8(chunk_of(s)).expect("case strings are valid UTF-8 by construction"))
                .collect();
            set_rechunk(c.at(2));
            let remote = sum_text_app(block(TextOutApp { chunks: chunks.clone() }.run_on_client()));
            let direct = sum_text_app(block(text_out_app(chunks)));
            Lst(vec![remote, direct])
        }
        35 => {
            let how = c.at(2).num() as u8;
            match c.at(1).num() {
                0 => {
                    let s = text(c.at(3));
                    let show = |r: Result<i64, ServerFnError>| match r {
                        Ok(n) => Lst(vec![Num(0), u64_to(n as u64)]),
                        Err(e) => Lst(vec![Num(1), err_to_sexp(&e)]),
                    };
                    Lst(vec![
                        show(block(QStd { how, s: s.clone() }.run_on_client())),
                        show(block(q_std(how, s))),
                    ])
                }
                _ => {
                    let n = c.at(3).num() as u8;
                    let show = |r: Result<i64, ServerFnError<Code>>| match r {
                        Ok(n) => Lst(vec![Num(0), u64_to(n as u64)]),
                        Err(e) => Lst(vec![Num(1), err_to_sexp(&e)]),
                    };
                    Lst(vec![show(block(QCode { how, n }.run_on_client())), show(block(q_code(how, n)))])
                }
            }
        }
        _ => Lst(vec![]),
    }
}
