//! (coverage audit) ops 31/32: the axum backend of server_fn — `server_fn::axum::
//! {AxumServerFnBackend, handle_server_fn, get_server_fn_service, server_fn_paths}`, the `Req`
//! implementation for `http::Request<axum::body::Body>` (request/axum.rs), `TryRes`/`Res` for
//! `http::Response<axum::body::Body>` (response/http.rs) and the tower adapters of
//! middleware/mod.rs — behind a loopback client that hands its request to `handle_server_fn`.
//! Request bodies arrive as a stream of frames (cut as the case says), as hyper delivers them.
use crate::{
    errs::{err_to_sexp, text, Code},
    fns::{body, chunk_of, plan_of, res_to, runs, set_frame, set_rechunk, sum_text, val_of, AppErrCbor, Plan, Val},
    glue::{demo_body, result_sexp, StrEncoding},
    looprt::{framed, rechunk, LoopBody, LoopReq, LoopRes, Wire, FAULTS, FRAME, RECHUNK},
};
use axum::body::Body;
use bytes::Bytes;
use futures::{stream, Sink, Stream, StreamExt};
use server_fn::{
    axum::AxumServerFnBackend,
    client::Client,
    codec::{
        ByteStream, Cbor, GetUrl, Json, MultipartData, MultipartFormData, Post, Rkyv, Streaming,
        StreamingText, TextStream,
    },
    error::{FromServerFnError, IntoAppError, ServerFnError, ServerFnErrorErr},
    Http, ServerFn, ServerFnTraitObj,
};
use server_fn_macro_default::server;
use std::future::Future;
use vsexp::{Lst, Num, Sexp};

fn block<T>(f: impl Future<Output = T>) -> T {
    futures::executor::block_on(f)
}

/// the body of a response as the client receives it: data frames, and an error frame where
/// the body stream failed (axum would reset the connection; the loopback hands over the
/// error's text, as it does for the generic backend)
async fn collect_ax(res: http::Response<Body>) -> Wire {
    let (parts, body) = res.into_parts();
    let mut chunks = vec![];
    let mut s = body.into_data_stream();
    while let Some(item) = s.next().await {
        match item {
            Ok(b) => chunks.push(Ok(b)),
            Err(e) => {
                // axum::Error wraps the stream's error: its source is the ServerFnErrorWrapper
                let text = std::error::Error::source(&e).map(|s| s.to_string()).unwrap_or_else(|| e.to_string());
                chunks.push(Err(Bytes::from(text)));
            }
        }
    }
    Wire { status: parts.status.as_u16(), headers: parts.headers, chunks }
}

pub async fn serve_ax(req: http::Request<Body>) -> Wire {
    collect_ax(server_fn::axum::handle_server_fn(req).await).await
}

/// request body: frames of the size the case asks for, each a `Bytes::slice` view
fn ax_body(data: Vec<u8>) -> Body {
    let n = RECHUNK.with(|r| r.get()).0;
    let off = FRAME.with(|f| f.get()).0;
    if n == 0 {
        return Body::from(framed(&data, off));
    }
    let frames: Vec<Result<Bytes, std::convert::Infallible>> = rechunk(vec![Ok(Bytes::from(data))], n)
        .into_iter()
        .map(|c| Ok(framed(&c.unwrap_or_else(|e| e), off)))
        .collect();
    Body::from_stream(stream::iter(frames))
}

pub struct AxClient;
impl<E, I, O> Client<E, I, O> for AxClient
where
    E: FromServerFnError + Send,
    I: FromServerFnError,
    O: FromServerFnError,
{
    type Request = LoopReq;
    type Response = LoopRes;

    async fn send(req: LoopReq) -> Result<LoopRes, E> {
        let faults = FAULTS.with(|f| f.borrow().clone());
        let mut body: Vec<u8> = match req.body {
            LoopBody::Full(b) => b.to_vec(),
            LoopBody::Stream(mut s) => {
                let mut v = vec![];
                while let Some(b) = s.next().await {
                    v.extend_from_slice(&b);
                }
                v
            }
        };
        let mut uri = req.uri.clone();
        if let Some(edit) = &faults.request {
            if body.is_empty() && uri.contains('?') {
                let (p, q) = uri.split_once('?').unwrap();
                let q2 = edit.apply(q.as_bytes());
                uri = format!("{p}?{}", String::from_utf8_lossy(&q2));
            } else {
                body = edit.apply(&body);
            }
        }
        let built = http::Request::builder()
            .method(req.method.clone())
            .uri(&uri)
            .header(http::header::CONTENT_TYPE, &req.content_type)
            .header(http::header::ACCEPT, &req.accept)
            .body(ax_body(body));
        let request = match built {
            Ok(r) => r,
            Err(e) => return Err(ServerFnErrorErr::Request(e.to_string()).into_app_error()),
        };
        let mut wire = serve_ax(request).await;
        if let Some(edit) = &faults.response {
            let b = edit.apply(&wire.body());
            wire.chunks = vec![Ok(Bytes::from(b))];
        }
        if let Some(s) = faults.status {
            wire.status = s;
        }
        Ok(LoopRes(wire))
    }

    async fn open_websocket(
        _path: &str,
    ) -> Result<
        (
            impl Stream<Item = Result<Bytes, Bytes>> + Send + 'static,
            impl Sink<Result<Bytes, Bytes>> + Send + 'static,
        ),
        E,
    > {
        Err::<(stream::Empty<Result<Bytes, Bytes>>, futures::sink::Drain<Result<Bytes, Bytes>>), E>(
            ServerFnErrorErr::Request("no websockets over this loopback".into()).into_app_error(),
        )
    }

    fn spawn(future: impl Future<Output = ()> + Send + 'static) {
        crate::looprt::spawn_task(future);
    }
}

// ---------------------------------------------------------------- functions on the axum backend
#[server(input = Json, output = Json, client = AxClient, server = AxumServerFnBackend)]
pub async fn ax_json(v: Val, plan: Plan) -> Result<Val, ServerFnError> {
    body(v, plan)
}
#[server(input = Rkyv, output = Rkyv, client = AxClient, server = AxumServerFnBackend)]
pub async fn ax_rkyv(v: Val, plan: Plan) -> Result<Val, ServerFnError> {
    body(v, plan)
}
#[server(input = GetUrl, output = Cbor, client = AxClient, server = AxumServerFnBackend)]
pub async fn ax_geturl(v: Val, plan: Plan) -> Result<Val, ServerFnError> {
    body(v, plan)
}
/// a tower layer that fails the request when its payload contains "deny" (the adapter of
/// middleware/mod.rs turns the service error into `MiddlewareError`)
#[derive(Clone)]
pub struct DenyLayer;
#[derive(Clone)]
pub struct DenyService<S>(S);
impl<S> tower_layer::Layer<S> for DenyLayer {
    type Service = DenyService<S>;
    fn layer(&self, inner: S) -> Self::Service {
        DenyService(inner)
    }
}
impl<S> tower::Service<http::Request<Body>> for DenyService<S>
where
    S: tower::Service<http::Request<Body>, Response = http::Response<Body>, Error = ServerFnError>,
    S::Future: Send + 'static,
{
    type Response = http::Response<Body>;
    type Error = ServerFnError;
    type Future = std::pin::Pin<Box<dyn Future<Output = Result<Self::Response, Self::Error>> + Send>>;
    fn poll_ready(&mut self, cx: &mut std::task::Context<'_>) -> std::task::Poll<Result<(), Self::Error>> {
        self.0.poll_ready(cx)
    }
    fn call(&mut self, req: http::Request<Body>) -> Self::Future {
        if req.uri().query().map(|q| q.contains("deny")).unwrap_or(false) {
            return Box::pin(async { Err(ServerFnError::ServerError("denied | by tower".into())) });
        }
        Box::pin(self.0.call(req))
    }
}
#[server(input = GetUrl, output = Json, client = AxClient, server = AxumServerFnBackend)]
#[middleware(DenyLayer)]
pub async fn ax_mw(s: String, n: u32) -> Result<String, AppErrCbor> {
    if s.starts_with('!') {
        return Err(AppErrCbor::NotFound { id: n as u64, what: s });
    }
    Ok(format!("{s}/{n}"))
}
#[server(input = StreamingText, output = StreamingText, client = AxClient, server = AxumServerFnBackend)]
pub async fn ax_echo_text(input: TextStream) -> Result<TextStream, ServerFnError> {
    let s = input.into_inner().map(|item| item.map(|chunk| chunk.to_ascii_uppercase()));
    Ok(TextStream::new(s))
}
#[server(input = Json, output = Streaming, client = AxClient, server = AxumServerFnBackend)]
pub async fn ax_emit_bytes(chunks: Vec<Vec<u8>>) -> Result<ByteStream, ServerFnError> {
    Ok(ByteStream::from(stream::iter(chunks.into_iter().map(Bytes::from))))
}
#[server(input = MultipartFormData, output = Json, client = AxClient, server = AxumServerFnBackend)]
pub async fn ax_upload(data: MultipartData) -> Result<Vec<(String, usize)>, ServerFnError> {
    let mut data = data.into_inner().expect("server side");
    let mut out = vec![];
    while let Ok(Some(mut field)) = data.next_field().await {
        let name = field.name().unwrap_or_default().to_string();
        let mut n = 0;
        while let Ok(Some(chunk)) = field.chunk().await {
            n += chunk.len();
        }
        out.push((name, n));
    }
    Ok(out)
}

/// the glue function of glue.rs on the axum backend (compared with the Coq model)
#[derive(Clone, Debug)]
pub struct AxGlue {
    pub s: String,
}
impl server_fn::Encodes<AxGlue> for StrEncoding {
    type Error = std::fmt::Error;
    fn encode(v: &AxGlue) -> Result<Bytes, Self::Error> {
        Ok(Bytes::from(v.s.clone()))
    }
}
impl server_fn::Decodes<AxGlue> for StrEncoding {
    type Error = std::string::FromUtf8Error;
    fn decode(b: Bytes) -> Result<AxGlue, Self::Error> {
        String::from_utf8(b.to_vec()).map(|s| AxGlue { s })
    }
}
impl ServerFn for AxGlue {
    const PATH: &'static str = "/api/ax_glue";
    type Client = AxClient;
    type Server = AxumServerFnBackend;
    type Protocol = Http<Post<StrEncoding>, Post<StrEncoding>>;
    type Output = String;
    type Error = ServerFnError<Code>;
    type InputStreamError = ServerFnError<Code>;
    type OutputStreamError = ServerFnError<Code>;
    async fn run_body(self) -> Result<String, ServerFnError<Code>> {
        demo_body(&self.s)
    }
}
server_fn::inventory::submit! {
    ServerFnTraitObj::new::<AxGlue>(|req| Box::pin(AxGlue::run_on_server(req)))
}

fn s_opt(o: Option<Vec<u8>>) -> Sexp {
    Lst(o.into_iter().map(|b| Sexp::from_bytes(&b)).collect())
}

pub fn run(c: &Sexp) -> Sexp {
    match c.at(0).num() {
        // (31 which ...) remote through the axum backend vs direct
        31 => match c.at(1).num() {
            w @ 0..=2 => {
                let (v, plan) = (val_of(c.at(2)), plan_of(c.at(3)));
                set_frame(c.at(4));
                set_rechunk(c.at(5));
                let (r, d) = match w {
                    0 => (block(AxJson { v: v.clone(), plan: plan.clone() }.run_on_client()), block(ax_json(v, plan))),
                    1 => (block(AxRkyv { v: v.clone(), plan: plan.clone() }.run_on_client()), block(ax_rkyv(v, plan))),
                    _ => (block(AxGeturl { v: v.clone(), plan: plan.clone() }.run_on_client()), block(ax_geturl(v, plan))),
                };
                Lst(vec![res_to(&r), res_to(&d)])
            }
            3 => {
                let (s, n) = (text(c.at(2)), c.at(3).num() as u32);
                let show = |r: Result<String, AppErrCbor>| match r {
                    Ok(s) => Lst(vec![Num(0), Sexp::from_str(&s)]),
                    Err(e) => Lst(vec![Num(1), e.sexp()]),
                };
                Lst(vec![
                    show(block(AxMw { s: s.clone(), n }.run_on_client())),
                    show(block(ax_mw(s, n))),
                ])
            }
            4 => {
                let chunks: Vec<String> = c
                    .at(2)
                    .list()
                    .iter()
                    .map(|s| String::from_utf8(chunk_of(s)).expect("case strings are valid UTF-8 by construction"))
                    .collect();
                set_rechunk(c.at(3));
                let mk = || TextStream::new(stream::iter(chunks.clone().into_iter().map(Ok)));
                let remote = sum_text(block(AxEchoText { input: mk() }.run_on_client()));
                let direct = sum_text(block(ax_echo_text(mk())));
                Lst(vec![remote, direct])
            }
            5 => {
                let chunks: Vec<Vec<u8>> = c.at(2).list().iter().map(chunk_of).collect();
                set_rechunk(c.at(3));
                let sum = |r: Result<ByteStream, ServerFnError>| match r {
                    Ok(s) => {
                        let items: Vec<Result<Bytes, Bytes>> = block(s.into_inner().collect());
                        Lst(vec![
                            Num(0),
                            runs(items.into_iter().map(|i| match i {
                                Ok(b) => Ok(b.to_vec()),
                                Err(b) => Err(Lst(vec![Num(-1), Sexp::from_bytes(&b)])),
                            })),
                        ])
                    }
                    Err(e) => Lst(vec![Num(1), err_to_sexp(&e)]),
                };
                let remote = sum(block(AxEmitBytes { chunks: chunks.clone() }.run_on_client()));
                let direct = sum(block(ax_emit_bytes(chunks)));
                Lst(vec![remote, direct])
            }
            6 => {
                // a multipart request as the axum server receives it
                set_rechunk(c.at(4));
                let mut b = http::Request::builder().method("POST").uri(AxUpload::PATH);
                if let Some(ct) = c.at(2).list().first() {
                    b = b.header("content-type", http::HeaderValue::from_bytes(&ct.bytes()).unwrap());
                }
                let req = b.body(ax_body(c.at(3).bytes())).unwrap();
                let w = block(serve_ax(req));
                Lst(vec![Num(w.status as i64), Sexp::from_bytes(&w.body())])
            }
            8 => {
                // a browser form (Accept: text/html) calling a function whose error type has a
                // binary encoder: the redirect URL must carry that error
                use server_fn::error::ServerFnUrlError;
                let (s, n) = (text(c.at(2)), c.at(3).num() as u32);
                let q = AxMw { s: s.clone(), n };
                let query = <AxMw as server_fn::codec::IntoReq<GetUrl, LoopReq, AppErrCbor>>::into_req(
                    q, AxMw::PATH, "application/json").map(|r| r.uri).unwrap_or_default();
                let referer = crate::errs::url_string(c.at(4), c.at(5), c.at(6));
                let req = http::Request::builder()
                    .method("GET")
                    .uri(&query)
                    .header("accept", "text/html,application/xhtml+xml")
                    .header("referer", &referer)
                    .body(Body::empty())
                    .unwrap();
                let w = block(serve_ax(req));
                let loc = w.header("location").map(|l| String::from_utf8_lossy(&l).into_owned());
                let mut back = vec![];
                if let Some(Ok(u)) = loc.as_deref().map(url::Url::parse) {
                    let mut p_back = None;
                    let mut e_back = None;
                    for (k, v) in u.query_pairs() {
                        if k == "__path" {
                            p_back = Some(v.to_string());
                        } else if k == "__err" {
                            e_back = Some(v.to_string());
                        }
                    }
                    back.push(Lst(p_back.iter().map(|p| Sexp::from_str(p.trim_end_matches(|c: char| c.is_ascii_digit()))).collect()));
                    back.push(Lst(e_back.iter().map(|v| ServerFnUrlError::<AppErrCbor>::decode_err(v).sexp()).collect()));
                }
                let direct = match block(ax_mw(s, n)) {
                    Ok(s) => Lst(vec![Num(0), Sexp::from_str(&s)]),
                    Err(e) => Lst(vec![Num(1), e.sexp()]),
                };
                Lst(vec![Num(w.status as i64), Lst(back), direct, s_opt(loc.map(|l| l.into_bytes()))])
            }
            7 => {
                // the registry of the backend: every axum function is listed once, an unknown
                // route is answered with 400
                // (the inventory registry is one static shared by every request/response type,
                // so the functions of the loopback server show up here as well: only the
                // axum ones are printed)
                let mut paths: Vec<String> = server_fn::axum::server_fn_paths()
                    .filter(|(p, _)| p.starts_with("/api/ax_"))
                    .map(|(p, m)| format!("{m} {}", p.trim_end_matches(|c: char| c.is_ascii_digit())))
                    .collect();
                paths.sort();
                let req = http::Request::builder()
                    .method("POST")
                    .uri(format!("/api/{}", text(c.at(2))))
                    .body(Body::empty())
                    .unwrap();
                let w = block(serve_ax(req));
                Lst(vec![Lst(paths.iter().map(|p| Sexp::from_str(p)).collect()), Num(w.status as i64)])
            }
            _ => Lst(vec![]),
        },
        // (32 data accept referer) the glue function's raw request, as op 8, on the axum backend
        32 => {
            set_rechunk(c.at(4));
            let mut b = http::Request::builder().method("POST").uri(AxGlue::PATH);
            if let Some(a) = c.at(2).list().first() {
                b = b.header("accept", http::HeaderValue::from_bytes(&a.bytes()).unwrap());
            }
            let r = c.at(3);
            let referer = match r.at(0).num() {
                1 => Some(crate::errs::url_string(r.at(1), r.at(2), r.at(3)).into_bytes()),
                2 => Some(r.at(1).bytes()),
                _ => None,
            };
            if let Some(r) = referer {
                b = b.header("referer", http::HeaderValue::from_bytes(&r).unwrap());
            }
            let req = b.body(ax_body(c.at(1).bytes())).unwrap();
            let w = block(serve_ax(req));
            // and the whole loop for the same input, when it is text
            let loopback = match String::from_utf8(c.at(1).bytes()) {
                Ok(s) => {
                    let remote = block(AxGlue { s: s.clone() }.run_on_client());
                    Lst(vec![result_sexp(&remote), result_sexp(&demo_body(&s))])
                }
                Err(_) => Lst(vec![]),
            };
            Lst(vec![
                Lst(vec![
                    Num(w.status as i64),
                    Sexp::from_bytes(&w.body()),
                    s_opt(w.header(server_fn::error::SERVER_FN_ERROR_HEADER)),
                    s_opt(w.header("location")),
                    s_opt(w.header("content-type")),
                ]),
                loopback,
            ])
        }
        _ => Lst(vec![]),
    }
}
