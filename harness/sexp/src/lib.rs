//! Case / observation language shared by every harness crate and the Coq models:
//! integers and lists, one value per line: `(1 -2 (3) ())`.
use std::fmt;

#[derive(Clone, Debug, PartialEq, Eq)]
pub enum Sexp {
    Num(i64),
    Lst(Vec<Sexp>),
}
pub use Sexp::{Lst, Num};

impl fmt::Display for Sexp {
    fn fmt(&self, f: &mut fmt::Formatter<'_>) -> fmt::Result {
        match self {
            Num(n) => write!(f, "{n}"),
            Lst(l) => {
                f.write_str("(")?;
                for (i, x) in l.iter().enumerate() {
                    if i > 0 {
                        f.write_str(" ")?;
                    }
                    write!(f, "{x}")?;
                }
                f.write_str(")")
            }
        }
    }
}

impl Sexp {
    pub fn parse(s: &str) -> Result<Sexp, String> {
        let b = s.as_bytes();
        let mut i = 0usize;
        let v = Self::value(b, &mut i)?;
        while i < b.len() && (b[i] == b' ' || b[i] == b'\r' || b[i] == b'\n') {
            i += 1;
        }
        if i != b.len() {
            return Err(format!("trailing input at {i}"));
        }
        Ok(v)
    }
    fn value(b: &[u8], i: &mut usize) -> Result<Sexp, String> {
        while *i < b.len() && b[*i] == b' ' {
            *i += 1;
        }
        if *i >= b.len() {
            return Err("eof".into());
        }
        if b[*i] == b'(' {
            *i += 1;
            let mut items = vec![];
            loop {
                while *i < b.len() && b[*i] == b' ' {
                    *i += 1;
                }
                if *i >= b.len() {
                    return Err("unclosed".into());
                }
                if b[*i] == b')' {
                    *i += 1;
                    return Ok(Lst(items));
                }
                items.push(Self::value(b, i)?);
            }
        }
        let st = *i;
        if b[*i] == b'-' {
            *i += 1;
        }
        while *i < b.len() && b[*i].is_ascii_digit() {
            *i += 1;
        }
        std::str::from_utf8(&b[st..*i])
            .unwrap()
            .parse::<i64>()
            .map(Num)
            .map_err(|e| format!("bad number at {st}: {e}"))
    }

    pub fn num(&self) -> i64 {
        match self {
            Num(n) => *n,
            Lst(_) => 0,
        }
    }
    pub fn list(&self) -> &[Sexp] {
        match self {
            Lst(l) => l,
            Num(_) => &[],
        }
    }
    pub fn at(&self, i: usize) -> &Sexp {
        static EMPTY: Sexp = Lst(Vec::new());
        self.list().get(i).unwrap_or(&EMPTY)
    }
    pub fn bytes(&self) -> Vec<u8> {
        self.list().iter().map(|x| x.num() as u8).collect()
    }
    /// the byte list as a `String`; `None` if it is not valid UTF-8
    pub fn string(&self) -> Option<String> {
        String::from_utf8(self.bytes()).ok()
    }
    pub fn nums(&self) -> Vec<i64> {
        self.list().iter().map(|x| x.num()).collect()
    }
    pub fn from_bytes(b: &[u8]) -> Sexp {
        Lst(b.iter().map(|x| Num(*x as i64)).collect())
    }
    pub fn from_str(s: &str) -> Sexp {
        Self::from_bytes(s.as_bytes())
    }
    pub fn from_nums<I: IntoIterator<Item = i64>>(it: I) -> Sexp {
        Lst(it.into_iter().map(Num).collect())
    }
    pub fn bool(b: bool) -> Sexp {
        Num(b as i64)
    }
}

/// Read cases from stdin, one per line; print one observation line per case.
/// A panic inside `f` is caught and printed as `!panic <message>`.
pub fn drive<F: FnMut(&Sexp) -> Sexp>(mut f: F) {
    use std::io::{BufRead, Write};
    std::panic::set_hook(Box::new(|_| {}));
    let stdin = std::io::stdin();
    let stdout = std::io::stdout();
    let mut out = std::io::BufWriter::new(stdout.lock());
    for line in stdin.lock().lines() {
        let line = line.unwrap();
        if line.trim().is_empty() {
            continue;
        }
        match Sexp::parse(&line) {
            Err(e) => writeln!(out, "!parse-error {e}").unwrap(),
            Ok(c) => {
                let r = std::panic::catch_unwind(std::panic::AssertUnwindSafe(|| f(&c)));
                match r {
                    Ok(v) => writeln!(out, "{v}").unwrap(),
                    Err(e) => {
                        let msg = e
                            .downcast_ref::<String>()
                            .cloned()
                            .or_else(|| e.downcast_ref::<&str>().map(|s| s.to_string()))
                            .unwrap_or_default();
                        writeln!(out, "!panic {}", msg.replace('\n', " ")).unwrap()
                    }
                }
            }
        }
        // one line per case, flushed at once: the driver detects a hanging case by the absence
        // of progress and knows exactly which case it is
        out.flush().unwrap();
    }
    out.flush().unwrap();
}
