//! Harness for the reactive-graph properties C01 / C09 / C02.
//!
//! `h_rx c01|c09|c02` reads one case per line on stdin and prints one observation per line.
//! A case is `(prog ops)`; the program is built out of the REAL reactive_graph API (signals of
//! every flavour, memos, derived signals, effects of every kind); user closures interpret a
//! small expression language; the executor is owned by the harness (explicit run queue, the
//! case's schedule decides which ready task is polled next).  Everything is single-threaded
//! and deterministic; every case runs in a worker thread watched by the main thread (a case
//! that does not return is reported as `!hang` and the worker is abandoned).
use any_spawner::{CustomExecutor, Executor, PinnedFuture, PinnedLocalFuture};
use reactive_graph::{
    computed::{ArcMemo, Memo, Selector},
    effect::{Effect, ImmediateEffect, RenderEffect},
    graph::{untrack, untrack_with_diagnostics},
    owner::{LocalStorage, Owner, SyncStorage},
    signal::{
        arc_signal, signal, ArcMappedSignal, ArcReadSignal, ArcRwSignal, ArcTrigger, ArcWriteSignal,
        MappedSignal, ReadSignal, RwSignal, WriteSignal,
    },
    traits::{
        Dispose, Get, GetUntracked, Notify, Read, ReadUntracked, Set, ToStream, Track, Update,
        UpdateUntracked, UntrackableGuard, With, WithUntracked, Write,
    },
    wrappers::{
        read::{ArcSignal, MaybeProp, Signal},
        write::SignalSetter,
    },
};
#[allow(deprecated)]
use reactive_graph::wrappers::read::MaybeSignal;
use std::{
    cell::RefCell,
    collections::VecDeque,
    future::Future,
    pin::Pin,
    sync::{
        atomic::{AtomicBool, AtomicI64, Ordering},
        mpsc, Arc, Mutex,
    },
    task::{Context, Poll, Wake, Waker},
    time::Duration,
};
use vsexp::{Lst, Num, Sexp};

// ------------------------------------------------------------------ expression language
#[derive(Debug, Clone)]
enum Expr {
    Const(i64),
    Rd(usize),
    RdU(usize),
    Untr(Box<Expr>),
    Add(Box<Expr>, Box<Expr>),
    Lt(Box<Expr>, Box<Expr>),
    Ite(Box<Expr>, Box<Expr>, Box<Expr>),
    Wr(usize, Box<Expr>),
    Sel(usize, usize), // selector node, index of the key in its trigger list
    New(usize),        // instantiate template node k here (a memo / an effect created at run time)
    Cleanup(usize),    // Owner::on_cleanup(move || { signal_j.get(); }): value 0, no event
    KeepOwner,         // the body hands a clone of Owner::current() to the outside (kept until the case ends)
}

fn parse_expr(s: &Sexp) -> Expr {
    let b = |i: usize| Box::new(parse_expr(s.at(i)));
    match s.at(0).num() {
        0 => Expr::Const(s.at(1).num()),
        1 => Expr::Rd(s.at(1).num() as usize),
        2 => Expr::RdU(s.at(1).num() as usize),
        3 => Expr::Untr(b(1)),
        4 => Expr::Add(b(1), b(2)),
        5 => Expr::Lt(b(1), b(2)),
        6 => Expr::Ite(b(1), b(2), b(3)),
        7 => Expr::Wr(s.at(1).num() as usize, b(2)),
        8 => Expr::Sel(s.at(1).num() as usize, s.at(2).num() as usize),
        9 => Expr::New(s.at(1).num() as usize),
        10 => Expr::Cleanup(s.at(1).num() as usize),
        11 => Expr::KeepOwner,
        _ => Expr::Const(0),
    }
}

// ------------------------------------------------------------------ node handles
#[derive(Clone)]
enum Handle {
    ArcRw(ArcRwSignal<i64>),                      // flavour 0: generic (clone) notify path
    Pair(ReadSignal<i64>, WriteSignal<i64>),      // flavour 1: RwLock<SubscriberSet> path
    Rw(RwSignal<i64>),                            // flavour 2: generic path, arena
    Trig(Arc<AtomicI64>, ArcTrigger),             // flavour 3: ArcTrigger-backed cell
    ArcPair(ArcReadSignal<i64>, ArcWriteSignal<i64>), // flavour 4
    ArcMemo(ArcMemo<i64>),
    Memo(Memo<i64>),
    Closure(Arc<dyn Fn() -> i64 + Send + Sync>),
    Derive(Signal<i64>),
    ArcDerive(ArcSignal<i64>),
    // type-erased wrappers around another node (None: a stored constant); reads go through
    // library code only, so the harness logs the inner read itself
    Wrap(Signal<i64>, Option<usize>),         // Signal::from(..) / Signal::stored
    ArcWrap(ArcSignal<i64>, Option<usize>),   // ArcSignal::from(..) / ArcSignal::stored
    ArcMapped(ArcMappedSignal<i64>, usize),   // ArcMappedSignal::new(ArcRwSignal, id, id)
    Mapped(MappedSignal<i64>, usize),         // MappedSignal::new(RwSignal, id, id)
    #[allow(deprecated)]
    Maybe(MaybeSignal<i64>, Option<usize>),   // MaybeSignal::from(..) / Static
    // LocalStorage representations (derive_local / stored_local / From<Arc..Signal> for Signal<_, LocalStorage>)
    WrapL(Signal<i64, LocalStorage>, Option<usize>),
    ArcWrapL(ArcSignal<i64, LocalStorage>, Option<usize>),
    Prop(MaybeProp<i64>, Option<usize>),       // MaybeProp::from(..) / derive
    OptSig(Signal<Option<i64>>, Option<usize>), // Signal<Option<T>>::from(Signal<T>) / from(T)
    Effect, // not readable
    // a Selector occupies several nodes of the case: its value cell and the cell of the previous
    // value (locals of the real closure: no object of their own), one node per key (the
    // ArcRwSignal<bool> the selector keeps in its key map) and the selector itself
    SelCell,
    SelKey(i64),
    Sel(Selector<i64>, Vec<usize>),
    // a node that is created at run time by the body that evaluates (9 k): the declaration ...
    Template,
    // ... and, in the environment of that body (and of whatever it creates afterwards), the
    // instance: its id in the trace (ids of instances follow the indices of the program) + handle
    Inst(i64, Box<Handle>),
}

fn wrapped_of(h: &Handle) -> Option<usize> {
    match h {
        Handle::Wrap(_, k) | Handle::ArcWrap(_, k) | Handle::Maybe(_, k) => *k,
        Handle::WrapL(_, k) | Handle::ArcWrapL(_, k) | Handle::Prop(_, k) | Handle::OptSig(_, k) => *k,
        Handle::ArcMapped(_, k) | Handle::Mapped(_, k) => Some(*k),
        _ => None,
    }
}

fn to_signal(h: &Handle) -> Signal<i64> {
    match h {
        Handle::ArcRw(s) => Signal::from(s.clone()),
        Handle::Pair(r, _) => Signal::from(*r),
        Handle::Rw(s) => Signal::from(*s),
        Handle::ArcPair(r, _) => Signal::from(r.clone()),
        Handle::ArcMemo(m) => Signal::from(m.clone()),
        Handle::Memo(m) => Signal::from(*m),
        Handle::Closure(f) => {
            let f = f.clone();
            Signal::derive(move || f())
        }
        Handle::Derive(s) | Handle::Wrap(s, _) => *s,
        Handle::ArcDerive(a) | Handle::ArcWrap(a, _) => Signal::from(a.clone()),
        _ => panic!("case wraps a node that has no Signal conversion"),
    }
}

fn to_arc_signal(h: &Handle) -> ArcSignal<i64> {
    match h {
        Handle::ArcRw(s) => ArcSignal::from(s.clone()),
        Handle::ArcPair(r, _) => ArcSignal::from(r.clone()),
        Handle::ArcMemo(m) => ArcSignal::from(m.clone()),
        Handle::Closure(f) => {
            let f = f.clone();
            ArcSignal::derive(move || f())
        }
        Handle::ArcDerive(a) | Handle::ArcWrap(a, _) => a.clone(),
        other => ArcSignal::from(to_signal(other)),
    }
}

#[allow(deprecated)]
fn to_maybe(h: &Handle) -> MaybeSignal<i64> {
    match h {
        Handle::ArcRw(s) => MaybeSignal::from(s.clone()),
        Handle::Pair(r, _) => MaybeSignal::from(*r),
        Handle::Rw(s) => MaybeSignal::from(*s),
        Handle::ArcPair(r, _) => MaybeSignal::from(r.clone()),
        Handle::ArcMemo(m) => MaybeSignal::from(m.clone()),
        Handle::Memo(m) => MaybeSignal::from(*m),
        other => MaybeSignal::from(to_signal(other)),
    }
}

/// a comparator coarser than equality: "changed" iff the parity differs
fn parity_changed(a: Option<&i64>, b: Option<&i64>) -> bool {
    match (a, b) {
        (Some(a), Some(b)) => (a % 2 == 0) != (b % 2 == 0),
        _ => true,
    }
}

fn id_ref(x: &i64) -> &i64 {
    x
}
fn id_mut(x: &mut i64) -> &mut i64 {
    x
}

/// the read events of the nodes a wrapper delegates to, innermost first
fn emit_chain(hs: &[Handle], k: usize, v: i64, t: bool) {
    if let Some(k2) = wrapped_of(&hs[k]) {
        emit_chain(hs, k2, v, t);
    }
    ev(2, vec![reader(), k as i64, v, t as i64]);
}

// ------------------------------------------------------------------ per-thread trace context
struct Ctx {
    trace: Vec<Sexp>,
    stack: Vec<i64>,   // ids of the bodies currently running (innermost last)
    untracked: usize,  // > 0 inside untrack(..) / get_untracked of a derived / a watch handler
    mask: u8,          // which sub-command
    effects: Vec<bool>, // is node i an effect
    gone: Vec<bool>,   // node i (an arena signal / memo) was disposed
    templates: Vec<Option<Sexp>>, // declaration of template node k
    next_id: i64,      // id of the next instance
    vars: Vec<i64>,    // API variant of node i (reads: var % 8; writes / constructors: var / 8)
    flags: i64,        // case flags: 1 fresh waker per poll, 2 untrack_with_diagnostics
}
thread_local! {
    static CTX: RefCell<Ctx> = RefCell::new(Ctx { trace: vec![], stack: vec![], untracked: 0, mask: 0, effects: vec![], gone: vec![], templates: vec![], next_id: 0, vars: vec![], flags: 0 });
    // Arc handles of memos created at run time: "the user keeps them somewhere" (an ArcMemo that
    // is dropped at the end of the body that created it is a dead source)
    static KEEP: RefCell<Vec<Handle>> = RefCell::new(vec![]);
    // owner handles that bodies handed out with (11)
    static KEEPOWN: RefCell<Vec<Owner>> = RefCell::new(vec![]);
}
/// what an effect body returns: its value, and the handles of the RenderEffects it created (a
/// RenderEffect lives in its handle; the previous value is handed to the next run and dropped
/// there, as with `move |_| { ...; RenderEffect::new(..) }`)
struct Ret {
    v: i64,
    _nested: Vec<RenderEffect<Ret>>,
}
type ValStream = Pin<Box<dyn futures::Stream<Item = i64> + Send>>;
thread_local! {
    // effect kind 6: `signal.to_stream()`; the effect inside is library code, so its runs are
    // read off the stream after every poll: (effect id, signal id, stream)
    static STREAMS: RefCell<Vec<(usize, usize, ValStream)>> = RefCell::new(vec![]);
}
/// one item = one run of the stream's internal effect, which read the signal with `get()`
fn drain_streams() {
    use futures::{FutureExt, StreamExt};
    let mut got = vec![];
    STREAMS.with(|st| {
        for (e, j, s) in st.borrow_mut().iter_mut() {
            while let Some(Some(v)) = s.next().now_or_never() {
                got.push((*e as i64, *j as i64, v));
            }
        }
    });
    for (e, j, v) in got {
        ev(1, vec![e]);
        ev(2, vec![e, j, v, 1]);
        ev(3, vec![e, v]);
    }
}
thread_local! {
    // RenderEffects created by the body that is running (innermost last)
    static NESTED: RefCell<Vec<Vec<RenderEffect<Ret>>>> = RefCell::new(vec![]);
}
fn ev(kind: i64, rest: Vec<i64>) {
    CTX.with(|c| {
        let mut c = c.borrow_mut();
        let mut v = vec![Num(kind)];
        v.extend(rest.into_iter().map(Num));
        c.trace.push(Lst(v));
    })
}
fn var_of(j: usize) -> i64 {
    CTX.with(|c| c.borrow().vars.get(j).copied().unwrap_or(0))
}
fn flag(bit: i64) -> bool {
    CTX.with(|c| c.borrow().flags & bit != 0)
}
fn is_gone(j: usize) -> bool {
    CTX.with(|c| c.borrow().gone.get(j).copied().unwrap_or(false))
}
fn reader() -> i64 {
    CTX.with(|c| c.borrow().stack.last().copied().unwrap_or(-1))
}
fn tracked_ctx() -> bool {
    CTX.with(|c| {
        let c = c.borrow();
        !c.stack.is_empty() && c.untracked == 0
    })
}
struct UntrGuard;
impl UntrGuard {
    fn enter() -> Self {
        CTX.with(|c| c.borrow_mut().untracked += 1);
        UntrGuard
    }
}
impl Drop for UntrGuard {
    fn drop(&mut self) {
        CTX.with(|c| c.borrow_mut().untracked -= 1);
    }
}
/// a body (memo fun, effect fun, watch dependency fn) runs: tracked context of its own
struct BodyGuard(usize);
impl BodyGuard {
    fn enter(id: i64) -> Self {
        CTX.with(|c| {
            let mut c = c.borrow_mut();
            c.stack.push(id);
            let saved = c.untracked;
            c.untracked = 0;
            BodyGuard(saved)
        })
    }
}
impl Drop for BodyGuard {
    fn drop(&mut self) {
        CTX.with(|c| {
            let mut c = c.borrow_mut();
            c.stack.pop();
            c.untracked = self.0;
        })
    }
}

// ------------------------------------------------------------------ interpreter over the real API
fn read_node(hs: &[Handle], j: usize, tracked_read: bool) -> i64 {
    // diagnostics only: silence the "read outside a tracking context" warning for reads the
    // case makes on purpose outside one (top level, untrack, watch handler)
    let _zone = if !tracked_ctx() {
        Some(reactive_graph::diagnostics::SpecialNonReactiveZone::enter())
    } else {
        None
    };
    let (disp, h): (i64, &Handle) = match &hs[j] {
        Handle::Inst(id, inner) => (*id, &**inner),
        h => (j as i64, h),
    };
    if disp == j as i64 && is_gone(j) {
        // a disposed arena handle: `get` would panic, `try_get` tracks nothing and gives None
        let got = match &hs[j] {
            Handle::Pair(r, _) => if tracked_read { r.try_get() } else { r.try_get_untracked() },
            Handle::Rw(s) => if tracked_read { s.try_get() } else { s.try_get_untracked() },
            Handle::Memo(m) => if tracked_read { m.try_get() } else { m.try_get_untracked() },
            _ => panic!("case disposed a node that is not an arena signal / memo"),
        };
        let v = got.unwrap_or(0);
        let t = tracked_read && tracked_ctx();
        ev(2, vec![reader(), j as i64, v, t as i64]);
        return v;
    }
    // the access path: every one of them must give the same value and the same tracking
    let rv = var_of(j) % 8;
    // track() + get_untracked() would evaluate a derived closure twice: only for plain nodes
    let plain_inside = match wrapped_of(h) {
        Some(k) => matches!(hs[k], Handle::ArcRw(_) | Handle::Pair(..) | Handle::Rw(_) | Handle::ArcPair(..) | Handle::ArcMemo(_) | Handle::Memo(_)),
        None => false,
    };
    let rvw = if rv == 3 && !plain_inside { 4 } else { rv };
    macro_rules! rd {
        ($s:expr, $rv:expr) => {{
            let s = $s;
            if tracked_read {
                match $rv {
                    1 => s.with(|v| v.clone()),
                    2 => (*s.read()).clone(),
                    3 => {
                        s.track();
                        s.get_untracked()
                    }
                    4 => s.try_get().expect("try_get on a live node gave None"),
                    _ => s.get(),
                }
            } else {
                match $rv {
                    1 => s.with_untracked(|v| v.clone()),
                    2 => (*s.read_untracked()).clone(),
                    3 => s.try_get_untracked().expect("try_get_untracked on a live node gave None"),
                    4 => s.try_with_untracked(|v| v.clone()).expect("try_with_untracked on a live node gave None"),
                    _ => s.get_untracked(),
                }
            }
        }};
    }
    macro_rules! rdw {
        // wrappers: the harness-side untracked flag is raised around an untracked read (the
        // closure inside logs its own reads)
        ($s:expr) => {{
            if tracked_read {
                rd!($s, rvw)
            } else {
                let _g = UntrGuard::enter();
                rd!($s, rvw)
            }
        }};
    }
    let v = match h {
        Handle::ArcRw(s) => rd!(s, rv),
        Handle::Pair(r, _) => rd!(r, rv),
        Handle::Rw(s) => rd!(s, rv),
        Handle::ArcPair(r, _) => rd!(r, rv),
        Handle::Trig(cell, t) => {
            if tracked_read {
                t.track();
            }
            cell.load(Ordering::SeqCst)
        }
        Handle::ArcMemo(m) => rd!(m, rv),
        Handle::Memo(m) => rd!(m, rv),
        Handle::Closure(f) => {
            if tracked_read {
                f()
            } else {
                let _g = UntrGuard::enter();
                if flag(2) { untrack_with_diagnostics(|| f()) } else { untrack(|| f()) }
            }
        }
        Handle::Derive(s) => rdw!(s),
        Handle::ArcDerive(s) => rdw!(s),
        Handle::Wrap(s, _) => rdw!(s),
        Handle::ArcWrap(s, _) => rdw!(s),
        Handle::WrapL(s, _) => rdw!(s),
        Handle::ArcWrapL(s, _) => rdw!(s),
        Handle::ArcMapped(s, _) => rd!(s, rv),
        Handle::Mapped(s, _) => rd!(s, rv),
        #[allow(deprecated)]
        Handle::Maybe(s, _) => rdw!(s),
        Handle::Prop(s, _) => {
            let o: Option<i64> = rdw!(s);
            o.expect("MaybeProp over a value gave None")
        }
        Handle::OptSig(s, _) => {
            let o: Option<i64> = rdw!(s);
            o.expect("Signal<Option<T>> lifted from a value gave None")
        }
        Handle::Effect => panic!("case reads an effect node"),
        Handle::SelCell | Handle::SelKey(_) | Handle::Sel(..) => {
            panic!("case reads a node of a selector directly")
        }
        Handle::Template => panic!("case reads a template that has no instance in this scope"),
        Handle::Inst(..) => unreachable!(),
    };
    let t = tracked_read && tracked_ctx();
    if let Some(k) = wrapped_of(h) {
        emit_chain(hs, k, v, t);
    }
    ev(2, vec![reader(), disp, v, t as i64]);
    v
}

/// every way of writing a signal: all of them store the value and notify the subscribers
macro_rules! wr {
    ($h:expr, $v:expr, $wv:expr) => {{
        let h = $h;
        let v: i64 = $v;
        match $wv {
            1 => h.update(|n| *n = v),
            2 => h.maybe_update(|n| {
                *n = v;
                true
            }),
            3 => {
                let mut g = h.write();
                *g = v;
            }
            4 => {
                if h.try_set(v).is_some() {
                    panic!("try_set on a live signal handed the value back")
                }
            }
            5 => {
                h.try_update(|n| *n = v).expect("try_update on a live signal gave None");
            }
            7 => {
                h.update_untracked(|n| *n = v);
                h.notify();
            }
            9 => {
                *h.write_untracked() = v;
                h.notify();
            }
            _ => h.set(v),
        }
    }};
}
macro_rules! nt {
    ($h:expr, $nv:expr) => {{
        let h = $h;
        match $nv {
            1 => {
                let _g = h.write(); // an untouched guard notifies when dropped
            }
            2 => h.update(|_| {}),
            _ => h.notify(),
        }
    }};
}
/// operations that are NOT writes: no notification may result
macro_rules! silent {
    ($h:expr, $how:expr) => {{
        let h = $h;
        match $how {
            1 => {
                let mut g = h.write();
                g.untrack();
            }
            2 => {
                h.try_maybe_update(|_| (false, ()));
            }
            3 => {
                h.update_untracked(|_| {});
            }
            4 => {
                let _g = h.write_untracked();
            }
            _ => h.maybe_update(|_| false),
        }
    }};
}

fn write_node(hs: &[Handle], s: usize, v: i64) {
    if is_gone(s) {
        return;
    }
    let wv = var_of(s) / 8;
    match &hs[s] {
        Handle::ArcRw(h) => match wv {
            6 => {
                let h = h.clone();
                SignalSetter::<i64>::map(move |x| h.set(x)).set(v)
            }
            8 => ArcMappedSignal::new(h.clone(), id_ref, id_mut).set(v),
            _ => wr!(h, v, wv),
        },
        Handle::Pair(_, w) => match wv {
            6 | 8 => SignalSetter::<i64>::from(*w).set(v),
            _ => wr!(w, v, wv),
        },
        Handle::Rw(h) => match wv {
            6 => SignalSetter::<i64>::from(*h).set(v),
            8 => MappedSignal::new(*h, id_ref, id_mut).set(v),
            _ => wr!(h, v, wv),
        },
        Handle::ArcPair(_, w) => match wv {
            6 | 8 => {
                let w = w.clone();
                let st = SignalSetter::<i64>::map(move |x| w.set(x));
                if st.try_set(v).is_some() {
                    panic!("SignalSetter::try_set on a live setter handed the value back")
                }
            }
            _ => wr!(w, v, wv),
        },
        Handle::Trig(cell, t) => {
            cell.store(v, Ordering::SeqCst);
            t.notify();
        }
        _ => panic!("case writes a non-signal node"),
    }
}

fn notify_node(hs: &[Handle], s: usize) {
    if is_gone(s) {
        return;
    }
    let nv = (var_of(s) / 8) % 3;
    match &hs[s] {
        Handle::ArcRw(h) if nv == 2 => ArcMappedSignal::new(h.clone(), id_ref, id_mut).notify(),
        Handle::Rw(h) if nv == 2 => MappedSignal::new(*h, id_ref, id_mut).notify(),
        Handle::ArcRw(h) => nt!(h, nv),
        Handle::Pair(_, w) => nt!(w, nv),
        Handle::Rw(h) => nt!(h, nv),
        Handle::ArcPair(_, w) => nt!(w, nv),
        Handle::Trig(_, t) => t.notify(),
        _ => panic!("case notifies a non-signal node"),
    }
}

fn silent_node(hs: &[Handle], s: usize, how: i64) {
    if is_gone(s) {
        return;
    }
    match &hs[s] {
        Handle::ArcRw(h) => silent!(h, how),
        Handle::Pair(_, w) => silent!(w, how),
        Handle::Rw(h) => silent!(h, how),
        Handle::ArcPair(_, w) => silent!(w, how),
        Handle::Trig(..) => {}
        _ => panic!("case touches a non-signal node"),
    }
}

fn eval(e: &Expr, hs: &mut Vec<Handle>) -> i64 {
    match e {
        Expr::Const(z) => *z,
        Expr::Rd(j) => read_node(hs, *j, true),
        Expr::RdU(j) => read_node(hs, *j, false),
        Expr::Untr(a) => {
            let _g = UntrGuard::enter();
            if flag(2) {
                untrack_with_diagnostics(|| eval(a, hs))
            } else {
                untrack(|| eval(a, hs))
            }
        }
        Expr::Add(a, b) => {
            let x = eval(a, hs);
            let y = eval(b, hs);
            x.wrapping_add(y)
        }
        Expr::Lt(a, b) => {
            let x = eval(a, hs);
            let y = eval(b, hs);
            (x < y) as i64
        }
        Expr::Ite(c, a, b) => {
            if eval(c, hs) != 0 {
                eval(a, hs)
            } else {
                eval(b, hs)
            }
        }
        Expr::Wr(s, a) => {
            let v = eval(a, hs);
            write_node(hs, *s, v);
            v
        }
        Expr::New(k) => {
            instantiate(*k, hs);
            0
        }
        Expr::KeepOwner => {
            // what one does to pause / resume an effect later: `let handle = Owner::current()`
            if let Some(o) = Owner::current() {
                KEEPOWN.with(|k| k.borrow_mut().push(o));
            }
            0
        }
        Expr::Cleanup(j) => {
            // the callback runs when the owner of the running body is cleaned up (before its next
            // run, or at disposal); what it reads is none of the body's business: no event
            let h = hs[*j].clone();
            Owner::on_cleanup(move || {
                let _zone = reactive_graph::diagnostics::SpecialNonReactiveZone::enter();
                let _ = match &h {
                    Handle::ArcRw(s) => s.try_get(),
                    Handle::Pair(r, _) => r.try_get(),
                    Handle::Rw(s) => s.try_get(),
                    Handle::ArcPair(r, _) => r.try_get(),
                    _ => None,
                };
            });
            0
        }
        Expr::Sel(e, j) => match &hs[*e] {
            Handle::Sel(sel, ts) => {
                let t = ts[*j];
                let key = match &hs[t] {
                    Handle::SelKey(k) => *k,
                    _ => panic!("case: trigger node of a selector expected"),
                };
                let _zone = if !tracked_ctx() {
                    Some(reactive_graph::diagnostics::SpecialNonReactiveZone::enter())
                } else {
                    None
                };
                // read.track() on the key's signal, then f(key, v)
                let r = sel.selected(&key);
                ev(2, vec![reader(), t as i64, 0, tracked_ctx() as i64]);
                r as i64
            }
            _ => panic!("case: selected() on a node that is not a selector"),
        },
    }
}

fn run_body(id: usize, e: &Expr, hs: &[Handle]) -> i64 {
    ev(1, vec![id as i64]);
    let _g = BodyGuard::enter(id as i64);
    // the environment of this run: what the body creates is visible to the rest of the body
    let mut env = hs.to_vec();
    let v = eval(e, &mut env);
    drop(_g);
    ev(3, vec![id as i64, v]);
    v
}

/// the body of an effect: its value + the RenderEffects it created
fn run_effect_body(id: usize, e: &Expr, hs: &[Handle]) -> Ret {
    NESTED.with(|n| n.borrow_mut().push(vec![]));
    let v = run_body(id, e, hs);
    let nested = NESTED.with(|n| n.borrow_mut().pop()).unwrap_or_default();
    Ret { v, _nested: nested }
}

/// cv: 0 new / new_with_compare, 1 new_owning (the body computes the changed flag itself, with
/// the same comparator), 2 the memo is built as the other handle type and converted
fn make_memo(cmp: i64, flavor: i64, id: usize, e: Expr, lower: Arc<Vec<Handle>>, cv: i64) -> Handle {
    if cv == 1 {
        let f = move |prev: Option<i64>| {
            let new = run_body(id, &e, &lower);
            let changed = match cmp {
                0 => prev != Some(new),
                2 => parity_changed(prev.as_ref(), Some(&new)),
                _ => true,
            };
            (new, changed)
        };
        return if flavor == 0 {
            Handle::ArcMemo(ArcMemo::new_owning(f))
        } else {
            Handle::Memo(Memo::new_owning(f))
        };
    }
    let build = if cv == 2 { 1 - flavor.min(1) } else { flavor };
    let f = move |_: Option<&i64>| run_body(id, &e, &lower);
    let h = match (build, cmp) {
        (0, 0) => Handle::ArcMemo(ArcMemo::new(f)),
        (0, 2) => Handle::ArcMemo(ArcMemo::new_with_compare(f, parity_changed)),
        (0, _) => Handle::ArcMemo(ArcMemo::new_with_compare(f, |_, _| true)),
        (_, 0) => Handle::Memo(Memo::new(f)),
        (_, 2) => Handle::Memo(Memo::new_with_compare(f, parity_changed)),
        (_, _) => Handle::Memo(Memo::new_with_compare(f, |_, _| true)),
    };
    if cv == 2 {
        match h {
            Handle::ArcMemo(m) => Handle::Memo(Memo::from(m)),
            Handle::Memo(m) => Handle::ArcMemo(ArcMemo::from(m)),
            h => h,
        }
    } else {
        h
    }
}

/// creates an effect of the given kind under the CURRENT owner; the caller sets the task label
/// var: 0 the usual constructor; 1 its Send + Sync sibling (Effect::new_sync, Effect::watch_sync,
/// RenderEffect::new_isomorphic, ImmediateEffect::new_isomorphic); 2 RenderEffect::new_with_value /
/// ImmediateEffect::new_scoped; 3 ImmediateEffect::new_mut
fn make_effect(kind: i64, id: usize, e: Expr, hd: Expr, lower: Arc<Vec<Handle>>, var: i64) -> EffHandle {
    let l2 = lower.clone();
    match (kind, var) {
        (0, 1) => EffHandle::Iso(Effect::new_sync(move |_: Option<Ret>| run_effect_body(id, &e, &lower))),
        // a closure without the previous-value argument (EffectFunction<(), NoParam>)
        (0, 2) => EffHandle::Eff(Effect::new(move || {
            run_effect_body(id, &e, &lower);
        })),
        #[allow(deprecated)]
        (0, 3) => EffHandle::Eff(reactive_graph::effect::create_effect(move |_: Option<Ret>| {
            run_effect_body(id, &e, &lower)
        })),
        #[allow(deprecated)]
        (2 | 3, 2) => EffHandle::Stop(Box::new(reactive_graph::effect::watch(
            move || run_effect_body(id, &e, &lower).v,
            move |_new: &i64, _old: Option<&i64>, _prev: Option<i64>| run_handler(id, &hd, &l2),
            kind == 3,
        ))),
        (4, 1) => EffHandle::Iso(Effect::new_isomorphic(move || {
            run_effect_body(id, &e, &lower);
        })),
        (0, _) => EffHandle::Eff(Effect::new(move |_: Option<Ret>| run_effect_body(id, &e, &lower))),
        (1, 1) => EffHandle::Render(Some(RenderEffect::new_isomorphic(move |_: Option<Ret>| {
            run_effect_body(id, &e, &lower)
        }))),
        (1, 2) => EffHandle::Render(Some(RenderEffect::new_with_value(
            move |_: Option<Ret>| run_effect_body(id, &e, &lower),
            Some(Ret { v: 0, _nested: vec![] }),
        ))),
        (1, _) => EffHandle::Render(Some(RenderEffect::new(move |_: Option<Ret>| {
            run_effect_body(id, &e, &lower)
        }))),
        (2 | 3, 1) => EffHandle::Iso(Effect::watch_sync(
            move || run_effect_body(id, &e, &lower),
            move |_new: &Ret, _old: Option<&Ret>, _prev: Option<i64>| run_handler(id, &hd, &l2),
            kind == 3,
        )),
        (2 | 3, _) => EffHandle::Eff(Effect::watch(
            move || run_effect_body(id, &e, &lower),
            move |_new: &Ret, _old: Option<&Ret>, _prev: Option<i64>| run_handler(id, &hd, &l2),
            kind == 3,
        )),
        (4, _) => EffHandle::Iso(Effect::new_isomorphic(move |_: Option<Ret>| {
            run_effect_body(id, &e, &lower)
        })),
        (_, 1) => EffHandle::Imm(Some(ImmediateEffect::new_isomorphic(move || {
            run_body(id, &e, &lower);
        }))),
        (_, 2) => {
            // lives until the current owner is cleaned up
            ImmediateEffect::new_scoped(move || {
                run_body(id, &e, &lower);
            });
            EffHandle::Imm(None)
        }
        (_, 3) => EffHandle::Imm(Some(ImmediateEffect::new_mut(move || {
            run_body(id, &e, &lower);
        }))),
        _ => EffHandle::Imm(Some(ImmediateEffect::new(move || {
            run_body(id, &e, &lower);
        }))),
    }
}

/// (9 k): the node declared by template k is created now, by the body that is running, under
/// the current owner; it sees the nodes its creator sees
fn instantiate(k: usize, hs: &mut Vec<Handle>) {
    let (decl, id) = CTX.with(|c| {
        let mut c = c.borrow_mut();
        let id = c.next_id;
        c.next_id += 1;
        (c.templates.get(k).cloned().flatten().expect("case instantiates a node that is not a template"), id)
    });
    ev(12, vec![id, k as i64]);
    let lower: Arc<Vec<Handle>> = Arc::new(hs.clone());
    let h = match decl.at(0).num() {
        1 => {
            let h = make_memo(decl.at(1).num(), decl.at(2).num(), id as usize, parse_expr(decl.at(3)), lower, decl.at(4).num() / 8);
            KEEP.with(|k| k.borrow_mut().push(h.clone()));
            h
        }
        _ => {
            // the label of the tasks spawned from here on; put back afterwards (the creator may
            // be a RenderEffect in its first run, whose own task is spawned after that run)
            let saved = EXEC.with(|x| std::mem::replace(&mut x.borrow_mut().label, id));
            let made = make_effect(decl.at(1).num(), id as usize, parse_expr(decl.at(2)), parse_expr(decl.at(3)), lower, decl.at(5).num());
            EXEC.with(|x| x.borrow_mut().label = saved);
            match made {
                EffHandle::Render(Some(r)) => NESTED.with(|n| match n.borrow_mut().last_mut() {
                    Some(top) => top.push(r),
                    None => panic!("case creates a RenderEffect outside an effect body"),
                }),
                EffHandle::Imm(_) => panic!("case creates an ImmediateEffect at run time"),
                _ => {} // Effect::new / watch / new_isomorphic live in the arena of the current owner
            }
            Handle::Effect
        }
    };
    hs[k] = Handle::Inst(id, Box::new(h));
}

fn run_handler(id: usize, e: &Expr, hs: &[Handle]) -> i64 {
    ev(5, vec![id as i64]);
    let _g = BodyGuard::enter(id as i64);
    let _u = UntrGuard::enter();
    let mut env = hs.to_vec();
    let v = eval(e, &mut env);
    drop(_u);
    drop(_g);
    ev(6, vec![id as i64, v]);
    v
}

// ------------------------------------------------------------------ harness-owned executor
struct TaskWaker {
    id: usize,
    queued: Arc<AtomicBool>,
    queue: Arc<Mutex<VecDeque<usize>>>,
    // case flag 1: every poll hands out a new waker; the ones handed out before are dead
    gen: u64,
    cur: Arc<std::sync::atomic::AtomicU64>,
}
impl Wake for TaskWaker {
    fn wake(self: Arc<Self>) {
        self.wake_by_ref()
    }
    fn wake_by_ref(self: &Arc<Self>) {
        if self.gen != self.cur.load(Ordering::SeqCst) {
            return;
        }
        if !self.queued.swap(true, Ordering::SeqCst) {
            self.queue.lock().unwrap().push_back(self.id);
        }
    }
}
struct Task {
    label: i64,
    fut: Option<Pin<Box<dyn Future<Output = ()>>>>,
    waker: Arc<TaskWaker>,
}
#[derive(Default)]
struct Exec {
    tasks: Vec<Task>,
    queue: Arc<Mutex<VecDeque<usize>>>,
    label: i64,
    // labels of the internal effects of selectors: a Selector notifies its keys in FxHashMap
    // order; the tasks woken during one poll of such an effect are queued in label order
    // (the model does the same: Effects.canon_wakes)
    canon: Vec<i64>,
}
thread_local! {
    static EXEC: RefCell<Exec> = RefCell::new(Exec::default());
}
struct HarnessExecutor;
fn exec_spawn(fut: Pin<Box<dyn Future<Output = ()>>>) {
    EXEC.with(|e| {
        let mut e = e.borrow_mut();
        let id = e.tasks.len();
        let waker = Arc::new(TaskWaker { id, queued: Arc::new(AtomicBool::new(true)), queue: e.queue.clone(), gen: 0, cur: Arc::new(std::sync::atomic::AtomicU64::new(0)) });
        let label = e.label;
        e.tasks.push(Task { label, fut: Some(fut), waker });
        e.queue.lock().unwrap().push_back(id);
    })
}
impl CustomExecutor for HarnessExecutor {
    fn spawn(&self, fut: PinnedFuture<()>) {
        exec_spawn(fut)
    }
    fn spawn_local(&self, fut: PinnedLocalFuture<()>) {
        exec_spawn(fut)
    }
    fn poll_local(&self) {}
}
fn exec_ready_len() -> usize {
    EXEC.with(|e| e.borrow().queue.lock().unwrap().len())
}
/// poll the k-th ready task (queue order = wake order); returns its label
fn exec_poll_nth(k: usize) -> Option<i64> {
    let (id, label, fut, waker) = EXEC.with(|e| {
        let mut e = e.borrow_mut();
        let id = {
            let mut q = e.queue.lock().unwrap();
            if q.is_empty() {
                return None;
            }
            let k = k % q.len();
            q.remove(k).unwrap()
        };
        let fresh = flag(1);
        let t = &mut e.tasks[id];
        t.waker.queued.store(false, Ordering::SeqCst);
        if fresh {
            let gen = t.waker.cur.fetch_add(1, Ordering::SeqCst) + 1;
            t.waker = Arc::new(TaskWaker { id, queued: t.waker.queued.clone(), queue: t.waker.queue.clone(), gen, cur: t.waker.cur.clone() });
        }
        Some((id, t.label, t.fut.take(), t.waker.clone()))
    })?;
    ev(8, vec![label]);
    let n0 = exec_ready_len();
    if let Some(mut fut) = fut {
        let w = Waker::from(waker);
        let mut cx = Context::from_waker(&w);
        match fut.as_mut().poll(&mut cx) {
            Poll::Ready(()) => drop(fut),
            Poll::Pending => EXEC.with(|e| e.borrow_mut().tasks[id].fut = Some(fut)),
        }
    }
    drain_streams();
    EXEC.with(|e| {
        let e = e.borrow();
        if e.canon.contains(&label) {
            let mut q = e.queue.lock().unwrap();
            let cut = n0.min(q.len());
            let mut tail: Vec<usize> = q.drain(cut..).collect();
            tail.sort_by_key(|t| e.tasks[*t].label);
            q.extend(tail);
        }
    });
    Some(label)
}
/// case flag 4: every task that is NOT ready is polled once (a spurious wake-up); nothing may
/// happen (no event is printed for such a poll: a body that runs shows up outside any poll)
fn exec_spurious() {
    if !flag(4) {
        return;
    }
    let n = EXEC.with(|e| e.borrow().tasks.len());
    for id in 0..n {
        let got = EXEC.with(|e| {
            let mut e = e.borrow_mut();
            let t = &mut e.tasks[id];
            if t.waker.queued.load(Ordering::SeqCst) {
                return None;
            }
            t.fut.take().map(|f| (f, t.waker.clone()))
        });
        if let Some((mut fut, waker)) = got {
            let w = Waker::from(waker);
            let mut cx = Context::from_waker(&w);
            match fut.as_mut().poll(&mut cx) {
                Poll::Ready(()) => drop(fut),
                Poll::Pending => EXEC.with(|e| e.borrow_mut().tasks[id].fut = Some(fut)),
            }
        }
    }
}
fn exec_reset() {
    let old = EXEC.with(|e| std::mem::take(&mut *e.borrow_mut()));
    drop(old);
}

// ------------------------------------------------------------------ one case
enum EffHandle {
    Gone,
    Stop(Box<dyn Fn()>), // the stop closure the deprecated `watch` function returns
    Eff(Effect<LocalStorage>),
    Iso(Effect<SyncStorage>),
    Render(Option<RenderEffect<Ret>>),
    Imm(Option<ImmediateEffect>),
}
struct EffRec {
    owner: Owner,
    handle: EffHandle,
    parent: Option<usize>,
}

/// the effects created under the owner of `o` or below, children first (the order in which
/// Owner::cleanup reaches them), `o` last
fn postorder(effs: &[Option<EffRec>], o: usize, out: &mut Vec<usize>) {
    for (c, r) in effs.iter().enumerate() {
        if let Some(r) = r {
            if r.parent == Some(o) && c != o {
                postorder(effs, c, out);
            }
        }
    }
    out.push(o);
}

const RUN_LIMIT: usize = 64;

fn run_case(c: &Sexp, mask: u8) -> Sexp {
    exec_reset();
    CTX.with(|x| {
        let mut x = x.borrow_mut();
        x.trace.clear();
        x.stack.clear();
        x.untracked = 0;
        x.mask = mask;
        x.gone.clear();
        x.templates.clear();
        x.next_id = c.at(0).list().len() as i64;
        x.flags = c.at(2).num();
        // the API variant of a node: the field after the ones the model reads
        x.vars = c
            .at(0)
            .list()
            .iter()
            .map(|nd| match nd.at(0).num() {
                0 | 2 => nd.at(3).num(),
                1 => nd.at(4).num(),
                5 if nd.at(1).at(0).num() == 1 => nd.at(1).at(4).num(), // a memo template: its instances
                _ => 0,
            })
            .collect();
    });
    KEEP.with(|k| k.borrow_mut().clear());
    KEEPOWN.with(|k| k.borrow_mut().clear());
    NESTED.with(|n| n.borrow_mut().clear());
    STREAMS.with(|x| x.borrow_mut().clear());
    let prog = c.at(0).list();
    let ops = c.at(1).list();
    let root = Owner::new();
    root.set();
    let mut hs: Vec<Handle> = vec![];
    let mut effs: Vec<Option<EffRec>> = vec![];
    let mut is_eff = vec![];
    for (i, nd) in prog.iter().enumerate() {
        let lower: Arc<Vec<Handle>> = Arc::new(hs.clone());
        let mut eff = None;
        let h = match nd.at(0).num() {
            0 => {
                let init = nd.at(2).num();
                match nd.at(1).num() {
                    0 => Handle::ArcRw(ArcRwSignal::new(init)),
                    1 => {
                        let (r, w) = signal(init);
                        Handle::Pair(r, w)
                    }
                    2 => Handle::Rw(RwSignal::new(init)),
                    3 => Handle::Trig(Arc::new(AtomicI64::new(init)), ArcTrigger::new()),
                    5 => Handle::SelCell,
                    6 => Handle::SelKey(init),
                    _ => {
                        let (r, w) = arc_signal(init);
                        Handle::ArcPair(r, w)
                    }
                }
            }
            1 => {
                let cmp = nd.at(1).num();
                let flavor = nd.at(2).num();
                let e = parse_expr(nd.at(3));
                make_memo(cmp, flavor, i, e, lower, nd.at(4).num() / 8)
            }
            5 => {
                // a template: created at run time by the bodies that evaluate (9 i)
                CTX.with(|x| {
                    let mut x = x.borrow_mut();
                    if x.templates.len() <= i {
                        x.templates.resize(i + 1, None);
                    }
                    x.templates[i] = Some(nd.at(1).clone());
                });
                Handle::Template
            }
            4 => {
                // (4 cmp src V P (T ...)): a Selector over the closure src; its internal
                // RenderEffect runs src now and spawns its task
                let e = parse_expr(nd.at(2));
                let ts: Vec<usize> = nd.at(5).list().iter().map(|t| t.num() as usize).collect();
                EXEC.with(|x| {
                    let mut x = x.borrow_mut();
                    x.label = i as i64;
                    x.canon.push(i as i64);
                });
                let src = move || run_body(i, &e, &lower);
                let sel = match nd.at(1).num() {
                    0 => Selector::new(src),
                    1 => Selector::new_with_fn(src, |k: &i64, v: &i64| k == v),
                    2 => Selector::new_with_fn(src, |k: &i64, v: &i64| {
                        k.div_euclid(10) == v.div_euclid(10)
                    }),
                    _ => Selector::new_with_fn(src, |k: &i64, v: &i64| v >= k),
                };
                Handle::Sel(sel, ts)
            }
            2 if nd.at(1).num() >= 3 => {
                // wrappers: the body is (1 j) (wrap node j) or (0 z) (a stored constant)
                let e = parse_expr(nd.at(2));
                let inner = match &e {
                    Expr::Rd(j) => Some(*j),
                    _ => None,
                };
                let z = match &e {
                    Expr::Const(z) => *z,
                    _ => 0,
                };
                let dv = nd.at(3).num() / 8;
                #[allow(deprecated)]
                match (nd.at(1).num(), inner) {
                    // Signal<_, LocalStorage> straight from an Arc signal
                    (3, Some(j)) if dv == 2 && matches!(hs[j], Handle::ArcRw(_) | Handle::ArcPair(..)) => match &hs[j] {
                        Handle::ArcRw(s) => Handle::WrapL(Signal::<i64, LocalStorage>::from(s.clone()), inner),
                        Handle::ArcPair(r, _) => Handle::WrapL(Signal::<i64, LocalStorage>::from(r.clone()), inner),
                        _ => unreachable!(),
                    },
                    (3, Some(j)) => Handle::Wrap(to_signal(&hs[j]), inner),
                    (3, None) => match dv {
                        1 => Handle::Wrap(Signal::from(z), None),
                        2 => Handle::WrapL(Signal::stored_local(z), None),
                        _ => Handle::Wrap(Signal::stored(z), None),
                    },
                    (4, Some(j)) => Handle::ArcWrap(to_arc_signal(&hs[j]), inner),
                    (4, None) => match dv {
                        1 => Handle::ArcWrap(ArcSignal::from(z), None),
                        2 => Handle::ArcWrapL(ArcSignal::stored_local(z), None),
                        _ => Handle::ArcWrap(ArcSignal::stored(z), None),
                    },
                    (5, Some(j)) => match &hs[j] {
                        Handle::ArcRw(s) if dv == 1 => {
                            Handle::Mapped(MappedSignal::from(ArcMappedSignal::new(s.clone(), id_ref, id_mut)), j)
                        }
                        Handle::ArcRw(s) => Handle::ArcMapped(ArcMappedSignal::new(s.clone(), id_ref, id_mut), j),
                        Handle::Rw(s) => Handle::Mapped(MappedSignal::new(*s, id_ref, id_mut), j),
                        _ => panic!("case maps a node that is not an (Arc)RwSignal"),
                    },
                    (7, Some(j)) => Handle::Prop(
                        match (&hs[j], dv) {
                            (Handle::Pair(r, _), 1) => MaybeProp::from(*r),
                            (Handle::Rw(s), 1) => MaybeProp::from(*s),
                            (Handle::Memo(m), 1) => MaybeProp::from(*m),
                            (h, _) => MaybeProp::from(to_signal(h)),
                        },
                        inner,
                    ),
                    (7, None) => Handle::Prop(if dv == 1 { MaybeProp::from(Some(z)) } else { MaybeProp::from(z) }, None),
                    (8, Some(j)) => Handle::OptSig(Signal::<Option<i64>>::from(to_signal(&hs[j])), inner),
                    (8, None) => Handle::OptSig(Signal::<Option<i64>>::from(z), None),
                    (9, Some(j)) => Handle::Wrap(Signal::from(to_maybe(&hs[j])), inner),
                    (9, None) => Handle::Wrap(Signal::from(MaybeSignal::Static(z)), None),
                    (_, Some(j)) => Handle::Maybe(to_maybe(&hs[j]), inner),
                    (_, None) => Handle::Maybe(MaybeSignal::Static(z), None),
                }
            }
            2 => {
                let e = parse_expr(nd.at(2));
                let f = move || {
                    let mut env = (*lower).clone();
                    eval(&e, &mut env)
                };
                #[allow(deprecated)]
                match (nd.at(1).num(), nd.at(3).num() / 8) {
                    (0, 1) => Handle::Maybe(MaybeSignal::derive(f), None),
                    (0, 2) => Handle::Prop(MaybeProp::derive(move || Some(f())), None),
                    (0, _) => Handle::Closure(Arc::new(f)),
                    (1, 1) => Handle::WrapL(Signal::derive_local(f), None),
                    (1, _) => Handle::Derive(Signal::derive(f)),
                    (_, 1) => Handle::ArcWrapL(ArcSignal::derive_local(f), None),
                    (_, _) => Handle::ArcDerive(ArcSignal::derive(f)),
                }
            }
            _ => {
                let kind = nd.at(1).num();
                let e = parse_expr(nd.at(2));
                let hd = parse_expr(nd.at(3));
                // the owner tree: the fifth field names the effect under whose owner this
                // effect's owner is created (absent / -1: under the root)
                let parent = if nd.list().len() > 4 && nd.at(4).num() >= 0 {
                    Some(nd.at(4).num() as usize)
                } else {
                    None
                };
                let owner = match parent.and_then(|q| effs.get(q)).and_then(|r: &Option<EffRec>| r.as_ref()) {
                    Some(r) => r.owner.child(),
                    None => root.child(),
                };
                EXEC.with(|x| x.borrow_mut().label = i as i64);
                if kind == 6 {
                    // (3 6 (1 j) (0 0) ..): `signal_j.to_stream()` created under this owner
                    let j = match &e {
                        Expr::Rd(j) => *j,
                        _ => panic!("case: to_stream wants the body (1 j)"),
                    };
                    // the stream type borrows the handle it was made from (`&self` is captured by
                    // the `impl Stream` of the trait method): the handle clone is leaked
                    fn leak<T>(x: T) -> &'static T {
                        Box::leak(Box::new(x))
                    }
                    let st: ValStream = match &hs[j] {
                        Handle::ArcRw(s) => {
                            let s = leak(s.clone());
                            owner.with(|| Box::pin(s.to_stream()) as ValStream)
                        }
                        Handle::Pair(r, _) => {
                            let r = leak(*r);
                            owner.with(|| Box::pin(r.to_stream()) as ValStream)
                        }
                        Handle::Rw(s) => {
                            let s = leak(*s);
                            owner.with(|| Box::pin(s.to_stream()) as ValStream)
                        }
                        Handle::ArcPair(r, _) => {
                            let r = leak(r.clone());
                            owner.with(|| Box::pin(r.to_stream()) as ValStream)
                        }
                        _ => panic!("case: to_stream of a node that is not a signal"),
                    };
                    STREAMS.with(|x| x.borrow_mut().push((i, j, st)));
                    effs.push(Some(EffRec { owner, handle: EffHandle::Gone, parent }));
                    is_eff.push(true);
                    hs.push(Handle::Effect);
                    continue;
                }
                let handle = owner.with(|| make_effect(kind, i, e, hd, lower, nd.at(5).num()));
                eff = Some(EffRec { owner, handle, parent });
                Handle::Effect
            }
        };
        is_eff.push(eff.is_some());
        effs.push(eff);
        hs.push(h);
    }
    CTX.with(|x| {
        let mut x = x.borrow_mut();
        x.gone = vec![false; is_eff.len()];
        x.effects = is_eff;
    });

    'ops: for op in ops {
        let a = op.at(1).num();
        ev(11, vec![]); // operation boundary
        match op.at(0).num() {
            0 => write_node(&hs, a as usize, op.at(2).num()),
            1 => notify_node(&hs, a as usize),
            2 => {
                if !is_gone(a as usize) {
                    let v = read_node(&hs, a as usize, true);
                    ev(0, vec![a, v]);
                }
            }
            8 => {
                // dispose an arena signal / memo: its value and subscriber set are dropped
                if !is_gone(a as usize) {
                    match &hs[a as usize] {
                        Handle::Pair(r, w) => {
                            r.dispose();
                            w.dispose();
                        }
                        Handle::Rw(s) => s.dispose(),
                        Handle::Memo(m) => m.dispose(),
                        _ => panic!("case disposes a node that is not an arena signal / memo"),
                    }
                    CTX.with(|x| x.borrow_mut().gone[a as usize] = true);
                }
            }
            3 => {
                exec_spurious();
                if exec_poll_nth(a as usize).is_none() {
                    ev(8, vec![-1]);
                }
            }
            4 => {
                let mut n = 0;
                exec_spurious();
                while exec_ready_len() > 0 {
                    if n == RUN_LIMIT {
                        ev(9, vec![]);
                        break 'ops;
                    }
                    exec_poll_nth(0);
                    n += 1;
                }
                ev(7, vec![]);
            }
            5 => {
                if let Some(Some(r)) = effs.get(a as usize) {
                    r.owner.pause()
                }
            }
            6 => {
                if let Some(Some(r)) = effs.get(a as usize) {
                    r.owner.resume()
                }
            }
            7 => {
                // the handles of the RenderEffects / ImmediateEffects of the subtree are dropped
                // (they live in their handle, not in the arena), then the owner is cleaned up
                let how = op.at(2).num();
                if how != 0 {
                    // the effect itself is disposed (Dispose::dispose / Effect::stop / the handle
                    // dropped); its owner is left alone
                    if let Some(Some(r)) = effs.get_mut(a as usize) {
                        match std::mem::replace(&mut r.handle, EffHandle::Gone) {
                            EffHandle::Eff(h) => if how == 2 { h.stop() } else { h.dispose() },
                            EffHandle::Iso(h) => if how == 2 { h.stop() } else { h.dispose() },
                            EffHandle::Render(h) => drop(h),
                            EffHandle::Imm(h) => drop(h),
                            EffHandle::Stop(stop) => stop(),
                            EffHandle::Gone => {}
                        }
                    }
                } else if let Some(Some(_)) = effs.get(a as usize) {
                    let mut po = vec![];
                    postorder(&effs, a as usize, &mut po);
                    for d in po {
                        if let Some(Some(r)) = effs.get_mut(d) {
                            match &mut r.handle {
                                EffHandle::Render(h) => drop(h.take()),
                                EffHandle::Imm(h) => drop(h.take()),
                                _ => {}
                            }
                        }
                    }
                    if let Some(Some(r)) = effs.get(a as usize) {
                        r.owner.cleanup();
                    }
                }
            }
            9 => silent_node(&hs, a as usize, op.at(2).num()),
            12 => {
                // (12 g r s v): a second thread holds a read guard of ArcMemo g (`read_untracked()`)
                // while a third thread reads ArcMemo r (g itself, or a memo over g); the read may
                // wait for the guard, but what it returns is the current value.  Bodies that run
                // on those threads log into their own (discarded) trace.
                let r = op.at(2).num();
                let (mg, mr) = match (&hs[a as usize], &hs[r as usize]) {
                    (Handle::ArcMemo(g), Handle::ArcMemo(r)) => (g.clone(), r.clone()),
                    _ => panic!("case: (12 g r) wants two ArcMemos"),
                };
                let (tx_ready, rx_ready) = mpsc::channel::<()>();
                let (tx_release, rx_release) = mpsc::channel::<()>();
                let holder = std::thread::spawn(move || {
                    let guard = mg.read_untracked();
                    let _ = tx_ready.send(());
                    let _ = rx_release.recv_timeout(Duration::from_secs(3));
                    drop(guard);
                });
                rx_ready.recv_timeout(Duration::from_secs(3)).expect("the guard holder did not start");
                // the write lands while the guard is alive: (12 g r s v)
                write_node(&hs, op.at(3).num() as usize, op.at(4).num());
                let (tx_val, rx_val) = mpsc::channel::<i64>();
                std::thread::spawn(move || {
                    let _ = tx_val.send(mr.get_untracked());
                });
                // either the read comes back at once (nothing to recompute) or it waits for the guard
                let v = match rx_val.recv_timeout(Duration::from_millis(150)) {
                    Ok(v) => {
                        let _ = tx_release.send(());
                        v
                    }
                    Err(_) => {
                        let _ = tx_release.send(());
                        rx_val
                            .recv_timeout(Duration::from_secs(3))
                            .expect("the cross-thread read did not return after the guard was dropped")
                    }
                };
                let _ = holder.join();
                ev(2, vec![-1, r, v, 0]);
                ev(0, vec![r, v]);
            }
            10 => {
                // an effect (template k) is created NOW under the owner of effect `a`
                let k = op.at(2).num() as usize;
                if let Some(Some(r)) = effs.get(a as usize) {
                    let mut env = hs.clone();
                    r.owner.with(|| instantiate(k, &mut env));
                }
            }
            _ => {}
        }
    }
    // tear down: drop every effect, then the graph, then whatever the executor still holds
    let out = CTX.with(|x| std::mem::take(&mut x.borrow_mut().trace));
    CTX.with(|x| x.borrow_mut().mask = 255);
    drop(effs);
    drop(hs);
    STREAMS.with(|x| x.borrow_mut().clear());
    KEEP.with(|k| k.borrow_mut().clear());
    let kept = KEEPOWN.with(|k| std::mem::take(&mut *k.borrow_mut()));
    drop(kept);
    root.cleanup();
    drop(root);
    exec_reset();
    Lst(filter(out, mask, c))
}

/// every sub-command observes the full event trace (the three properties constrain
/// different aspects of the same runs; their generators and oracles differ)
fn filter(tr: Vec<Sexp>, _mask: u8, _c: &Sexp) -> Vec<Sexp> {
    tr
}

// ------------------------------------------------------------------ driver with watchdog
fn spawn_worker(mask: u8) -> (mpsc::Sender<String>, mpsc::Receiver<String>) {
    let (tx_case, rx_case) = mpsc::channel::<String>();
    let (tx_res, rx_res) = mpsc::channel::<String>();
    std::thread::Builder::new()
        .stack_size(64 << 20)
        .spawn(move || {
            let _ = Executor::init_local_custom_executor(HarnessExecutor);
            for line in rx_case {
                let res = match Sexp::parse(&line) {
                    Err(e) => format!("!parse-error {e}"),
                    Ok(c) => {
                        let r = std::panic::catch_unwind(std::panic::AssertUnwindSafe(|| run_case(&c, mask)));
                        match r {
                            Ok(v) => format!("{v}"),
                            Err(e) => {
                                let msg = e
                                    .downcast_ref::<String>()
                                    .cloned()
                                    .or_else(|| e.downcast_ref::<&str>().map(|s| s.to_string()))
                                    .unwrap_or_default();
                                // leave no half-built state behind
                                CTX.with(|x| {
                                    let mut x = x.borrow_mut();
                                    x.stack.clear();
                                    x.untracked = 0;
                                });
                                let _ = std::panic::catch_unwind(std::panic::AssertUnwindSafe(exec_reset));
                                format!("!panic {}", msg.replace('\n', " "))
                            }
                        }
                    }
                };
                if tx_res.send(res).is_err() {
                    break;
                }
            }
        })
        .unwrap();
    (tx_case, rx_res)
}

fn main() {
    use std::io::{BufRead, Write};
    let sub = std::env::args().nth(1).unwrap_or_default();
    let mask: u8 = match sub.as_str() {
        "c01" => 1,
        "c09" => 9,
        "c02" => 2,
        _ => 0,
    };
    let timeout = std::env::var("RX_CASE_TIMEOUT_MS").ok().and_then(|s| s.parse().ok()).unwrap_or(4000u64);
    std::panic::set_hook(Box::new(|_| {}));
    // the library prints diagnostics with eprintln!; the driver merges stderr into stdout
    unsafe {
        let devnull = libc::open(b"/dev/null\0".as_ptr() as *const libc::c_char, libc::O_WRONLY);
        if devnull >= 0 {
            libc::dup2(devnull, 2);
        }
    }
    let stdin = std::io::stdin();
    let stdout = std::io::stdout();
    let mut out = std::io::BufWriter::new(stdout.lock());
    let (mut tx, mut rx) = spawn_worker(mask);
    for line in stdin.lock().lines() {
        let line = line.unwrap();
        if line.trim().is_empty() {
            continue;
        }
        tx.send(line).unwrap();
        match rx.recv_timeout(Duration::from_millis(timeout)) {
            Ok(res) => writeln!(out, "{res}").unwrap(),
            Err(mpsc::RecvTimeoutError::Timeout) => {
                writeln!(out, "!hang").unwrap();
                // the worker is stuck (self-deadlock or livelock): abandon it
                let (t, r) = spawn_worker(mask);
                tx = t;
                rx = r;
            }
            Err(mpsc::RecvTimeoutError::Disconnected) => {
                writeln!(out, "!worker-died").unwrap();
                let (t, r) = spawn_worker(mask);
                tx = t;
                rx = r;
            }
        }
    }
    out.flush().unwrap();
    // abandoned workers may still be blocked: do not join them
    std::process::exit(0);
}
