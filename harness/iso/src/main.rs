//! Harness for C20 — concurrent server renders never see each other's state.
//!
//! `h_iso c20` reads one case per line and prints one observation per line.
//!
//!   case  = (obs sandboxed ooo pipeline fine (prog ...) (sched ...))
//!   obs   = 0: print the abstract trace (what the Coq model reproduces); 1: print the concrete
//!           observation (responses, solo responses, ...) for the oracle
//!   prog  = view grammar, see `build`
//!   sched = coarse: ((0 r) | (1 r g) | (2 r) | (3 r) | (4 r)) ...   (start / fire gate / run / finish /
//!                   create = build_response only, first poll later; (5 r) abort = drop the response from
//!                   outside; (6 r) run the request's runnable spawned tasks even after its response is gone)
//!           fine  : (n n n ...)  each n picks (mod the number of enabled actions) the next single
//!                   task poll / gate completion / request start
//!
//! Every request is rendered the way the shipped integrations do it
//! (integrations/utils `build_response` + `ExtendResponse::from_app`): one root owner with its own
//! `SsrSharedContext`, app built under `owner.with`, the HTML stream chained with `pending_data`,
//! owner dropped by the last stream item — but on an executor owned by the harness, so that the
//! case decides which request's task is polled next.  With the `sandboxed` cargo feature the crate
//! is built against reactive_graph's `sandboxed-arenas` and can also drive the *real*
//! `leptos_integration_utils::ExtendResponse::from_app` (pipeline = 1).
//!
//! A binary built without the feature forwards cases whose `sandboxed` flag is 1 to the sibling
//! binary named by `H_ISO_SB`.
use futures::{
    channel::oneshot,
    future::{FutureExt, Shared},
    stream::{once, Stream, StreamExt},
};
use hydration_context::{SharedContext, SsrSharedContext};
use leptos::{context::Provider, prelude::*};
use std::{
    cell::RefCell,
    collections::{BTreeMap, BTreeSet, HashMap},
    future::Future,
    pin::Pin,
    sync::{
        atomic::{AtomicBool, Ordering},
        Arc, Mutex,
    },
    task::{Context, Poll, Wake, Waker},
};
use vsexp::{Lst, Num, Sexp};

type PinnedStream = Pin<Box<dyn Stream<Item = String> + Send>>;
type PinnedFuture<T> = Pin<Box<dyn Future<Output = T> + Send>>;

// ------------------------------------------------------------------------------------------
// executor owned by the harness
// ------------------------------------------------------------------------------------------
struct Flag(AtomicBool);
impl Wake for Flag {
    fn wake(self: Arc<Self>) {
        self.0.store(true, Ordering::SeqCst)
    }
    fn wake_by_ref(self: &Arc<Self>) {
        self.0.store(true, Ordering::SeqCst)
    }
}
fn new_flag(v: bool) -> Arc<Flag> {
    Arc::new(Flag(AtomicBool::new(v)))
}

struct Task {
    req: usize,
    fut: Option<Pin<Box<dyn Future<Output = ()>>>>,
    flag: Arc<Flag>,
    done: bool,
}

#[derive(Clone, Debug, PartialEq, Eq, PartialOrd, Ord)]
struct Event {
    req: i64,
    probe: i64,
    kind: i64,
    owner_req: i64,
    t0: i64,
    t1: i64,
    item: i64,
}

#[derive(Default)]
struct World {
    tasks: Vec<Task>,
    cur_req: usize,
    dropping: usize,
    events: Vec<Event>,
    cleanups: Vec<(i64, i64, i64)>, // (request, id, request whose action was running when it ran)
    roots: Vec<(usize, usize)>,     // (Owner::debug_id of a root, request)
    canaries: BTreeMap<usize, StoredValue<i64>>,
}

thread_local! {
    static W: RefCell<World> = RefCell::new(World::default());
}

struct Exec;
impl any_spawner::CustomExecutor for Exec {
    fn spawn(&self, fut: any_spawner::PinnedFuture<()>) {
        self.spawn_local(fut)
    }
    fn spawn_local(&self, fut: any_spawner::PinnedLocalFuture<()>) {
        W.with(|w| {
            let mut w = w.borrow_mut();
            let req = w.cur_req;
            w.tasks.push(Task { req, fut: Some(fut), flag: new_flag(true), done: false });
        })
    }
    fn poll_local(&self) {}
}

/// poll spawned task `i` once; returns false if it was not pollable
fn poll_task(i: usize) -> bool {
    let got = W.with(|w| {
        let mut w = w.borrow_mut();
        let t = &mut w.tasks[i];
        if t.done {
            return None;
        }
        t.flag.0.store(false, Ordering::SeqCst);
        t.fut.take().map(|f| (f, t.flag.clone()))
    });
    let Some((mut fut, flag)) = got else { return false };
    let waker = Waker::from(flag);
    let mut cx = Context::from_waker(&waker);
    let r = fut.as_mut().poll(&mut cx);
    match r {
        Poll::Ready(()) => {
            drop(fut);
            W.with(|w| w.borrow_mut().tasks[i].done = true);
        }
        Poll::Pending => W.with(|w| w.borrow_mut().tasks[i].fut = Some(fut)),
    }
    true
}

// ------------------------------------------------------------------------------------------
// what request code can observe
// ------------------------------------------------------------------------------------------
#[derive(Clone, Debug, PartialEq)]
struct Tag0(i64); // provided on the root owner of each request
#[derive(Clone, Debug, PartialEq)]
struct Tag1(i64); // provided by nested <Provider/>s

const K_LEAF: i64 = 1;
const K_DYN: i64 = 2;
const K_ASYNC: i64 = 3;
const K_FETCH_PRE: i64 = 4;
const K_FETCH_POST: i64 = 5;
const K_ITEM: i64 = 6;
const K_DYNL: i64 = 7;
const K_BG: i64 = 8;
const K_BGS: i64 = 9; // background task behind ScopedFuture (spawn_local_scoped*): the owner is promised
const K_SFN_PRE: i64 = 10; // server-function body before / after its await
const K_SFN_POST: i64 = 11;
const K_ROUTE: i64 = 12; // route view: item = the request's own route parameter

/// provided on the root owner; taken (and put back on the current owner) by context-API leaves
#[derive(Clone, Debug, PartialEq)]
struct Tag2(i64);
/// provided on the root owner of *page* requests only: a server-function request finds none
#[derive(Clone, Debug, PartialEq)]
struct PageOnly(i64);

/// request (1-based) the ambient owner belongs to; 0 = no owner, 99 = an owner of no request
fn ambient_owner_req() -> i64 {
    match Owner::current() {
        None => 0,
        Some(o) => {
            let root = o.ancestry().last().copied().unwrap_or(o.debug_id());
            W.with(|w| {
                // addresses are reused once a root is freed: the latest registration wins
                w.borrow().roots.iter().rev().find(|(id, _)| *id == root).map(|(_, r)| *r as i64).unwrap_or(99)
            })
        }
    }
}

/// the registry maps the address of a root owner to its request; once the root is cleaned up the
/// address may be reused by any later owner, so the entry has to go
fn forget_root_on_cleanup(idx: usize) {
    on_cleanup(move || {
        let _ = W.try_with(|w| {
            if let Ok(mut w) = w.try_borrow_mut() {
                w.roots.retain(|(_, q)| *q != idx);
            }
        });
    });
}

#[derive(Clone)]
struct Env {
    req: usize,
    gates: Arc<Vec<Shared<oneshot::Receiver<()>>>>,
    slots: Arc<Mutex<HashMap<i64, StoredValue<i64>>>>,
    sigs: Arc<Mutex<HashMap<i64, RwSignal<i64>>>>,
}

fn probe(env: &Env, probe: i64, kind: i64, slot: Option<i64>) -> String {
    probe_mode(env, probe, kind, slot, 0)
}

/// `mode` selects the context API the two context values are read through:
/// 0 use_context, 1 expect_context, 2 with_context, 3 update_context (value left as it is),
/// 4 use_context + take_context::<Tag2> (put back on the current owner; reported as the item),
/// 5 Owner::use_context_bidirectional, 6 (server fn) context 1 = PageOnly
fn probe_mode(env: &Env, probe: i64, kind: i64, slot: Option<i64>, mode: i64) -> String {
    let owner_req = ambient_owner_req();
    let (t0, t1) = match mode {
        1 => (
            if use_context::<Tag0>().is_some() { expect_context::<Tag0>().0 } else { -1 },
            if use_context::<Tag1>().is_some() { expect_context::<Tag1>().0 } else { -1 },
        ),
        2 => (
            with_context::<Tag0, _>(|t| t.0).unwrap_or(-1),
            with_context::<Tag1, _>(|t| t.0).unwrap_or(-1),
        ),
        3 => (
            update_context::<Tag0, _>(|t| { let v = t.0; t.0 = v; v }).unwrap_or(-1),
            update_context::<Tag1, _>(|t| { let v = t.0; t.0 = v; v }).unwrap_or(-1),
        ),
        5 => match Owner::current() {
            None => (-1, -1),
            Some(o) => (
                o.use_context_bidirectional::<Tag0>().map(|t| t.0).unwrap_or(-1),
                o.use_context_bidirectional::<Tag1>().map(|t| t.0).unwrap_or(-1),
            ),
        },
        6 => (
            use_context::<Tag0>().map(|t| t.0).unwrap_or(-1),
            use_context::<PageOnly>().map(|t| t.0).unwrap_or(-1),
        ),
        _ => (
            use_context::<Tag0>().map(|t| t.0).unwrap_or(-1),
            use_context::<Tag1>().map(|t| t.0).unwrap_or(-1),
        ),
    };
    let item = match slot {
        None if mode == 4 => match take_context::<Tag2>() {
            None => -1,
            Some(t) => {
                let still = use_context::<Tag2>().is_some();
                provide_context(Tag2(t.0));
                if still { -4 } else { t.0 }
            }
        },
        None => -9,
        Some(s) if s >= 100 => {
            let h = env.sigs.lock().unwrap().get(&s).copied();
            match h {
                None => -2,
                Some(h) => h.try_get_untracked().unwrap_or(-1),
            }
        }
        Some(s) => {
            let h = env.slots.lock().unwrap().get(&s).copied();
            match h {
                None => -2,
                Some(h) => h.try_get_value().unwrap_or(-1),
            }
        }
    };
    let e = Event { req: env.req as i64, probe, kind, owner_req, t0, t1, item };
    W.with(|w| w.borrow_mut().events.push(e));
    format!("[{probe}:{owner_req}:{t0}:{t1}:{item}]")
}

/// The view grammar.
///  (0)                 static text
///  (1 p)               text leaf printing the context it reads while the view is constructed
///  (2 p)               reactive closure `move || ..` printing the context it reads when rendered
///  (3 child)           <div>
///  (4 c ...)           sequence
///  (5 v child)         <Provider value=Tag1(..)>
///  (6 g p child)       Suspend::new(async { gate g; probe p; child built after the await })
///  (7 fallback child)  <Suspense>
///  (8 kind g p1 p2 p3 child)   Resource (kind 0; 2 = refetched by its reader once loaded) / OnceResource (1) whose fetcher probes before
///                      (p1) and after (p2) awaiting gate g, read by `.await` in a Suspend (p3)
///  (9 id child)        on_cleanup logging `id`
///  (10 slot child)     StoredValue (slot < 100) / RwSignal (slot >= 100) allocation
///  (11 p slot)         leaf reading that handle
///  (12 p)              like (2 p); used where the rendering owner does not depend on timing
///  (13 g p slot)       reactive_graph::spawn(async { gate g; read handle }) — Sandboxed only
fn build(p: &Sexp, env: &Env) -> AnyView {
    let r = env.req as i64;
    match p.at(0).num() {
        1 => probe(env, p.at(1).num(), K_LEAF, None).into_any(),
        2 => {
            let env = env.clone();
            let id = p.at(1).num();
            (move || probe(&env, id, K_DYN, None)).into_any()
        }
        3 => {
            let c = build(p.at(1), env);
            view! { <div>{c}</div> }.into_any()
        }
        4 => p.list()[1..].iter().map(|c| build(c, env)).collect::<Vec<_>>().into_any(),
        5 => {
            let v = 1000 * r + p.at(1).num();
            let child = p.at(2).clone();
            let env = env.clone();
            view! { <Provider value=Tag1(v)>{build(&child, &env)}</Provider> }.into_any()
        }
        6 => {
            let rx = env.gates[p.at(1).num() as usize].clone();
            let id = p.at(2).num();
            let child = p.at(3).clone();
            let env = env.clone();
            Suspend::new(async move {
                let _ = rx.await;
                let s = probe(&env, id, K_ASYNC, None);
                let c = build(&child, &env);
                (s, c)
            })
            .into_any()
        }
        7 => {
            let fb = p.at(1).clone();
            let child = p.at(2).clone();
            let envf = env.clone();
            let env = env.clone();
            view! { <Suspense fallback=move || build(&fb, &envf)>{build(&child, &env)}</Suspense> }
                .into_any()
        }
        8 => {
            let kind = p.at(1).num();
            let rx = env.gates[p.at(2).num() as usize].clone();
            let (p1, p2, p3) = (p.at(3).num(), p.at(4).num(), p.at(5).num());
            let child = p.at(6).clone();
            let envf = env.clone();
            // `sync_pre`: the fetcher of a Resource reads the context in its *synchronous* part,
            // before it builds the future (a OnceResource has no fetcher call, only a future)
            let sync_pre = kind != 1;
            let fetch = move || {
                let envf = envf.clone();
                let rx = rx.clone();
                let pre = if sync_pre { Some(probe(&envf, p1, K_FETCH_PRE, None)) } else { None };
                async move {
                    let a = match pre {
                        Some(a) => a,
                        None => probe(&envf, p1, K_FETCH_PRE, None),
                    };
                    let _ = rx.await;
                    let b = probe(&envf, p2, K_FETCH_POST, None);
                    format!("{a}{b}")
                }
            };
            let env = env.clone();
            if kind == 0 || kind == 2 {
                let res = Resource::new(|| (), move |_| fetch());
                Suspend::new(async move {
                    let v = res.await;
                    if kind == 2 {
                        // the source changes once the first value is there: the loader task has
                        // to call the fetcher again, and the synchronous part of that call
                        // (probe p1) runs inside the task, whenever the executor polls it
                        res.refetch();
                    }
                    let s = probe(&env, p3, K_ASYNC, None);
                    (v, s, build(&child, &env))
                })
                .into_any()
            } else {
                let res = OnceResource::new(fetch());
                Suspend::new(async move {
                    let v = res.await;
                    let s = probe(&env, p3, K_ASYNC, None);
                    (v, s, build(&child, &env))
                })
                .into_any()
            }
        }
        9 => {
            let id = p.at(1).num();
            on_cleanup(move || {
                W.with(|w| {
                    let mut w = w.borrow_mut();
                    // the request whose action (poll / finish) is executing right now
                    let d = w.cur_req as i64;
                    w.cleanups.push((r, id, d));
                })
            });
            build(p.at(2), env)
        }
        10 => {
            let slot = p.at(1).num();
            if slot >= 100 {
                let h = RwSignal::new(10000 * r + slot);
                env.sigs.lock().unwrap().insert(slot, h);
            } else {
                let h = StoredValue::new(10000 * r + slot);
                env.slots.lock().unwrap().insert(slot, h);
            }
            build(p.at(2), env)
        }
        11 => probe(env, p.at(1).num(), K_ITEM, Some(p.at(2).num())).into_any(),
        13 => {
            // reactive_graph::spawn: a background task that is wrapped in Sandboxed only (right
            // arena, no owner): it reads one of the request's handles after awaiting a gate
            let rx = env.gates[p.at(1).num() as usize].clone();
            let id = p.at(2).num();
            let slot = p.at(3).num();
            let mode = p.at(4).num();
            let env = env.clone();
            if mode == 1 || mode == 2 {
                // spawn_local_scoped(_with_cancellation): ScopedFuture + Sandboxed, so the task is
                // promised its owner as well
                let task = async move {
                    let _ = rx.await;
                    probe(&env, id, K_BGS, Some(slot));
                };
                if mode == 1 {
                    reactive_graph::spawn_local_scoped(task);
                } else {
                    reactive_graph::spawn_local_scoped_with_cancellation(task);
                }
                return "bgs".into_any();
            }
            reactive_graph::spawn(async move {
                let _ = rx.await;
                let item = if slot >= 100 {
                    let h = env.sigs.lock().unwrap().get(&slot).copied();
                    h.map(|h| h.try_get_untracked().unwrap_or(-1)).unwrap_or(-2)
                } else {
                    let h = env.slots.lock().unwrap().get(&slot).copied();
                    h.map(|h| h.try_get_value().unwrap_or(-1)).unwrap_or(-2)
                };
                // no owner is promised to such a task: only the arena item is recorded
                let e = Event { req: env.req as i64, probe: id, kind: K_BG, owner_req: -7, t0: -7, t1: -7, item };
                W.with(|w| w.borrow_mut().events.push(e));
            });
            "bg".into_any()
        }
        12 => {
            // a reactive closure in a position where the owner it is rendered under is fixed
            // (not directly in the view a Suspend outside any Suspense resolves to)
            let env = env.clone();
            let id = p.at(1).num();
            (move || probe(&env, id, K_DYNL, None)).into_any()
        }

        14 => probe_mode(env, p.at(1).num(), K_LEAF, None, p.at(2).num()).into_any(),
        15 => build_router(p, env),
        16 => build_resource(p, env),
        17 => {
            // the Owner API used directly by a component
            let mode = p.at(1).num();
            let id = p.at(2).num();
            let log = move || {
                W.with(|w| {
                    let mut w = w.borrow_mut();
                    let d = w.cur_req as i64;
                    w.cleanups.push((r, id, d));
                })
            };
            match mode {
                1 => {
                    // a child owner that a background task cleans up by hand once gate g is done
                    let rx = env.gates[p.at(3).num() as usize].clone();
                    let o = Owner::current().map(|o| o.child()).unwrap_or_default();
                    let v = o.with(|| {
                        on_cleanup(log);
                        build(p.at(4), env)
                    });
                    let o2 = o.clone();
                    reactive_graph::spawn(async move {
                        let _ = rx.await;
                        o2.cleanup();
                    });
                    tachys::reactive_graph::OwnedView::new_with_owner(v, o).into_any()
                }
                2 => {
                    // Owner::with_cleanup: the second entry cleans up what the first one registered
                    let o = Owner::new();
                    o.with_cleanup(|| Owner::on_cleanup(log));
                    let v = o.with_cleanup(|| build(p.at(4), env));
                    tachys::reactive_graph::OwnedView::new_with_owner(v, o).into_any()
                }
                _ => {
                    let o = Owner::new();
                    let v = o.with(|| build(p.at(4), env));
                    tachys::reactive_graph::OwnedView::new_with_owner(v, o).into_any()
                }
            }
        }
        18 => {
            // the request's SsrSharedContext reached through the ambient owner
            let id = p.at(1).num();
            let mode = p.at(2).num();
            let s = probe(env, id, K_LEAF, None);
            let extra = match Owner::current_shared_context() {
                None => "nosc".to_string(),
                Some(sc) => match mode {
                    1 => {
                        use leptos::error::{Error, ErrorId};
                        let b = hydration_context::SerializedDataId::new(id as usize);
                        sc.register_error(
                            b.clone(),
                            ErrorId::from(id as usize),
                            Error::from(std::io::Error::other(format!("err-of-request-{r}"))),
                        );
                        let all: Vec<String> =
                            sc.errors(&b).into_iter().map(|(i, e)| format!("{i}={e}")).collect();
                        format!("errors[{}]", all.join(","))
                    }
                    2 => {
                        let b = hydration_context::SerializedDataId::new(900 + id as usize);
                        let before = sc.get_incomplete_chunk(&b);
                        sc.set_incomplete_chunk(b.clone());
                        format!("incomplete[{before},{}]", sc.get_incomplete_chunk(&b))
                    }
                    3 => Owner::with_no_hydration(move || {
                        let sc = Owner::current_shared_context().unwrap();
                        format!("nohyd[{},{}]", sc.get_is_hydrating(), usize::MAX - sc.next_id().into_inner())
                    }),
                    #[cfg(feature = "sandboxed")]
                    5 => match use_context::<leptos_axum::ResponseOptions>() {
                        // the response headers a page handler of leptos_axum (pipeline 3) collects
                        None => "noopts".to_string(),
                        Some(opts) => {
                            opts.append_header(
                                axum::http::HeaderName::from_static("x-iso"),
                                axum::http::HeaderValue::from_str(&format!("{r}-{id}")).unwrap(),
                            );
                            "opts".to_string()
                        }
                    },
                    4 => Owner::with_hydration(move || {
                        let sc = Owner::current_shared_context().unwrap();
                        format!("hyd[{},{}]", sc.get_is_hydrating(), sc.next_id().into_inner())
                    }),
                    _ => format!("id[{},{}]", sc.get_is_hydrating(), sc.next_id().into_inner()),
                },
            };
            format!("{s}{extra}").into_any()
        }
        19 => {
            let kind = p.at(1).num();
            let n = p.at(2).num().clamp(0, 4);
            let child = p.at(3).clone();
            let env = env.clone();
            if kind == 1 {
                view! {
                    <ForEnumerate
                        each={move || 0..n}
                        key={|i: &i64| *i}
                        children={move |ix: ReadSignal<usize>, i: i64| (format!("row{}:{i}", ix.get_untracked()), build(&child, &env))}
                    />
                }
                .into_any()
            } else {
                view! {
                    <For each={move || 0..n} key={|i: &i64| *i} children={move |i: i64| (format!("row{i}"), build(&child, &env))}/>
                }
                .into_any()
            }
        }
        20 => {
            let fb = p.at(1).clone();
            let child = p.at(2).clone();
            let envf = env.clone();
            let env = env.clone();
            view! { <Transition fallback=move || build(&fb, &envf)>{build(&child, &env)}</Transition> }
                .into_any()
        }
        21 => {
            let env = env.clone();
            let id = p.at(1).num();
            leptos::suspense::Unsuspend::new(move || probe(&env, id, K_DYNL, None)).into_any()
        }
        _ => "x".into_any(),
    }
}


// ------------------------------------------------------------------------------------------
// router: (15 kind p child inner)
//   kind 0  <Router><FlatRoutes><Route path="/r/:id" view=child/></FlatRoutes></Router>
//   kind 1  <Router><Routes><ParentRoute path="/r" view=(child, <Outlet/>)><Route path=":id" view=inner/></ParentRoute></Routes></Router>
//   kind 2  like 0, but the request's URL matches no route: the fallback (= child) is rendered
// The route views are built when the router is *rendered*, under owners the router captured when
// the component ran; every route view reports the route parameter it finds in context (the
// request's URL is /r/<10000*request + 7>).
// ------------------------------------------------------------------------------------------
fn route_probe(env: &Env, id: i64) -> String {
    use leptos_router::hooks::use_params_map;
    let owner_req = ambient_owner_req();
    let t0 = use_context::<Tag0>().map(|t| t.0).unwrap_or(-1);
    let t1 = use_context::<Tag1>().map(|t| t.0).unwrap_or(-1);
    let item = use_params_map()
        .read_untracked()
        .get("id")
        .and_then(|s| s.parse::<i64>().ok())
        .unwrap_or(-1);
    let e = Event { req: env.req as i64, probe: id, kind: K_ROUTE, owner_req, t0, t1, item };
    W.with(|w| w.borrow_mut().events.push(e));
    format!("[{id}:{owner_req}:{t0}:{t1}:{item}]")
}

fn build_router(p: &Sexp, env: &Env) -> AnyView {
    use leptos_router::{
        components::{FlatRoutes, Outlet, ParentRoute, Route, Router, Routes},
        path,
    };
    let kind = p.at(1).num();
    let id = p.at(2).num();
    let child = p.at(3).clone();
    let inner = p.at(4).clone();
    let (env1, env2, env3) = (env.clone(), env.clone(), env.clone());
    let (child2, child3) = (child.clone(), child.clone());
    if kind == 1 {
        view! {
            <Router>
                <Routes fallback=move || ("nf", build(&child3, &env3))>
                    <ParentRoute
                        path=path!("/r")
                        view=move || (route_probe(&env1, id), build(&child, &env1), view! { <Outlet/> }).into_any()
                    >
                        <Route path=path!(":id") view=move || (route_probe(&env2, id + 1), build(&inner, &env2)).into_any()/>
                    </ParentRoute>
                </Routes>
            </Router>
        }
        .into_any()
    } else {
        view! {
            <Router>
                <FlatRoutes fallback=move || ("nf", build(&child2, &env2))>
                    <Route path=path!("/r/:id") view=move || (route_probe(&env1, id), build(&child, &env1)).into_any()/>
                </FlatRoutes>
            </Router>
        }
        .into_any()
    }
}

fn has_op(p: &Sexp, op: i64, kind: i64) -> bool {
    if p.at(0).num() == op && matches!(p.at(0), Num(_)) && p.at(1).num() == kind {
        return true;
    }
    p.list().iter().any(|c| matches!(c, Lst(_)) && has_op(c, op, kind))
}

/// the URL of request `idx`: /r/<10000*idx+7>, or a path no route matches if the program asks
/// for the fallback
fn request_path(prog: &Sexp, idx: usize) -> String {
    if has_op(prog, 15, 2) {
        format!("/nomatch/{}", 10000 * idx + 7)
    } else {
        format!("/r/{}", 10000 * idx + 7)
    }
}

// ------------------------------------------------------------------------------------------
// resources: (16 kind flags mode g p1 p2 p3 child)
//   kind  0 Resource  1 OnceResource  2 ArcResource  3 ArcOnceResource  4 AsyncDerived
//         5 ArcAsyncDerived  6 ArcResource converted into a Resource by the reader
//         7 LocalResource  8 ArcLocalResource (read under a <Suspense> the op brings along)
//   flags bit 0: blocking constructor, bit 1: FromToStringCodec (`new_str*`)
//   mode  how the reader gets at the value: 0 `.await`  1 `.get()` in a reactive closure under a
//         <Suspense>  2 `.by_ref().await`  3 `.ready().await` + untracked read  4 `.map()` under a
//         <Suspense>
// ------------------------------------------------------------------------------------------
trait Rd: Clone + Send + Sync + 'static {
    fn aw(self) -> PinnedFuture<String>;
    fn by_ref_aw(self) -> PinnedFuture<String>;
    fn ready_aw(self) -> PinnedFuture<String>;
    fn get_now(&self) -> Option<String>;
    fn map_now(&self) -> Option<String>;
}

macro_rules! impl_rd {
    ($t:ty, by_ref = $by_ref:tt, map = $map:tt) => {
        impl Rd for $t {
            fn aw(self) -> PinnedFuture<String> {
                Box::pin(async move { self.await })
            }
            fn by_ref_aw(self) -> PinnedFuture<String> {
                impl_rd!(@by_ref $by_ref self)
            }
            fn ready_aw(self) -> PinnedFuture<String> {
                Box::pin(async move {
                    self.ready().await;
                    // the value is there: this completes at its first poll
                    self.await
                })
            }
            fn get_now(&self) -> Option<String> {
                self.try_get().flatten()
            }
            fn map_now(&self) -> Option<String> {
                impl_rd!(@map $map self)
            }
        }
    };
    (@by_ref yes $s:ident) => {
        Box::pin(async move { let g = $s.by_ref().await; (*g).clone() })
    };
    (@by_ref no $s:ident) => {
        Box::pin(async move { $s.await })
    };
    (@map yes $s:ident) => {
        $s.map(|v| v.clone())
    };
    (@map no $s:ident) => {
        $s.try_get().flatten()
    };
}
use leptos::server::codee::string::FromToStringCodec as StrC;
use leptos_server::{ArcOnceResource, ArcResource};
use reactive_graph::computed::{ArcAsyncDerived, AsyncDerived};
impl_rd!(Resource<String>, by_ref = yes, map = yes);
impl_rd!(Resource<String, StrC>, by_ref = yes, map = yes);
impl_rd!(ArcResource<String>, by_ref = yes, map = yes);
impl_rd!(ArcResource<String, StrC>, by_ref = yes, map = yes);
impl_rd!(OnceResource<String>, by_ref = no, map = yes);
impl_rd!(OnceResource<String, StrC>, by_ref = no, map = yes);
impl_rd!(ArcOnceResource<String>, by_ref = no, map = yes);
impl_rd!(ArcOnceResource<String, StrC>, by_ref = no, map = yes);
impl_rd!(AsyncDerived<String>, by_ref = yes, map = no);
impl_rd!(ArcAsyncDerived<String>, by_ref = yes, map = no);

fn reader<R: Rd>(res: R, mode: i64, env: &Env, p3: i64, child: &Sexp) -> AnyView {
    let env = env.clone();
    let child = child.clone();
    match mode {
        1 | 4 => {
            let envc = env.clone();
            let inner = move || {
                let v = if mode == 1 { res.get_now() } else { res.map_now() };
                let s = probe(&envc, p3, K_DYNL, None);
                format!("{}{s}", v.unwrap_or_else(|| "loading".into()))
            };
            (view! { <Suspense fallback=|| "fb16">{inner}</Suspense> }, build(&child, &env)).into_any()
        }
        _ => Suspend::new(async move {
            let v = match mode {
                2 => res.by_ref_aw().await,
                3 => res.ready_aw().await,
                _ => res.aw().await,
            };
            let s = probe(&env, p3, K_ASYNC, None);
            (v, s, build(&child, &env))
        })
        .into_any(),
    }
}

fn build_resource(p: &Sexp, env: &Env) -> AnyView {
    let kind = p.at(1).num();
    let flags = p.at(2).num();
    let mode = p.at(3).num();
    let rx = env.gates[p.at(4).num() as usize].clone();
    let (p1, p2, p3) = (p.at(5).num(), p.at(6).num(), p.at(7).num());
    let child = p.at(8);
    let (blocking, strc) = (flags & 1 != 0, flags & 2 != 0);
    let envf = env.clone();
    // a fetcher reads the context in its synchronous part; a Once* resource is given a future
    let sync_pre = !(kind == 1 || kind == 3);
    let fetch = move || {
        let envf = envf.clone();
        let rx = rx.clone();
        let pre = if sync_pre { Some(probe(&envf, p1, K_FETCH_PRE, None)) } else { None };
        async move {
            let a = match pre {
                Some(a) => a,
                None => probe(&envf, p1, K_FETCH_PRE, None),
            };
            let _ = rx.await;
            let b = probe(&envf, p2, K_FETCH_POST, None);
            format!("{a}{b}")
        }
    };
    match (kind, strc, blocking) {
        (0, false, false) => reader(Resource::new(|| (), move |_| fetch()), mode, env, p3, child),
        (0, false, true) => reader(Resource::new_blocking(|| (), move |_| fetch()), mode, env, p3, child),
        (0, true, false) => reader(Resource::new_str(|| (), move |_| fetch()), mode, env, p3, child),
        (0, true, true) => reader(Resource::new_str_blocking(|| (), move |_| fetch()), mode, env, p3, child),
        (1, false, false) => reader(OnceResource::new(fetch()), mode, env, p3, child),
        (1, false, true) => reader(OnceResource::new_blocking(fetch()), mode, env, p3, child),
        (1, true, false) => reader(OnceResource::new_str(fetch()), mode, env, p3, child),
        (1, true, true) => reader(OnceResource::new_str_blocking(fetch()), mode, env, p3, child),
        (2, false, false) => reader(ArcResource::new(|| (), move |_| fetch()), mode, env, p3, child),
        (2, false, true) => reader(ArcResource::new_blocking(|| (), move |_| fetch()), mode, env, p3, child),
        (2, true, false) => reader(ArcResource::new_str(|| (), move |_| fetch()), mode, env, p3, child),
        (2, true, true) => reader(ArcResource::new_str_blocking(|| (), move |_| fetch()), mode, env, p3, child),
        (3, false, false) => reader(ArcOnceResource::new(fetch()), mode, env, p3, child),
        (3, false, true) => reader(ArcOnceResource::new_blocking(fetch()), mode, env, p3, child),
        (3, true, false) => reader(ArcOnceResource::new_str(fetch()), mode, env, p3, child),
        (3, true, true) => reader(ArcOnceResource::new_str_blocking(fetch()), mode, env, p3, child),
        (7, _, _) | (8, _, _) => {
            // LocalResource / ArcLocalResource: never loads on the server (ArcAsyncDerived::new_mock);
            // a read under a boundary tells the boundary through the LocalResourceNotifier it finds
            // in context, the boundary renders its fallback and records an incomplete chunk
            // (the reading view is built by the boundary's children closure, i.e. under the boundary)
            let env = env.clone();
            let envc = env.clone();
            let sync_read = mode == 1 || mode == 4;
            let boundary = if kind == 7 {
                let res = LocalResource::new(move || fetch());
                let mk = move || {
                    if sync_read {
                        (move || {
                            let v = res.get();
                            format!("{}{}", v.unwrap_or_else(|| "local".into()), probe(&envc, p3, K_DYNL, None))
                        })
                        .into_any()
                    } else {
                        Suspend::new(async move {
                            let v = res.await;
                            (v, probe(&envc, p3, K_ASYNC, None))
                        })
                        .into_any()
                    }
                };
                view! { <Suspense fallback=|| "fbL">{mk()}</Suspense> }.into_any()
            } else {
                let res = leptos_server::ArcLocalResource::new(move || fetch());
                let mk = move || {
                    if sync_read {
                        (move || {
                            let v = res.get();
                            format!("{}{}", v.unwrap_or_else(|| "local".into()), probe(&envc, p3, K_DYNL, None))
                        })
                        .into_any()
                    } else {
                        Suspend::new(async move {
                            let v = res.await;
                            (v, probe(&envc, p3, K_ASYNC, None))
                        })
                        .into_any()
                    }
                };
                view! { <Suspense fallback=|| "fbL">{mk()}</Suspense> }.into_any()
            };
            (boundary, build(child, &env)).into_any()
        }
        (4, _, _) => reader(AsyncDerived::new(move || fetch()), mode, env, p3, child),
        (5, _, _) => reader(ArcAsyncDerived::new(move || fetch()), mode, env, p3, child),
        (_, _, true) => {
            let arc = ArcResource::new_blocking(|| (), move |_| fetch());
            reader(Resource::<String>::from(arc), mode, env, p3, child)
        }
        _ => {
            let arc = ArcResource::new(|| (), move |_| fetch());
            reader(Resource::<String>::from(arc), mode, env, p3, child)
        }
    }
}

fn max_gate(p: &Sexp) -> i64 {
    let mut m = -1;
    match p.at(0).num() {
        6 | 13 => m = m.max(p.at(1).num()),
        8 => m = m.max(p.at(2).num()),
        16 => m = m.max(p.at(4).num()),
        17 if p.at(1).num() == 1 => m = m.max(p.at(3).num()),
        22 => m = m.max(p.at(1).num()),
        _ => {}
    }
    for c in p.list() {
        if matches!(c, Lst(_)) {
            m = m.max(max_gate(c));
        }
    }
    m
}

// ------------------------------------------------------------------------------------------
// one request, rendered like integrations/utils does
// ------------------------------------------------------------------------------------------
#[cfg(feature = "sandboxed")]
fn sb<T>(t: T) -> reactive_graph::owner::Sandboxed<T> {
    reactive_graph::owner::Sandboxed::new(t)
}
#[cfg(not(feature = "sandboxed"))]
fn sb<T>(t: T) -> T {
    t
}

/// the four stream builders of integrations/axum (and actix), by shape:
///  1  render_app_to_stream_with_context(_and_replace_blocks), supports_ooo: the out-of-order
///     stream is created inside the builder future
///  0  the same handler without out-of-order support (in-order stream created inside the future)
///  2  render_app_async(_stream)_with_context: the builder future itself drives the whole in-order
///     stream to the end and hands out one chunk
///  3  render_app_to_stream_in_order_with_context: the in-order stream is created eagerly, when
///     build_response calls the builder
fn stream_builder_for(
    ooo: i64,
) -> fn(AnyView, Box<dyn FnOnce() -> PinnedStream + Send>, bool) -> PinnedFuture<PinnedStream> {
    match ooo {
        1 => |app, chunks, _| {
            Box::pin(async move {
                let app = app.to_html_stream_out_of_order();
                Box::pin(app.chain(chunks())) as PinnedStream
            })
        },
        2 => |app, chunks, _| {
            Box::pin(async move {
                let app = app.to_html_stream_in_order();
                let app = app.collect::<String>().await;
                let chunks = chunks();
                Box::pin(once(async move { app }).chain(chunks)) as PinnedStream
            })
        },
        3 => |app, chunks, _| {
            let app = app.to_html_stream_in_order();
            Box::pin(async move { Box::pin(app.chain(chunks())) as PinnedStream })
        },
        _ => |app, chunks, _| {
            Box::pin(async move {
                let app = app.to_html_stream_in_order();
                Box::pin(app.chain(chunks())) as PinnedStream
            })
        },
    }
}

/// transcription of integrations/utils `build_response` (meta/nonce left out)
fn build_response_equiv(
    app_fn: impl FnOnce() -> AnyView + Send + 'static,
    additional_context: impl FnOnce() + Send + 'static,
    stream_builder: fn(AnyView, Box<dyn FnOnce() -> PinnedStream + Send>, bool) -> PinnedFuture<PinnedStream>,
    scope_body: bool,
) -> (Owner, PinnedFuture<PinnedStream>) {
    let shared_context = Arc::new(SsrSharedContext::new()) as Arc<dyn SharedContext + Send + Sync>;
    let owner = Owner::new_root(Some(Arc::clone(&shared_context)));
    let stream = Box::pin(sb({
        let owner = owner.clone();
        async move {
            let stream = owner.with(|| {
                additional_context();
                let app = app_fn();
                let shared_context = Owner::current_shared_context().unwrap();
                let chunks = Box::new({
                    let shared_context = shared_context.clone();
                    move || {
                        Box::pin(
                            shared_context
                                .pending_data()
                                .unwrap()
                                .map(move |chunk| format!("<script>{chunk}</script>")),
                        ) as PinnedStream
                    }
                });
                let fut = stream_builder(app, chunks, false);
                if scope_body {
                    Box::pin(reactive_graph::computed::ScopedFuture::new(fut)) as PinnedFuture<PinnedStream>
                } else {
                    fut
                }
            });
            if scope_body {
                Box::pin(WithOwner { owner: Some(owner), inner: stream.await }) as PinnedStream
            } else {
                // pipeline 2: an integration that does not scope the body (build_response before
                // the F-C20-a repair) — kept as a negative control
                stream.await
            }
        }
    }));
    (owner, stream)
}

/// same as integrations/utils `WithOwner`
struct WithOwner {
    owner: Option<Owner>,
    inner: PinnedStream,
}
impl Stream for WithOwner {
    type Item = String;
    fn poll_next(self: Pin<&mut Self>, cx: &mut Context<'_>) -> Poll<Option<String>> {
        let this = self.get_mut();
        let next = match &this.owner {
            Some(owner) => owner.with(|| this.inner.as_mut().poll_next(cx)),
            None => this.inner.as_mut().poll_next(cx),
        };
        if matches!(next, Poll::Ready(None)) {
            this.owner = None;
        }
        next
    }
}

/// transcription of `ExtendResponse::from_app` (meta injection left out)
async fn from_app_equiv(
    app_fn: impl FnOnce() -> AnyView + Send + 'static,
    additional_context: impl FnOnce() + Send + 'static,
    stream_builder: fn(AnyView, Box<dyn FnOnce() -> PinnedStream + Send>, bool) -> PinnedFuture<PinnedStream>,
    scope_body: bool,
) -> PinnedStream {
    let (owner, stream) = build_response_equiv(app_fn, additional_context, stream_builder, scope_body);
    from_app_rest(owner, stream).await
}

/// what `from_app` does with the result of `build_response` (meta injection left out)
async fn from_app_rest(owner: Owner, stream: PinnedFuture<PinnedStream>) -> PinnedStream {
    let sc = owner.shared_context().unwrap();
    let stream = stream.await.ready_chunks(32).map(|n| n.join(""));
    while let Some(pending) = sc.await_deferred() {
        pending.await;
    }
    let mut stream = Box::pin(stream.then({
        let sc = Arc::clone(&sc);
        move |chunk| {
            let sc = Arc::clone(&sc);
            async move {
                while let Some(pending) = sc.await_deferred() {
                    pending.await;
                }
                chunk
            }
        }
    }));
    let first_chunk = stream.next().await.unwrap_or_default();
    Box::pin(sb(once(async move { first_chunk }).chain(stream).chain(once(async move {
        owner.unset();
        Default::default()
    })))) as PinnedStream
}

#[cfg(feature = "sandboxed")]
mod real {
    use super::*;
    use leptos_integration_utils::ExtendResponse;
    pub struct Resp(pub PinnedStream);
    impl ExtendResponse for Resp {
        type ResponseOptions = ();
        fn from_stream(stream: impl Stream<Item = String> + Send + 'static) -> Self {
            Resp(Box::pin(stream))
        }
        fn extend_response(&mut self, _: &()) {}
        fn set_default_content_type(&mut self, _: &str) {}
    }
    /// the public `build_response`, called synchronously when the request is *created*
    pub fn build_response_real(
        app_fn: impl FnOnce() -> AnyView + Send + 'static,
        additional_context: impl FnOnce() + Send + 'static,
        stream_builder: fn(AnyView, Box<dyn FnOnce() -> PinnedStream + Send>, bool) -> PinnedFuture<PinnedStream>,
    ) -> (Owner, PinnedFuture<PinnedStream>) {
        leptos_integration_utils::build_response(app_fn, additional_context, stream_builder, false)
    }
    pub async fn from_app_real(
        app_fn: impl FnOnce() -> AnyView + Send + 'static,
        additional_context: impl FnOnce() + Send + 'static,
        stream_builder: fn(AnyView, Box<dyn FnOnce() -> PinnedStream + Send>, bool) -> PinnedFuture<PinnedStream>,
    ) -> PinnedStream {
        let (_meta, out) = leptos_meta::ServerMetaContext::new();
        Resp::from_app(app_fn, out, additional_context, (), stream_builder, false).await.0
    }
}

#[cfg(feature = "sandboxed")]
mod real_axum {
    //! the shipped axum integration, driven by hand: page handlers (pipeline 3) and the
    //! server-function handler (program op 22)
    use super::*;
    use axum::{body::Body, http::Request, response::IntoResponse};

    thread_local! {
        pub static SFN_ENVS: RefCell<HashMap<u32, (Env, Sexp)>> = RefCell::new(HashMap::new());
    }

    /// (22 g p1 p2 p3 slot cid): the body of a server function — reads the context, allocates an
    /// arena item and registers a cleanup, awaits gate g, reads everything again, stays in
    /// flight until the request is finished, reads once more
    #[server]
    pub async fn iso_probe(req: u32) -> Result<String, ServerFnError> {
        let (env, p) = SFN_ENVS
            .with(|e| e.borrow().get(&req).cloned())
            .ok_or_else(|| ServerFnError::new("no such request"))?;
        let r = env.req as i64;
        let g = p.at(1).num() as usize;
        let (p1, p2, p3) = (p.at(2).num(), p.at(3).num(), p.at(4).num());
        let (slot, cid) = (p.at(5).num(), p.at(6).num());
        let a = probe_mode(&env, p1, K_SFN_PRE, None, 6);
        let has_sc = Owner::current_shared_context().is_some();
        let h = StoredValue::new(10000 * r + slot);
        env.slots.lock().unwrap().insert(slot, h);
        on_cleanup(move || {
            W.with(|w| {
                let mut w = w.borrow_mut();
                let d = w.cur_req as i64;
                w.cleanups.push((r, cid, d));
            })
        });
        let rx = env.gates[g].clone();
        let _ = rx.await;
        let b = probe_mode(&env, p2, K_SFN_POST, Some(slot), 6);
        let rx = env.gates[env.gates.len() - 1].clone();
        let _ = rx.await;
        let c = probe_mode(&env, p3, K_SFN_POST, Some(slot), 6);
        Ok(format!("{a}sc={has_sc}{b}{c}"))
    }

    pub fn register() {
        leptos::server_fn::axum::register_explicit::<IsoProbe>();
    }

    async fn body_string(resp: axum::response::Response) -> String {
        let mut data = resp.into_body().into_data_stream();
        let mut out = String::new();
        while let Some(chunk) = data.next().await {
            if let Ok(b) = chunk {
                out.push_str(&String::from_utf8_lossy(&b));
            }
        }
        out
    }

    /// one server-function request, through leptos_axum::handle_server_fns_with_context
    pub fn server_fn_request(
        idx: usize,
        additional_context: impl Fn() + 'static + Clone + Send,
    ) -> Pin<Box<dyn Future<Output = PinnedStream>>> {
        use leptos::server_fn::ServerFn;
        let req = Request::builder()
            .method("POST")
            .uri(<IsoProbe as ServerFn>::PATH)
            .header("content-type", "application/x-www-form-urlencoded")
            .body(Body::from(format!("req={idx}")))
            .unwrap();
        Box::pin(async move {
            let resp = leptos_axum::handle_server_fns_with_context(additional_context, req).await.into_response();
            let s = body_string(resp).await;
            Box::pin(once(async move { s })) as PinnedStream
        })
    }

    type Handler = std::rc::Rc<dyn Fn(Request<Body>) -> Pin<Box<dyn Future<Output = axum::response::Response> + Send>>>;
    thread_local! {
        /// program and environment of the page requests of the current run, by request number
        pub static REQS: RefCell<HashMap<usize, (Sexp, Env)>> = RefCell::new(HashMap::new());
        /// one handler per streaming mode, shared by all requests of a run as in a server
        /// (`Router::new().fallback(leptos_axum::render_app_to_stream_with_context(..))`)
        pub static HANDLERS: RefCell<HashMap<i64, Handler>> = RefCell::new(HashMap::new());
    }

    /// the request number is the last path segment / 10000 (see `request_path`)
    fn shared_context() {
        let parts = use_context::<axum::http::request::Parts>();
        let path = parts.map(|p| p.uri.path().to_string()).unwrap_or_default();
        let idx = path.rsplit('/').next().and_then(|s| s.parse::<usize>().ok()).unwrap_or(0) / 10000;
        request_context(idx, false, &path);
    }

    fn shared_app() -> AnyView {
        let idx = use_context::<Tag0>().map(|t| t.0 - 100).unwrap_or(0) as usize;
        match REQS.with(|r| r.borrow().get(&idx).cloned()) {
            Some((prog, env)) => page_app(&prog, &env),
            None => "no such request".into_any(),
        }
    }

    fn handler(ooo: i64) -> Handler {
        HANDLERS.with(|h| {
            h.borrow_mut()
                .entry(ooo)
                .or_insert_with(|| match ooo {
                    1 => std::rc::Rc::new(leptos_axum::render_app_to_stream_with_context(shared_context, shared_app)),
                    2 => std::rc::Rc::new(leptos_axum::render_app_async_with_context(shared_context, shared_app)),
                    _ => std::rc::Rc::new(leptos_axum::render_app_to_stream_in_order_with_context(shared_context, shared_app)),
                })
                .clone()
        })
    }

    /// one page request through the shipped handlers
    pub fn page_request(ooo: i64, path: &str, idx: usize, prog: Sexp, env: Env) -> Pin<Box<dyn Future<Output = PinnedStream>>> {
        REQS.with(|r| r.borrow_mut().insert(idx, (prog, env)));
        let req = Request::builder().method("GET").uri(path).body(Body::empty()).unwrap();
        let resp = handler(ooo)(req);
        Box::pin(async move {
            let resp = resp.await;
            // status and the headers set through ResponseOptions are part of the response
            let mut head = format!("[status {}]", resp.status().as_u16());
            for v in resp.headers().get_all("x-iso") {
                head.push_str(&format!("[x-iso {}]", v.to_str().unwrap_or("?")));
            }
            let data = resp.into_body().into_data_stream();
            let data = data.map(|c| c.map(|b| String::from_utf8_lossy(&b).to_string()).unwrap_or_default());
            Box::pin(once(async move { head }).chain(data)) as PinnedStream
        })
    }

    pub fn reset() {
        let a = SFN_ENVS.with(|e| std::mem::take(&mut *e.borrow_mut()));
        let b = REQS.with(|e| std::mem::take(&mut *e.borrow_mut()));
        let c = HANDLERS.with(|e| std::mem::take(&mut *e.borrow_mut()));
        drop((a, b, c));
    }
}

/// the nonce of a response is random by design: it is blanked before responses are compared
fn strip_nonce(html: &str) -> String {
    let mut out = String::with_capacity(html.len());
    let mut rest = html;
    while let Some(i) = rest.find(" nonce=\"") {
        out.push_str(&rest[..i]);
        let after = &rest[i + 8..];
        match after.find('"') {
            Some(j) => {
                out.push_str(" nonce=\"N\"");
                rest = &after[j + 1..];
            }
            None => {
                rest = "";
            }
        }
    }
    out.push_str(rest);
    out
}

enum Main {
    NotStarted,
    Handler(Pin<Box<dyn Future<Output = PinnedStream>>>),
    Body(PinnedStream),
    Done,
}

struct Req {
    idx: usize, // 1-based
    prog: Sexp,
    main: Main,
    flag: Arc<Flag>,
    gates: Vec<Option<oneshot::Sender<()>>>, // last one is the hidden final gate
    html: String,
    owner_seen: Option<usize>,
}

/// first thing run under a request's new root owner: register it, provide the request's tags
fn request_context(idx: usize, is_sfn: bool, path: &str) {
    if let Some(o) = Owner::current() {
        W.with(|w| w.borrow_mut().roots.push((o.debug_id(), idx)));
    }
    forget_root_on_cleanup(idx);
    provide_context(Tag0(100 + idx as i64));
    provide_context(Tag2(10000 * idx as i64 + 1));
    if !is_sfn {
        provide_context(PageOnly(1000 * idx as i64 + 999));
        provide_context(leptos_router::location::RequestUrl::new(path));
    }
    if let Some(sc) = Owner::current_shared_context() {
        sc.set_is_hydrating(true);
    }
    let canary = StoredValue::new(500 + idx as i64);
    W.with(|w| w.borrow_mut().canaries.insert(idx, canary));
}

/// the application of a page request: its view program, kept open by the hidden final gate
fn page_app(prog: &Sexp, env: &Env) -> AnyView {
    let app = build(prog, env);
    let final_rx = env.gates[env.gates.len() - 1].clone();
    let hold = Suspend::new(async move {
        let _ = final_rx.await;
        ""
    });
    (app, hold).into_any()
}

struct Opts {
    ooo: i64,
    pipeline: i64,
}

impl Req {
    fn new(idx: usize, prog: Sexp) -> Self {
        Req { idx, prog, main: Main::NotStarted, flag: new_flag(false), gates: vec![], html: String::new(), owner_seen: None }
    }
    fn started(&self) -> bool {
        !matches!(self.main, Main::NotStarted)
    }
    fn finished(&self) -> bool {
        matches!(self.main, Main::Done)
    }

    /// `split`: build_response runs now (root owner created, nothing polled); the rest of
    /// from_app is the handler future. Otherwise everything happens at the first poll.
    fn start(&mut self, o: &Opts, split: bool) {
        let idx = self.idx;
        let n = (max_gate(&self.prog) + 1) as usize + 1;
        let mut rxs = vec![];
        for _ in 0..n {
            let (tx, rx) = oneshot::channel::<()>();
            self.gates.push(Some(tx));
            rxs.push(rx.shared());
        }
        let env = Env {
            req: idx,
            gates: Arc::new(rxs),
            slots: Default::default(),
            sigs: Default::default(),
        };
        let prog = self.prog.clone();
        let is_sfn = prog.at(0).num() == 22 && matches!(prog.at(0), Num(_));
        let path = request_path(&prog, idx);
        let app_fn = {
            let env = env.clone();
            let prog = prog.clone();
            move || page_app(&prog, &env)
        };
        let additional_context = {
            let path = path.clone();
            move || request_context(idx, is_sfn, &path)
        };
        if is_sfn {
            #[cfg(feature = "sandboxed")]
            {
                real_axum::SFN_ENVS.with(|e| e.borrow_mut().insert(idx as u32, (env.clone(), prog.clone())));
                self.main = Main::Handler(real_axum::server_fn_request(idx, additional_context));
                self.flag.0.store(true, Ordering::SeqCst);
                return;
            }
            #[cfg(not(feature = "sandboxed"))]
            panic!("server-function requests need the sandboxed build (leptos_axum)");
        }
        #[cfg(feature = "sandboxed")]
        if o.pipeline == 3 {
            // the shipped axum handlers: build_response happens at the first poll
            self.main = Main::Handler(real_axum::page_request(o.ooo, &path, idx, prog.clone(), env.clone()));
            self.flag.0.store(true, Ordering::SeqCst);
            return;
        }
        let sbld = stream_builder_for(o.ooo);
        let fut: Pin<Box<dyn Future<Output = PinnedStream>>> = match o.pipeline {
            #[cfg(feature = "sandboxed")]
            1 if split => {
                let (owner, stream) = real::build_response_real(app_fn, additional_context, sbld);
                W.with(|w| w.borrow_mut().roots.push((owner.debug_id(), idx)));
                owner.with(|| forget_root_on_cleanup(idx));
                Box::pin(from_app_rest(owner, stream))
            }
            _ if split => {
                let (owner, stream) = build_response_equiv(app_fn, additional_context, sbld, o.pipeline != 2);
                W.with(|w| w.borrow_mut().roots.push((owner.debug_id(), idx)));
                owner.with(|| forget_root_on_cleanup(idx));
                Box::pin(from_app_rest(owner, stream))
            }
            #[cfg(feature = "sandboxed")]
            1 => Box::pin(real::from_app_real(app_fn, additional_context, sbld)),
            2 => Box::pin(from_app_equiv(app_fn, additional_context, sbld, false)),
            _ => Box::pin(from_app_equiv(app_fn, additional_context, sbld, true)),
        };
        self.main = Main::Handler(fut);
        self.flag.0.store(true, Ordering::SeqCst);
    }

    /// one poll of the request's own top-level task (handler future, then the response body)
    fn poll_main(&mut self) {
        self.flag.0.store(false, Ordering::SeqCst);
        let waker = Waker::from(self.flag.clone());
        let mut cx = Context::from_waker(&waker);
        match std::mem::replace(&mut self.main, Main::Done) {
            Main::NotStarted => self.main = Main::NotStarted,
            Main::Done => {}
            Main::Handler(mut f) => match f.as_mut().poll(&mut cx) {
                Poll::Pending => self.main = Main::Handler(f),
                Poll::Ready(body) => {
                    self.main = Main::Body(body);
                    self.flag.0.store(true, Ordering::SeqCst);
                }
            },
            Main::Body(mut s) => match s.as_mut().poll_next(&mut cx) {
                Poll::Pending => self.main = Main::Body(s),
                Poll::Ready(Some(chunk)) => {
                    self.html.push_str(&chunk);
                    self.main = Main::Body(s);
                    self.flag.0.store(true, Ordering::SeqCst);
                }
                Poll::Ready(None) => {
                    drop(s);
                    self.main = Main::Done;
                }
            },
        }
    }
}

fn set_cur(r: usize) {
    W.with(|w| w.borrow_mut().cur_req = r);
}

fn tasks_of(r: usize) -> Vec<usize> {
    W.with(|w| w.borrow().tasks.iter().enumerate().filter(|(_, t)| t.req == r).map(|(i, _)| i).collect())
}
fn task_woken(i: usize) -> bool {
    W.with(|w| {
        let w = w.borrow();
        !w.tasks[i].done && w.tasks[i].flag.0.load(Ordering::SeqCst)
    })
}

/// run request `r` until none of its tasks is runnable (always polls the main task at least once)
fn run_quiescent(req: &mut Req) {
    set_cur(req.idx);
    let mut first = true;
    for _ in 0..10_000 {
        let mut progressed = false;
        let mut k = 0;
        loop {
            let ts = tasks_of(req.idx);
            if k >= ts.len() {
                break;
            }
            if task_woken(ts[k]) {
                poll_task(ts[k]);
                progressed = true;
            }
            k += 1;
        }
        if !req.finished() && req.started() && (first || req.flag.0.load(Ordering::SeqCst)) {
            first = false;
            req.poll_main();
            progressed = true;
        }
        if !progressed {
            break;
        }
    }
    set_cur(0);
}

fn fire(req: &mut Req, g: usize) -> bool {
    if let Some(Some(tx)) = req.gates.get_mut(g).map(Option::take) {
        set_cur(req.idx);
        let _ = tx.send(());
        set_cur(0);
        true
    } else {
        false
    }
}

/// what unwrapped code running on the server thread between polls would see
fn ambient_probe(n: usize) -> Sexp {
    let owner_req = ambient_owner_req();
    let t0 = use_context::<Tag0>().map(|t| t.0).unwrap_or(-1);
    let mut v = vec![Num(owner_req), Num(t0)];
    for r in 1..=n {
        let c = W.with(|w| w.borrow().canaries.get(&r).copied());
        v.push(Num(match c {
            None => -3,
            Some(h) => h.try_get_value().unwrap_or(-1),
        }));
    }
    Lst(v)
}

#[derive(Clone, Debug, PartialEq)]
enum Act {
    Start(usize),
    Fire(usize, usize),
    Run(usize),
    Finish(usize),
    PollMain(usize),
    PollTask(usize, usize), // request, local task number
    Create(usize),          // build_response only; the first poll comes later
    Abort(usize),           // the server drops the response (client went away): no wrapper, whatever is ambient
    RunLate(usize),         // poll the request's runnable spawned tasks, also after its response is gone
}

struct RunOut {
    html: Vec<String>,
    finished: Vec<bool>,
    events: Vec<Event>,
    cleanups: Vec<(i64, i64, i64)>,
    ambient: Vec<Sexp>,
    acts: Vec<Act>,
    skipped: i64,
    leftover_woken: i64,
}

fn reset_world() {
    // drop what a previous (possibly panicked) case left behind
    let old = W.with(|w| std::mem::take(&mut *w.borrow_mut()));
    drop(old);
    #[cfg(feature = "sandboxed")]
    real_axum::reset();
    let o = Owner::new_root(None);
    o.unset();
}

fn apply(reqs: &mut [Req], o: &Opts, a: &Act, allow_final: bool) -> bool {
    match *a {
        Act::Start(r) => {
            if reqs[r - 1].started() {
                return false;
            }
            set_cur(r);
            reqs[r - 1].start(o, false);
            reqs[r - 1].poll_main();
            set_cur(0);
            true
        }
        Act::Abort(r) => {
            if !reqs[r - 1].started() || reqs[r - 1].finished() {
                return false;
            }
            set_cur(r);
            let old = std::mem::replace(&mut reqs[r - 1].main, Main::Done);
            drop(old);
            set_cur(0);
            true
        }
        Act::RunLate(r) => {
            if !reqs[r - 1].started() {
                return false;
            }
            set_cur(r);
            for _ in 0..10_000 {
                let mut progressed = false;
                let mut k = 0;
                loop {
                    let ts = tasks_of(r);
                    if k >= ts.len() {
                        break;
                    }
                    if task_woken(ts[k]) {
                        poll_task(ts[k]);
                        progressed = true;
                    }
                    k += 1;
                }
                if !progressed {
                    break;
                }
            }
            set_cur(0);
            true
        }
        Act::Create(r) => {
            if reqs[r - 1].started() {
                return false;
            }
            set_cur(r);
            reqs[r - 1].start(o, true);
            set_cur(0);
            true
        }
        Act::Fire(r, g) => {
            let n = reqs[r - 1].gates.len();
            // the hidden final gate is only fired by Finish / the drain
            reqs[r - 1].started() && (allow_final || g + 1 < n) && fire(&mut reqs[r - 1], g)
        }
        Act::Run(r) => {
            if !reqs[r - 1].started() || reqs[r - 1].finished() {
                return false;
            }
            run_quiescent(&mut reqs[r - 1]);
            true
        }
        Act::Finish(r) => {
            if !reqs[r - 1].started() || reqs[r - 1].finished() {
                return false;
            }
            W.with(|w| w.borrow_mut().dropping = r);
            for g in 0..reqs[r - 1].gates.len() {
                fire(&mut reqs[r - 1], g);
            }
            run_quiescent(&mut reqs[r - 1]);
            W.with(|w| w.borrow_mut().dropping = 0);
            true
        }
        Act::PollMain(r) => {
            if !reqs[r - 1].started() || reqs[r - 1].finished() {
                return false;
            }
            set_cur(r);
            reqs[r - 1].poll_main();
            set_cur(0);
            true
        }
        Act::PollTask(r, k) => {
            let ts = tasks_of(r);
            if k >= ts.len() {
                return false;
            }
            set_cur(r);
            let ok = poll_task(ts[k]);
            set_cur(0);
            ok
        }
    }
}

/// single-step actions currently enabled, in canonical order
fn enabled(reqs: &[Req], active: &[usize]) -> (Vec<Act>, Vec<Act>) {
    let mut run = vec![];
    let mut fires = vec![];
    for &r in active {
        let q = &reqs[r - 1];
        if !q.started() {
            run.push(Act::Start(r));
            run.push(Act::Create(r));
            continue;
        }
        if !q.finished() && q.flag.0.load(Ordering::SeqCst) {
            run.push(Act::PollMain(r));
        }
        for (k, &t) in tasks_of(r).iter().enumerate() {
            if task_woken(t) {
                run.push(Act::PollTask(r, k));
            }
        }
        for (g, tx) in q.gates.iter().enumerate() {
            if tx.is_some() {
                fires.push(Act::Fire(r, g));
            }
        }
    }
    (run, fires)
}

enum Plan<'a> {
    Coarse(&'a [Act]),
    Fine(&'a [i64]),
    Replay(&'a [Act]),
}

fn run_world(progs: &[Sexp], active: &[usize], o: &Opts, plan: Plan) -> RunOut {
    reset_world();
    let n = progs.len();
    let mut reqs: Vec<Req> = progs.iter().enumerate().map(|(i, p)| Req::new(i + 1, p.clone())).collect();
    let mut ambient = vec![];
    let mut acts = vec![];
    let mut skipped = 0;
    match plan {
        Plan::Coarse(sched) => {
            for a in sched {
                let r = match *a {
                    Act::Start(r) | Act::Fire(r, _) | Act::Run(r) | Act::Finish(r) | Act::Create(r) | Act::Abort(r) | Act::RunLate(r) => r,
                    _ => 0,
                };
                if r == 0 || r > n || !active.contains(&r) {
                    continue;
                }
                ambient.push(ambient_probe(n));
                if apply(&mut reqs, o, a, false) {
                    acts.push(a.clone());
                } else {
                    skipped += 1;
                }
            }
            for &r in active {
                for a in [Act::Start(r), Act::Finish(r)] {
                    ambient.push(ambient_probe(n));
                    if apply(&mut reqs, o, &a, false) {
                        acts.push(a);
                    }
                }
            }
            ambient.push(ambient_probe(n));
            // schedules with aborted responses / late tasks (oracle-only): let every task that
            // outlived its response see its futures complete, and observe what it reads then
            if sched.iter().any(|a| matches!(a, Act::Abort(_) | Act::RunLate(_))) {
                for &r in active {
                    for g in 0..reqs[r - 1].gates.len() {
                        let a = Act::Fire(r, g);
                        if apply(&mut reqs, o, &a, true) {
                            acts.push(a);
                        }
                    }
                    let a = Act::RunLate(r);
                    if apply(&mut reqs, o, &a, true) {
                        acts.push(a);
                    }
                }
            }
        }
        Plan::Fine(sched) => {
            let mut i = 0;
            for _ in 0..100_000 {
                let (run, fires) = enabled(&reqs, active);
                let a = if i < sched.len() {
                    // the hidden final gates are not offered while the schedule lasts
                    let mut all = run.clone();
                    all.extend(fires.iter().filter(|a| match a {
                        Act::Fire(r, g) => g + 1 < reqs[r - 1].gates.len(),
                        _ => true,
                    }).cloned());
                    if all.is_empty() {
                        i = sched.len();
                        continue;
                    }
                    let k = (sched[i].unsigned_abs() as usize) % all.len();
                    i += 1;
                    all[k].clone()
                } else if let Some(a) = run.first() {
                    a.clone()
                } else if let Some(a) = fires.first() {
                    a.clone()
                } else {
                    break;
                };
                if matches!(a, Act::Fire(r, g) if g + 1 == reqs[r - 1].gates.len()) {
                    W.with(|w| w.borrow_mut().dropping = match a { Act::Fire(r, _) => r, _ => 0 });
                }
                apply(&mut reqs, o, &a, true);
                acts.push(a);
            }
        }
        Plan::Replay(list) => {
            for a in list {
                if matches!(a, Act::Fire(r, g) if g + 1 == reqs[r - 1].gates.len()) {
                    W.with(|w| w.borrow_mut().dropping = match a { Act::Fire(r, _) => *r, _ => 0 });
                }
                if apply(&mut reqs, o, a, true) {
                    acts.push(a.clone());
                } else {
                    skipped += 1;
                }
            }
        }
    }
    let leftover_woken = {
        let (run, _) = enabled(&reqs, active);
        run.len() as i64
    };
    let html: Vec<String> = reqs.iter().map(|q| strip_nonce(&q.html)).collect();
    if std::env::var_os("H_ISO_DUMP").is_some() {
        for (i, h) in html.iter().enumerate() {
            eprintln!("--- response {} (active {:?}): {}", i + 1, active, h);
        }
    }
    let finished = reqs.iter().map(|q| q.finished()).collect();
    // snapshot before the teardown of whatever is still alive (an unfinished request's owner)
    let (events, cleanups) = W.with(|w| {
        let w = w.borrow();
        (w.events.clone(), w.cleanups.clone())
    });
    drop(reqs);
    RunOut { html, finished, events, cleanups, ambient, acts, skipped, leftover_woken }
}

fn parse_coarse(s: &Sexp) -> Vec<Act> {
    s.list()
        .iter()
        .filter_map(|a| {
            let r = a.at(1).num();
            if r < 1 {
                return None;
            }
            let r = r as usize;
            Some(match a.at(0).num() {
                0 => Act::Start(r),
                1 => Act::Fire(r, a.at(2).num().max(0) as usize),
                2 => Act::Run(r),
                3 => Act::Finish(r),
                4 => Act::Create(r),
                5 => Act::Abort(r),
                6 => Act::RunLate(r),
                _ => return None,
            })
        })
        .collect()
}

fn ev_sexp(e: &Event) -> Sexp {
    Sexp::from_nums([e.probe, e.kind, e.owner_req, e.t0, e.t1, e.item])
}

/// per request: sorted set of distinct probe observations
fn events_of(out: &RunOut, r: usize) -> Sexp {
    let set: BTreeSet<Event> = out.events.iter().filter(|e| e.req == r as i64).cloned().collect();
    Lst(set.iter().map(ev_sexp).collect())
}
fn cleanups_of(out: &RunOut, r: usize) -> Sexp {
    let mut v: Vec<(i64, i64)> = out.cleanups.iter().filter(|c| c.0 == r as i64).map(|c| (c.1, c.2)).collect();
    v.sort();
    Lst(v.iter().map(|(id, d)| Sexp::from_nums([*id, *d])).collect())
}

/// observation = (abstract (ambient ...) ((events) (cleanups)) per request)
///               (concrete per request: ((equal len solo_len window solo_window) finished solo_finished
///                events solo_events cleanups solo_cleanups skipped))
fn run_case(c: &Sexp) -> Sexp {
    let obs = c.at(0).num();
    let ooo = c.at(2).num();
    let pipeline = c.at(3).num();
    let fine = c.at(4).num() != 0;
    let progs: Vec<Sexp> = c.at(5).list().to_vec();
    let n = progs.len();
    let o = Opts { ooo, pipeline };
    let all: Vec<usize> = (1..=n).collect();
    let coarse = parse_coarse(c.at(6));
    let fine_s = c.at(6).nums();
    let out = if fine {
        run_world(&progs, &all, &o, Plan::Fine(&fine_s))
    } else {
        run_world(&progs, &all, &o, Plan::Coarse(&coarse))
    };
    if obs == 0 {
        // which of the request's *own* owners is current when a reactive closure is rendered
        // depends on intra-request timing (an already-resolved Suspend renders in place): the
        // abstract trace keeps the request of that owner and the root-level context only
        let mut out = out;
        for e in out.events.iter_mut() {
            if e.kind == K_DYN {
                e.t1 = -5;
            }
        }
        let abs_reqs = (1..=n).map(|r| Lst(vec![events_of(&out, r), cleanups_of(&out, r)])).collect();
        reset_world();
        return Lst(vec![Lst(out.ambient.clone()), Lst(abs_reqs)]);
    }
    let mut conc = vec![];
    for r in 1..=n {
        // solo run of r = the same actions of r, in the same order, with nobody else around
        let mine: Vec<Act> = out
            .acts
            .iter()
            .filter(|a| match a {
                Act::Start(x) | Act::Fire(x, _) | Act::Run(x) | Act::Finish(x) | Act::PollMain(x) | Act::PollTask(x, _) | Act::Create(x) | Act::Abort(x) | Act::RunLate(x) => *x == r,
            })
            .cloned()
            .collect();
        let solo = run_world(&progs, &[r], &o, Plan::Replay(&mine));
        // the two responses are compared here; only the verdict, the lengths and a window around
        // the first difference are printed (two full responses per request and case would make
        // the observation stream of a thorough run several gigabytes)
        let (a, b) = (out.html[r - 1].as_bytes(), solo.html[r - 1].as_bytes());
        let mut i = 0;
        while i < a.len() && i < b.len() && a[i] == b[i] {
            i += 1;
        }
        let eq = a == b;
        let win = |x: &[u8]| {
            if eq {
                Lst(vec![])
            } else {
                Sexp::from_bytes(&x[i.saturating_sub(30).min(x.len())..(i + 60).min(x.len())])
            }
        };
        conc.push(Lst(vec![
            Lst(vec![Sexp::bool(eq), Num(a.len() as i64), Num(b.len() as i64), win(a), win(b)]),
            Sexp::bool(out.finished[r - 1]),
            Sexp::bool(solo.finished[r - 1]),
            events_of(&out, r),
            events_of(&solo, r),
            cleanups_of(&out, r),
            cleanups_of(&solo, r),
            Num(solo.skipped),
        ]));
    }
    reset_world();
    Lst(vec![Lst(conc), Sexp::from_nums([out.skipped, out.leftover_woken, out.acts.len() as i64])])
}

fn main() {
    let args: Vec<String> = std::env::args().collect();
    let sub = args.get(1).map(String::as_str).unwrap_or("");
    any_spawner::Executor::init_custom_executor(Exec).expect("executor");
    #[cfg(feature = "sandboxed")]
    real_axum::register();
    match sub {
        "c20" => {
            let sandboxed_build = cfg!(feature = "sandboxed");
            if sandboxed_build {
                vsexp::drive(|c| if c.at(1).num() != 0 { run_case(c) } else { Lst(vec![Num(-7)]) });
            } else {
                drive_with_sibling();
            }
        }
        _ => eprintln!("usage: h_iso c20"),
    }
}

/// default build: run non-sandboxed cases in process, hand the others to the sandboxed binary
fn drive_with_sibling() {
    use std::io::{BufRead, Write};
    std::panic::set_hook(Box::new(|_| {}));
    let lines: Vec<String> = std::io::stdin().lock().lines().map(|l| l.unwrap()).filter(|l| !l.trim().is_empty()).collect();
    let mut outs: Vec<Option<String>> = vec![None; lines.len()];
    let mut fwd: Vec<usize> = vec![];
    for (i, line) in lines.iter().enumerate() {
        match Sexp::parse(line) {
            Err(e) => outs[i] = Some(format!("!parse-error {e}")),
            Ok(c) => {
                if c.at(1).num() != 0 {
                    fwd.push(i);
                    continue;
                }
                let r = std::panic::catch_unwind(std::panic::AssertUnwindSafe(|| run_case(&c)));
                outs[i] = Some(match r {
                    Ok(v) => v.to_string(),
                    Err(e) => {
                        let msg = e
                            .downcast_ref::<String>()
                            .cloned()
                            .or_else(|| e.downcast_ref::<&str>().map(|s| s.to_string()))
                            .unwrap_or_default();
                        format!("!panic {}", msg.replace('\n', " "))
                    }
                });
            }
        }
    }
    if !fwd.is_empty() {
        let exe = std::env::var("H_ISO_SB").unwrap_or_default();
        let res = std::process::Command::new(&exe)
            .arg("c20")
            .stdin(std::process::Stdio::piped())
            .stdout(std::process::Stdio::piped())
            .spawn()
            .and_then(|mut ch| {
                let mut stdin = ch.stdin.take().unwrap();
                let data: String = fwd.iter().map(|&i| format!("{}\n", lines[i])).collect();
                let h = std::thread::spawn(move || {
                    let _ = stdin.write_all(data.as_bytes());
                });
                let o = ch.wait_with_output();
                let _ = h.join();
                o
            });
        match res {
            Ok(o) => {
                let text = String::from_utf8_lossy(&o.stdout).to_string();
                let got: Vec<&str> = text.lines().filter(|l| !l.trim().is_empty()).collect();
                for (k, &i) in fwd.iter().enumerate() {
                    outs[i] = Some(got.get(k).map(|s| s.to_string()).unwrap_or_else(|| "!missing (sandboxed binary)".into()));
                }
            }
            Err(e) => {
                for &i in &fwd {
                    outs[i] = Some(format!("!no-sandboxed-binary {exe:?} {e}"));
                }
            }
        }
    }
    let stdout = std::io::stdout();
    let mut w = std::io::BufWriter::new(stdout.lock());
    for o in outs {
        writeln!(w, "{}", o.unwrap_or_else(|| "!missing".into())).unwrap();
    }
    w.flush().unwrap();
}
