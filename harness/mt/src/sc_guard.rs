//! Scenarios 15-17 — read guards / synchronous reads of an async derived value overlapping the
//! completion of a RELOAD (`set_inner_value`: `value.write().await`, store, `notify_subs`).
//! Setup (main thread): `d` loads 1, then its source signal is written and the reload starts.
//! The stored value type has a user `Drop` that is a yield point ("user:value_drop"): the
//! replaced value is dropped INSIDE the value's write lock.
//!
//! (15)        one executor thread: a task holds a `by_ref()` guard across another await while
//!             the reload completes on the same thread.            obs ((1 v) final hang)
//! (16 kind sched)  thread 0 = executor (completes the reload, then runs a second task that
//!             releases thread 1), thread 1 = OS thread holding a synchronous read guard
//!             (kind 0: `read_untracked()`, kind 1: inside a `with_untracked` closure) until
//!             released.                                           obs ((st v) final hang)
//! (17 sched)  thread 0 = executor completing the reload, pausing in the `Drop` of the replaced
//!             value (write lock held); thread 1 = synchronous reader `with_untracked`.
//!                                                                 obs ((st v) final hang)
use crate::{ctl, ctl::Ctl, exec};
use futures::channel::oneshot;
use reactive_graph::{
    computed::ArcAsyncDerived, owner::Owner, signal::ArcRwSignal, traits::*,
};
use std::{
    future::Future,
    pin::Pin,
    sync::{
        atomic::{AtomicBool, Ordering::SeqCst},
        Arc, Mutex,
    },
    task::Poll,
};
use vsexp::{Lst, Num, Sexp};

pub struct Val {
    v: i64,
    stored: bool,
}
impl Clone for Val {
    fn clone(&self) -> Self {
        Val { v: self.v, stored: false }
    }
}
impl Drop for Val {
    fn drop(&mut self) {
        if self.stored {
            ctl::user_point("user:value_drop");
        }
    }
}

struct Setup {
    owner: Owner,
    d: ArcAsyncDerived<Val>,
    task: Arc<exec::Task>,
    tx2: Option<oneshot::Sender<i64>>,
    src: ArcRwSignal<i64>,
}

/// the source is written and the value's task starts the reload (waiting for `tx2`)
fn start_reload(src: &ArcRwSignal<i64>, task: &exec::Task) {
    src.set(1);
    assert!(!task.poll()); // loading = true
    task.take_woken();
}

/// d holds Some(1); with `reload` a reload is in flight
fn setup(reload: bool) -> Setup {
    let owner = Owner::new();
    owner.set();
    let _ = exec::take_inbox();
    let (tx1, rx1) = oneshot::channel::<i64>();
    let (tx2, rx2) = oneshot::channel::<i64>();
    let slot = Arc::new(Mutex::new(vec![rx2, rx1]));
    let src = ArcRwSignal::new(0i64);
    let d = ArcAsyncDerived::new({
        let slot = Arc::clone(&slot);
        let src = src.clone();
        move || {
            let _ = src.get();
            let rx = slot.lock().unwrap().pop();
            async move {
                match rx {
                    Some(rx) => Val { v: rx.await.unwrap_or(-1), stored: true },
                    None => futures::future::pending::<Val>().await,
                }
            }
        }
    });
    let mut inbox = exec::take_inbox();
    assert_eq!(inbox.len(), 1);
    let task = exec::Task::new(inbox.pop().unwrap());
    assert!(!task.poll());
    let _ = tx1.send(1);
    assert!(!task.poll());
    assert_eq!(d.with_untracked(|v| v.as_ref().map(|x| x.v)), Some(1));
    if reload {
        start_reload(&src, &task);
    }
    Setup { owner, d, task, tx2: Some(tx2), src }
}

fn finish(ctl: &Arc<Ctl>, res: &Arc<Mutex<(i64, i64)>>, su: Setup, n: usize) -> Sexp {
    let blocked = ctl.settle();
    let hang = ctl.hang.load(SeqCst) || blocked.iter().any(|b| *b);
    let sts: Vec<i64> = (0..n).map(|i| ctl.status(i, &blocked)).collect();
    ctl.finish();
    let (st, v) = *res.lock().unwrap();
    let st = if sts[n - 1] == 3 { 3 } else { st };
    let fin = if hang { -1 } else { su.d.with_untracked(|v| v.as_ref().map(|x| x.v)).unwrap_or(-1) };
    if hang {
        std::mem::forget(su);
    } else {
        drop(su.d);
        drop(su.owner);
    }
    Lst(vec![Lst(vec![Num(st), Num(v)]), Num(fin), Num(hang as i64)])
}

/// (15) everything on one executor thread
pub fn run_one_thread(_case: &Sexp) -> Sexp {
    let mut su = setup(false);
    let ctl = Ctl::new(1, &[]);
    let res = Arc::new(Mutex::new((0i64, 0i64)));
    {
        let d = su.d.clone();
        let task = Arc::clone(&su.task);
        let res = Arc::clone(&res);
        let mut tx2 = su.tx2.take();
        let src = su.src.clone();
        ctl.spawn(0, move |_ctl, _me| {
            let (gate_tx, gate_rx) = oneshot::channel::<()>();
            // user task: take a by_ref guard of the loaded value, keep it across another await
            let mut user: Pin<Box<dyn Future<Output = i64> + Send>> = Box::pin(async move {
                let g = d.by_ref().await;
                let _ = gate_rx.await;
                g.v
            });
            let (_f, w) = exec::flag();
            // the guard is taken while the first value is loaded; then the reload starts
            let _ = exec::poll_boxed(&mut user, &w);
            start_reload(&src, &task);
            let _ = tx2.take().unwrap().send(2);
            task.poll(); // the reload completes: must not park this thread
            let _ = gate_tx.send(());
            for _ in 0..4 {
                if let Poll::Ready(v) = exec::poll_boxed(&mut user, &w) {
                    *res.lock().unwrap() = (1, v);
                    break;
                }
                task.poll();
            }
            task.poll();
        });
    }
    ctl.wait_started();
    for _ in 0..3 {
        ctl.step(0);
    }
    finish(&ctl, &res, su, 1)
}

/// (16) a synchronous read guard on another OS thread, released by a task queued behind the reload
pub fn run_two_threads(case: &Sexp) -> Sexp {
    let kind = case.at(1).num();
    let sched = case.at(2).nums();
    let mut su = setup(true);
    let ctl = Ctl::new(2, &[]);
    let res = Arc::new(Mutex::new((0i64, 0i64)));
    let go = Arc::new(AtomicBool::new(false));
    {
        let task = Arc::clone(&su.task);
        let go = Arc::clone(&go);
        let mut tx2 = su.tx2.take();
        ctl.spawn(0, move |ctl, me| {
            let _ = tx2.take().unwrap().send(2);
            task.take_woken();
            task.poll(); // completion of the reload
            ctl.pause(me, "op");
            go.store(true, SeqCst); // the task queued behind it releases thread 1
            loop {
                ctl.pause(me, "parked");
                if ctl.aborted() {
                    return;
                }
                if task.take_woken() {
                    task.poll();
                }
            }
        });
    }
    {
        let d = su.d.clone();
        let go = Arc::clone(&go);
        let res = Arc::clone(&res);
        ctl.spawn(1, move |ctl, me| {
            let wait = |ctl: &Arc<Ctl>| loop {
                ctl.pause(me, "parked");
                if ctl.aborted() || go.load(SeqCst) {
                    break;
                }
            };
            let v = if kind == 0 {
                let g = d.read_untracked();
                wait(ctl);
                g.as_ref().map(|x| x.v).unwrap_or(-1)
            } else {
                d.with_untracked(|v| {
                    wait(ctl);
                    v.as_ref().map(|x| x.v).unwrap_or(-1)
                })
            };
            if !ctl.aborted() || go.load(SeqCst) {
                *res.lock().unwrap() = (1, v);
            }
        });
    }
    ctl.wait_started();
    for t in &sched {
        ctl.step(*t as usize);
    }
    finish(&ctl, &res, su, 2)
}

/// (17) synchronous read while the value's task holds the write lock (inside the Drop of the
/// replaced value)
pub fn run_read_vs_store(case: &Sexp) -> Sexp {
    let sched = case.at(1).nums();
    let mut su = setup(true);
    let ctl = Ctl::new(2, &["user:value_drop"]);
    let res = Arc::new(Mutex::new((0i64, 0i64)));
    {
        let task = Arc::clone(&su.task);
        let mut tx2 = su.tx2.take();
        ctl.spawn(0, move |ctl, me| {
            let _ = tx2.take().unwrap().send(2);
            task.take_woken();
            task.poll();
            loop {
                ctl.pause(me, "parked");
                if ctl.aborted() {
                    return;
                }
                if task.take_woken() {
                    task.poll();
                }
            }
        });
    }
    {
        let d = su.d.clone();
        let res = Arc::clone(&res);
        ctl.spawn(1, move |_ctl, _me| {
            let v = d.with_untracked(|v| v.as_ref().map(|x| x.v).unwrap_or(-1));
            *res.lock().unwrap() = (1, v);
        });
    }
    ctl.wait_started();
    for t in &sched {
        ctl.step(*t as usize);
    }
    finish(&ctl, &res, su, 2)
}

/// (18 kind sched) a user holds the WRITE guard of an async derived value (`d.write()`, loaded,
/// not loading) on thread 0 and modifies it; thread 1 awaits the value (kind 1: into_future,
/// kind 2: by_ref, kind 0: ready()). Dropping the guard releases the lock and notifies.
/// obs ((st v polls) writer_status hang)
pub fn run_user_write(case: &Sexp) -> Sexp {
    let kind = case.at(1).num();
    let sched = case.at(2).nums();
    let su = setup(false);
    let ctl = Ctl::new(2, &[]);
    let res = Arc::new(Mutex::new((0i64, 0i64, 0i64)));
    {
        let d = su.d.clone();
        ctl.spawn(0, move |ctl, me| {
            let mut g = d.write();
            ctl.pause(me, "op");
            *g = Some(Val { v: 7, stored: false });
            drop(g);
        });
    }
    {
        let d = su.d.clone();
        let res = Arc::clone(&res);
        ctl.spawn(1, move |ctl, me| {
            let mut fut: Pin<Box<dyn Future<Output = i64> + Send>> = match kind {
                0 => {
                    let d2 = d.clone();
                    Box::pin(async move {
                        d2.ready().await;
                        d2.with_untracked(|v| v.as_ref().map(|x| x.v).unwrap_or(-2))
                    })
                }
                1 => {
                    let f = std::future::IntoFuture::into_future(d.clone());
                    Box::pin(async move { f.await.v })
                }
                _ => {
                    let d2 = d.clone();
                    Box::pin(async move { d2.by_ref().await.v })
                }
            };
            let (flag, waker) = exec::flag();
            let mut polls = 0;
            loop {
                polls += 1;
                match exec::poll_boxed(&mut fut, &waker) {
                    Poll::Ready(v) => {
                        *res.lock().unwrap() = (1, v, polls);
                        break;
                    }
                    Poll::Pending => {
                        *res.lock().unwrap() = (0, 0, polls);
                        loop {
                            ctl.pause(me, "parked");
                            if ctl.aborted() {
                                return;
                            }
                            if flag.0.swap(false, SeqCst) {
                                break;
                            }
                        }
                    }
                }
            }
        });
    }
    ctl.wait_started();
    for t in &sched {
        ctl.step(*t as usize);
    }
    let blocked = ctl.settle();
    let hang = ctl.hang.load(SeqCst) || blocked.iter().any(|b| *b);
    let wst = ctl.status(0, &blocked);
    ctl.finish();
    let (st, v, p) = *res.lock().unwrap();
    if hang {
        std::mem::forget(su);
    }
    Lst(vec![Lst(vec![Num(st), Num(v), Num(p)]), Num(wst), Num(hang as i64)])
}
