//! Scenarios added by the anchor coverage audit (compared by the oracle; 23 also with the model).
//!
//! (23 progs sched)  scenario 3 with ARENA handles (`RwSignal`, `Memo`: every access goes through
//!                   the global arena `RwLock` of owner/arena.rs) — same observation as (3 ..).
//! (27 kind sched)   non-blocking `try_write` of signal/guards.rs (`UntrackedWriteGuard::try_new`):
//!                   thread 0 holds a guard of signal s across a pause (kind 0: write guard inside
//!                   `update`, kinds 1/2: a `read_untracked()` guard); thread 1 does
//!                   `update_untracked(+10)` (kinds 0/1) or the blocking `set(5)` (kind 2).
//!                   obs ((status1) status0 final_s hang)
//! (29 kind sched)   awaiter vs the START of a reload: thread 0 = executor (write the source, poll:
//!                   `loading.store(true)`, then complete with 2), thread 1 awaits (kind 0/1/2).
//!                   obs ((st v) executor_done hang)
//! (30 sched)        the effect is disposed (its `Sender` dropped -> `Inner::drop` wakes the
//!                   receiver) on thread 1 while thread 0 polls the effect's task.
//!                   obs (task_ended hang)
use crate::{ctl::Ctl, exec};
use futures::channel::oneshot;
use reactive_graph::{
    computed::{ArcAsyncDerived, ArcMemo, Memo},
    effect::Effect,
    owner::Owner,
    signal::{ArcRwSignal, RwSignal},
    traits::*,
};
use std::{
    future::{Future, IntoFuture},
    pin::Pin,
    sync::{
        atomic::{AtomicBool, Ordering::SeqCst},
        Arc, Mutex,
    },
    task::Poll,
};
use vsexp::{Lst, Num, Sexp};

pub fn run_sig_arena(case: &Sexp) -> Sexp {
    let progs: Vec<Vec<Vec<i64>>> =
        case.at(1).list().iter().map(|p| p.list().iter().map(|o| o.nums()).collect()).collect();
    let sched = case.at(2).nums();
    let n = progs.len();
    let owner = Owner::new();
    owner.set();
    let s = RwSignal::new(1i64);
    let m = Memo::new(move |_| s.get() * 10);
    assert_eq!(m.get_untracked(), 10);
    let order: Arc<Mutex<Vec<(i64, i64)>>> = Arc::new(Mutex::new(vec![]));
    let pulls: Arc<Mutex<Vec<Vec<i64>>>> = Arc::new(Mutex::new(vec![vec![]; n]));
    let ctl = Ctl::new(n, &["write:unlocked", "signal:mark_sub", "memo:needs_update", "memo:computed"]);
    for (j, prog) in progs.iter().enumerate() {
        let prog = prog.clone();
        let order = Arc::clone(&order);
        let pulls = Arc::clone(&pulls);
        ctl.spawn(j, move |ctl, me| {
            for (i, op) in prog.iter().enumerate() {
                if i > 0 {
                    ctl.pause(me, "op");
                }
                match op[0] {
                    0 => s.update(|x| {
                        *x = op[1];
                        order.lock().unwrap().push((me as i64, i as i64));
                    }),
                    1 => s.update(|x| {
                        *x += op[1];
                        order.lock().unwrap().push((me as i64, i as i64));
                    }),
                    _ => {
                        // arena churn next to the access: create and dispose another arena item
                        let tmp = RwSignal::new(0u8);
                        let v = m.get_untracked();
                        tmp.dispose();
                        pulls.lock().unwrap()[me].push(v);
                    }
                }
            }
        });
    }
    ctl.wait_started();
    for t in &sched {
        ctl.step(*t as usize);
    }
    let blocked = ctl.settle();
    let st: Vec<Sexp> = (0..n).map(|i| Num(ctl.status(i, &blocked))).collect();
    let hang = ctl.hang.load(SeqCst) || blocked.iter().any(|b| *b);
    let all_done = (0..n).all(|i| ctl.status(i, &blocked) == 1);
    ctl.finish();
    let fin_s = s.get_untracked();
    let fin_m = if all_done {
        std::panic::catch_unwind(std::panic::AssertUnwindSafe(|| m.get_untracked())).unwrap_or(-999)
    } else {
        -998
    };
    let ord = order.lock().unwrap().clone();
    let pl = pulls.lock().unwrap().clone();
    if !hang {
        owner.cleanup();
        drop(owner);
    }
    Lst(vec![
        Num(fin_s),
        Num(fin_m),
        Lst(pl.into_iter().map(Sexp::from_nums).collect()),
        Lst(ord.into_iter().map(|(a, b)| Lst(vec![Num(a), Num(b)])).collect()),
        Lst(st),
        Num(hang as i64),
    ])
}

pub fn run_try_write(case: &Sexp) -> Sexp {
    let kind = case.at(1).num();
    let sched = case.at(2).nums();
    let owner = Owner::new();
    owner.set();
    let s = ArcRwSignal::new(1i64);
    let ctl = Ctl::new(2, &[]);
    {
        let s = s.clone();
        ctl.spawn(0, move |ctl, me| {
            if kind == 0 {
                s.update(|x| {
                    ctl.pause(me, "op");
                    *x = 2;
                });
            } else {
                let g = s.read_untracked();
                ctl.pause(me, "op");
                drop(g);
            }
        });
    }
    {
        let s = s.clone();
        ctl.spawn(1, move |_ctl, _me| {
            if kind == 2 {
                s.set(5);
            } else {
                s.update_untracked(|x| *x += 10);
            }
        });
    }
    ctl.wait_started();
    for t in &sched {
        ctl.step(*t as usize);
    }
    let blocked = ctl.settle();
    let st: Vec<i64> = (0..2).map(|i| ctl.status(i, &blocked)).collect();
    let hang = ctl.hang.load(SeqCst) || blocked.iter().any(|b| *b);
    ctl.finish();
    let fin = if hang { -1 } else { s.get_untracked() };
    Lst(vec![Lst(vec![Num(st[1])]), Num(st[0]), Num(fin), Num(hang as i64)])
}

pub fn run_await_reload(case: &Sexp) -> Sexp {
    let kind = case.at(1).num();
    let sched = case.at(2).nums();
    let owner = Owner::new();
    owner.set();
    let _ = exec::take_inbox();
    let (tx1, rx1) = oneshot::channel::<i64>();
    let (tx2, rx2) = oneshot::channel::<i64>();
    let slot = Arc::new(Mutex::new(vec![rx2, rx1]));
    let src = ArcRwSignal::new(0i64);
    let d = ArcAsyncDerived::new({
        let slot = Arc::clone(&slot);
        let src = src.clone();
        move || {
            let _ = src.get();
            let rx = slot.lock().unwrap().pop();
            async move {
                match rx {
                    Some(rx) => rx.await.unwrap_or(-1),
                    None => futures::future::pending::<i64>().await,
                }
            }
        }
    });
    let mut inbox = exec::take_inbox();
    let task = exec::Task::new(inbox.pop().unwrap());
    assert!(!task.poll());
    let _ = tx1.send(1);
    assert!(!task.poll());
    task.take_woken();
    let ctl = Ctl::new(
        2,
        &["await:loaded", "ad:loading_set", "ad:value_stored", "ad:loading_cleared", "ad:before_drain"],
    );
    let res = Arc::new(Mutex::new((0i64, 0i64)));
    let edone = Arc::new(AtomicBool::new(false));
    {
        let task = Arc::clone(&task);
        let src = src.clone();
        let edone = Arc::clone(&edone);
        let mut tx2 = Some(tx2);
        ctl.spawn(0, move |ctl, me| {
            src.set(1); // d is notified
            task.take_woken();
            task.poll(); // reload starts: loading.store(true) · "ad:loading_set" · waits for tx2
            ctl.pause(me, "op");
            let _ = tx2.take().unwrap().send(2);
            loop {
                task.take_woken();
                task.poll();
                if ctl.passed(me, "ad:before_drain") {
                    edone.store(true, SeqCst);
                    return;
                }
                loop {
                    ctl.pause(me, "parked");
                    if ctl.aborted() {
                        return;
                    }
                    if task.take_woken() {
                        break;
                    }
                }
            }
        });
    }
    {
        let d = d.clone();
        let res = Arc::clone(&res);
        ctl.spawn(1, move |ctl, me| {
            let mut fut: Pin<Box<dyn Future<Output = i64> + Send>> = match kind {
                0 => {
                    let d2 = d.clone();
                    Box::pin(async move {
                        d2.ready().await;
                        d2.get_untracked().unwrap_or(-2)
                    })
                }
                1 => Box::pin(d.clone().into_future()),
                _ => {
                    let d2 = d.clone();
                    Box::pin(async move { *d2.by_ref().await })
                }
            };
            let (flag, waker) = exec::flag();
            loop {
                match exec::poll_boxed(&mut fut, &waker) {
                    Poll::Ready(v) => {
                        *res.lock().unwrap() = (1, v);
                        break;
                    }
                    Poll::Pending => loop {
                        ctl.pause(me, "parked");
                        if ctl.aborted() {
                            return;
                        }
                        if flag.0.swap(false, SeqCst) {
                            break;
                        }
                    },
                }
            }
        });
    }
    ctl.wait_started();
    for t in &sched {
        ctl.step(*t as usize);
    }
    let blocked = ctl.settle();
    let hang = ctl.hang.load(SeqCst) || blocked.iter().any(|b| *b);
    let (st, v) = *res.lock().unwrap();
    let ed = edone.load(SeqCst) as i64;
    ctl.finish();
    if hang {
        std::mem::forget(d);
        std::mem::forget(owner);
    }
    Lst(vec![Lst(vec![Num(st), Num(v)]), Num(ed), Num(hang as i64)])
}

pub fn run_dispose(case: &Sexp) -> Sexp {
    let sched = case.at(1).nums();
    let owner = Owner::new();
    owner.set();
    let _ = exec::take_inbox();
    let s = ArcRwSignal::new(0i64);
    let eff = Effect::new_isomorphic({
        let s = s.clone();
        move |_: Option<()>| {
            let _ = s.get();
        }
    });
    let mut inbox = exec::take_inbox();
    let task = exec::Task::new(inbox.pop().unwrap());
    assert!(!task.poll());
    task.take_woken();
    s.set(1); // the effect's task is due to be polled
    let ctl = Ctl::new(2, &["chan:registered", "sources:remove_sub"]);
    let ended = Arc::new(AtomicBool::new(false));
    {
        let task = Arc::clone(&task);
        let ended = Arc::clone(&ended);
        ctl.spawn(0, move |ctl, me| loop {
            if ctl.aborted() {
                return;
            }
            if task.take_woken() {
                if task.poll() {
                    ended.store(true, SeqCst);
                    return;
                }
            }
            ctl.pause(me, "parked");
        });
    }
    {
        let owner = owner.clone();
        let mut eff = Some(eff);
        ctl.spawn(1, move |_ctl, _me| {
            // dispose the effect: the arena item holding its inner (and the Sender) goes away
            eff.take().unwrap().dispose();
            owner.cleanup();
        });
    }
    ctl.wait_started();
    for t in &sched {
        ctl.step(*t as usize);
    }
    let blocked = ctl.settle();
    let hang = ctl.hang.load(SeqCst) || blocked.iter().any(|b| *b);
    let e = ended.load(SeqCst) as i64;
    ctl.finish();
    Lst(vec![Num(e), Num(hang as i64)])
}

/// (32 progs sched)  memo -> memo chain across threads: s (1) -> m1 = s * 10 -> m2 = m1 + 1; ops as in
/// scenario 3, a pull reads m2 (Check propagation through `mark_check`, the Check branch of
/// `needs_update`, nested recomputation).   obs (final_s final_m2 (status ...) hang)
pub fn run_memo_chain(case: &Sexp) -> Sexp {
    let progs: Vec<Vec<Vec<i64>>> =
        case.at(1).list().iter().map(|p| p.list().iter().map(|o| o.nums()).collect()).collect();
    let sched = case.at(2).nums();
    let n = progs.len();
    let owner = Owner::new();
    owner.set();
    let s = ArcRwSignal::new(1i64);
    let m1 = ArcMemo::new({
        let s = s.clone();
        move |_| s.get() * 10
    });
    let m2 = ArcMemo::new({
        let m1 = m1.clone();
        move |_| m1.get() + 1
    });
    assert_eq!(m2.get_untracked(), 11);
    let ctl = Ctl::new(
        n,
        &["write:unlocked", "signal:mark_sub", "memo:marked_dirty", "memo:mark_sub", "memo:needs_update", "memo:computed"],
    );
    for (j, prog) in progs.iter().enumerate() {
        let s = s.clone();
        let m2 = m2.clone();
        let prog = prog.clone();
        ctl.spawn(j, move |ctl, me| {
            for (i, op) in prog.iter().enumerate() {
                if i > 0 {
                    ctl.pause(me, "op");
                }
                match op[0] {
                    0 => s.set(op[1]),
                    1 => s.update(|x| *x += op[1]),
                    _ => {
                        let _ = m2.get_untracked();
                    }
                }
            }
        });
    }
    ctl.wait_started();
    for t in &sched {
        ctl.step(*t as usize);
    }
    let blocked = ctl.settle();
    let st: Vec<Sexp> = (0..n).map(|i| Num(ctl.status(i, &blocked))).collect();
    let hang = ctl.hang.load(SeqCst) || blocked.iter().any(|b| *b);
    let all_done = (0..n).all(|i| ctl.status(i, &blocked) == 1);
    ctl.finish();
    let fin_s = s.get_untracked();
    let fin_m = if all_done {
        std::panic::catch_unwind(std::panic::AssertUnwindSafe(|| m2.get_untracked())).unwrap_or(-999)
    } else {
        -998
    };
    Lst(vec![Num(fin_s), Num(fin_m), Lst(st), Num(hang as i64)])
}

/// (34 sched)  a source write on thread 1 while the value's task (thread 0) is inside `notify_subs`
/// (state = Notifying between "ad:loading_cleared" and the end): the write must still lead to a reload.
/// Load j yields 10 * (j + 1) and is completed by thread 0 as soon as it has started.
/// obs (loads_started final_value source hang)
pub fn run_notifying_window(case: &Sexp) -> Sexp {
    let sched = case.at(1).nums();
    let owner = Owner::new();
    owner.set();
    let _ = exec::take_inbox();
    let mut txs = std::collections::VecDeque::new();
    let mut rxs = vec![];
    for _ in 0..4 {
        let (tx, rx) = oneshot::channel::<i64>();
        txs.push_back(tx);
        rxs.push(rx);
    }
    rxs.reverse();
    let queue = Arc::new(Mutex::new(rxs));
    let started = Arc::new(Mutex::new(0i64));
    let src = ArcRwSignal::new(0i64);
    let d = ArcAsyncDerived::new({
        let (queue, src, started) = (Arc::clone(&queue), src.clone(), Arc::clone(&started));
        move || {
            let _ = src.get();
            let rx = queue.lock().unwrap().pop();
            *started.lock().unwrap() += 1;
            async move {
                match rx {
                    Some(rx) => rx.await.unwrap_or(-1),
                    None => futures::future::pending::<i64>().await,
                }
            }
        }
    });
    let mut inbox = exec::take_inbox();
    let task = exec::Task::new(inbox.pop().unwrap());
    assert!(!task.poll());
    task.take_woken();
    let ctl = Ctl::new(2, &["ad:value_stored", "ad:loading_cleared", "ad:before_drain", "ad:loading_set"]);
    {
        let task = Arc::clone(&task);
        let started = Arc::clone(&started);
        ctl.spawn(0, move |ctl, me| {
            let mut completed = 0i64;
            loop {
                if completed < *started.lock().unwrap() {
                    if let Some(tx) = txs.pop_front() {
                        completed += 1;
                        let _ = tx.send(10 * completed);
                    }
                }
                if task.take_woken() {
                    task.poll();
                }
                ctl.pause(me, "parked");
                if ctl.aborted() {
                    return;
                }
            }
        });
    }
    {
        let src = src.clone();
        ctl.spawn(1, move |_ctl, _me| {
            src.set(1);
        });
    }
    ctl.wait_started();
    for t in &sched {
        ctl.step(*t as usize);
    }
    let blocked = ctl.settle();
    let hang = ctl.hang.load(SeqCst) || blocked.iter().any(|b| *b);
    let st = *started.lock().unwrap();
    let fin = d.get_untracked().unwrap_or(-1);
    let sv = src.get_untracked();
    ctl.finish();
    Lst(vec![Num(st), Num(fin), Num(sv), Num(hang as i64)])
}
