//! Scenario 3 — signal writes and memo pulls from different threads.
//!
//! case  (3 (prog_0 .. prog_{n-1}) sched)   prog = list of ops: (0 v) set s:=v, (1 d) update s+=d,
//!        (2) pull memo m = s*10 (`get_untracked`)
//! obs   (final_s final_m (per thread: (values returned by its pulls)) (lock order of the writes:
//!        (thread index) ...) (status per thread) hang)
use crate::ctl::Ctl;
use reactive_graph::{computed::ArcMemo, owner::Owner, signal::ArcRwSignal, traits::*};
use std::sync::{Arc, Mutex};
use vsexp::{Lst, Num, Sexp};

pub fn run(case: &Sexp) -> Sexp {
    let progs: Vec<Vec<Vec<i64>>> =
        case.at(1).list().iter().map(|p| p.list().iter().map(|o| o.nums()).collect()).collect();
    let sched = case.at(2).nums();
    let n = progs.len();

    let owner = Owner::new();
    owner.set();
    let s = ArcRwSignal::new(1i64);
    let m = ArcMemo::new({
        let s = s.clone();
        move |_| s.get() * 10
    });
    assert_eq!(m.get_untracked(), 10); // initial pull: subscribes m to s, state Clean
    let order: Arc<Mutex<Vec<(i64, i64)>>> = Arc::new(Mutex::new(vec![]));
    let pulls: Arc<Mutex<Vec<Vec<i64>>>> = Arc::new(Mutex::new(vec![vec![]; n]));

    let ctl = Ctl::new(n, &["write:unlocked", "signal:mark_sub", "memo:needs_update", "memo:computed"]);
    for (j, prog) in progs.iter().enumerate() {
        let s = s.clone();
        let m = m.clone();
        let prog = prog.clone();
        let order = Arc::clone(&order);
        let pulls = Arc::clone(&pulls);
        ctl.spawn(j, move |ctl, me| {
            for (i, op) in prog.iter().enumerate() {
                if i > 0 {
                    ctl.pause(me, "op");
                }
                match op[0] {
                    0 => s.update(|x| {
                        *x = op[1];
                        order.lock().unwrap().push((me as i64, i as i64));
                    }),
                    1 => s.update(|x| {
                        *x += op[1];
                        order.lock().unwrap().push((me as i64, i as i64));
                    }),
                    _ => {
                        let v = m.get_untracked();
                        pulls.lock().unwrap()[me].push(v);
                    }
                }
            }
        });
    }
    ctl.wait_started();
    for t in &sched {
        ctl.step(*t as usize);
    }
    let blocked = ctl.settle();
    let st: Vec<Sexp> = (0..n).map(|i| Num(ctl.status(i, &blocked))).collect();
    let hang = ctl.hang.load(std::sync::atomic::Ordering::SeqCst) || blocked.iter().any(|b| *b);
    let all_done = (0..n).all(|i| ctl.status(i, &blocked) == 1);
    ctl.finish();
    let fin_s = s.get_untracked();
    // final pull only when everybody finished (otherwise a stuck thread may hold a lock)
    let fin_m = if all_done {
        std::panic::catch_unwind(std::panic::AssertUnwindSafe(|| m.get_untracked())).unwrap_or(-999)
    } else {
        -998
    };
    let ord = order.lock().unwrap().clone();
    let pl = pulls.lock().unwrap().clone();
    drop(owner);
    Lst(vec![
        Num(fin_s),
        Num(fin_m),
        Lst(pl.into_iter().map(Sexp::from_nums).collect()),
        Lst(ord.into_iter().map(|(a, b)| Lst(vec![Num(a), Num(b)])).collect()),
        Lst(st),
        Num(hang as i64),
    ])
}
