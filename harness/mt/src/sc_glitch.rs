//! Scenario 4 — mid-notification read (F-C19-b): memos a = s+1, b = s*2, an isomorphic effect
//! logs (a, b); the writer thread marks its subscribers one after the other, the effect's
//! task runs on another thread in between.
//!
//! case  (4 (v_1 .. v_n) sched)    thread 0 = effect executor, thread 1 = writer (s.set(v_i) ...)
//! obs   (((a b) per effect run) final_s (status per thread) hang)
use crate::{ctl::Ctl, exec};
use reactive_graph::{
    computed::ArcMemo, effect::Effect, owner::Owner, signal::ArcRwSignal, traits::*,
};
use std::sync::{Arc, Mutex};
use vsexp::{Lst, Num, Sexp};

pub fn run(case: &Sexp) -> Sexp {
    let vals = case.at(1).nums();
    let sched = case.at(2).nums();
    let owner = Owner::new();
    owner.set();
    let _ = exec::take_inbox();
    let s = ArcRwSignal::new(1i64);
    let a = ArcMemo::new({
        let s = s.clone();
        move |_| s.get() + 1
    });
    let b = ArcMemo::new({
        let s = s.clone();
        move |_| s.get() * 2
    });
    let log: Arc<Mutex<Vec<(i64, i64)>>> = Arc::new(Mutex::new(vec![]));
    let eff = Effect::new_isomorphic({
        let (a, b) = (a.clone(), b.clone());
        let log = Arc::clone(&log);
        move |_: Option<()>| {
            let x = a.get();
            let y = b.get();
            log.lock().unwrap().push((x, y));
        }
    });
    let mut inbox = exec::take_inbox();
    assert_eq!(inbox.len(), 1);
    let task = exec::Task::new(inbox.pop().unwrap());
    assert!(!task.poll());
    task.take_woken();

    let ctl = Ctl::new(2, &["signal:mark_sub"]);
    {
        let task = Arc::clone(&task);
        ctl.spawn(0, move |ctl, me| loop {
            if ctl.aborted() {
                return;
            }
            if task.take_woken() {
                if task.poll() {
                    return;
                }
            }
            ctl.pause(me, "parked");
        });
    }
    {
        let s = s.clone();
        ctl.spawn(1, move |ctl, me| {
            for (i, v) in vals.iter().enumerate() {
                if i > 0 {
                    ctl.pause(me, "op");
                }
                s.set(*v);
            }
        });
    }
    ctl.wait_started();
    for t in &sched {
        ctl.step(*t as usize);
    }
    let blocked = ctl.settle();
    let st: Vec<Sexp> = (0..2).map(|i| Num(ctl.status(i, &blocked))).collect();
    let hang = ctl.hang.load(std::sync::atomic::Ordering::SeqCst) || blocked.iter().any(|b| *b);
    let lg = log.lock().unwrap().clone();
    let fin = s.get_untracked();
    ctl.finish();
    drop(eff);
    drop(owner);
    Lst(vec![
        Lst(lg.into_iter().map(|(x, y)| Lst(vec![Num(x), Num(y)])).collect()),
        Num(fin),
        Lst(st),
        Num(hang as i64),
    ])
}
