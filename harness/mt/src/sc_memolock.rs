//! Scenario 11 — lock order on the path signal -> memo -> effect across threads.
//! The effect reads memo `m = s * 10` and signal `t`. Before the threads start `t` is written,
//! so the effect is due to re-run (its `clear_sources` unsubscribes from `m` under the
//! effect's own lock); thread 1 writes `s`: `m.mark_dirty()` -> `mark_subscribers_check` ->
//! `effect.mark_check()` (takes the effect's lock; yield point at its entry).
//! case  (11 withlog sched)   thread 0 = effect executor, thread 1 = writer of s
//! obs   withlog=0: (hang)    withlog=1: ((effect log: (m t) per run) (status per thread) hang)
//!
//! Scenario 13 — signal -> memo -> ImmediateEffect on ONE thread: `s.set` runs the effect
//! inline from inside `mark_check`.
//! case  (13 sched)    obs  (hang)
use crate::{ctl::Ctl, exec};
use reactive_graph::{
    computed::ArcMemo,
    effect::{Effect, ImmediateEffect},
    owner::Owner,
    signal::ArcRwSignal,
    traits::*,
};
use std::sync::{Arc, Mutex};
use vsexp::{Lst, Num, Sexp};

pub fn run(case: &Sexp) -> Sexp {
    let withlog = case.at(1).num() != 0;
    let sched = case.at(2).nums();
    let owner = Owner::new();
    owner.set();
    let _ = exec::take_inbox();
    let s = ArcRwSignal::new(1i64);
    let t = ArcRwSignal::new(0i64);
    let m = ArcMemo::new({
        let s = s.clone();
        move |_| s.get() * 10
    });
    let log: Arc<Mutex<Vec<(i64, i64)>>> = Arc::new(Mutex::new(vec![]));
    let eff = Effect::new_isomorphic({
        let (m, t) = (m.clone(), t.clone());
        let log = Arc::clone(&log);
        move |_: Option<()>| {
            let x = m.get();
            let y = t.get();
            log.lock().unwrap().push((x, y));
        }
    });
    let mut inbox = exec::take_inbox();
    assert_eq!(inbox.len(), 1);
    let etask = exec::Task::new(inbox.pop().unwrap());
    assert!(!etask.poll());
    etask.take_woken();
    t.set(5); // the effect is now notified (dirty, woken)

    let ctl = Ctl::new(2, &["sources:remove_sub", "effect:mark_check", "memo:marked_dirty"]);
    {
        let task = Arc::clone(&etask);
        ctl.spawn(0, move |ctl, me| loop {
            if ctl.aborted() {
                return;
            }
            if task.take_woken() {
                if task.poll() {
                    return;
                }
            }
            ctl.pause(me, "parked");
        });
    }
    {
        let s = s.clone();
        ctl.spawn(1, move |_ctl, _me| {
            s.set(2);
        });
    }
    ctl.wait_started();
    for t in &sched {
        ctl.step(*t as usize);
    }
    let blocked = ctl.settle();
    let st: Vec<Sexp> = (0..2).map(|i| Num(ctl.status(i, &blocked))).collect();
    let hang = ctl.hang.load(std::sync::atomic::Ordering::SeqCst) || blocked.iter().any(|b| *b);
    let lg = log.lock().unwrap().clone();
    ctl.finish();
    if !hang {
        drop(eff);
        drop(m);
        drop(owner);
    } else {
        std::mem::forget(eff);
        std::mem::forget(m);
        std::mem::forget(owner);
    }
    if !withlog {
        return Lst(vec![Num(hang as i64)]);
    }
    Lst(vec![
        Lst(lg.into_iter().map(|(x, y)| Lst(vec![Num(x), Num(y)])).collect()),
        Lst(st),
        Num(hang as i64),
    ])
}

pub fn run_immediate(case: &Sexp) -> Sexp {
    let sched = case.at(1).nums();
    let owner = Owner::new();
    owner.set();
    let s = ArcRwSignal::new(1i64);
    let m = ArcMemo::new({
        let s = s.clone();
        move |_| s.get() * 10
    });
    let log: Arc<Mutex<Vec<i64>>> = Arc::new(Mutex::new(vec![]));
    let eff = ImmediateEffect::new_isomorphic({
        let m = m.clone();
        let log = Arc::clone(&log);
        move || {
            let x = m.get();
            log.lock().unwrap().push(x);
        }
    });
    let ctl = Ctl::new(1, &[]);
    {
        let s = s.clone();
        ctl.spawn(0, move |_ctl, _me| {
            s.set(2);
        });
    }
    ctl.wait_started();
    for t in &sched {
        ctl.step(*t as usize);
    }
    let blocked = ctl.settle();
    let hang = ctl.hang.load(std::sync::atomic::Ordering::SeqCst) || blocked.iter().any(|b| *b);
    ctl.finish();
    if hang {
        std::mem::forget(eff);
        std::mem::forget(m);
        std::mem::forget(owner);
    } else {
        drop(eff);
        drop(m);
        drop(owner);
    }
    Lst(vec![Num(hang as i64)])
}
