//! Schedule controller: REAL threads, each blocked at its named yield points
//! (`reactive_graph::verif_yield` + harness-level points) and released one slot at a time in
//! the order the case's schedule dictates.
//!
//! One schedule slot `t`:  if participant `t` waits at a yield point it is released; then the
//! controller waits for *quiescence*: every participant is at a yield point, finished, or
//! blocked in the kernel (futex wait on a lock held by a paused participant — read from
//! `/proc/self/task/<tid>/stat`, state `S` over several consecutive samples).  A participant
//! that is blocked or finished makes its slot a no-op.  A blocked participant continues by
//! itself when the lock is released; quiescence then also waits for it.
use std::{
    cell::RefCell,
    sync::{
        atomic::{AtomicBool, AtomicI64, AtomicU8, Ordering::SeqCst},
        Arc, Condvar, Mutex,
    },
    time::{Duration, Instant},
};

pub const RUNNING: u8 = 0;
pub const AT_YIELD: u8 = 1;
pub const FINISHED: u8 = 2;

pub struct Part {
    pub state: AtomicU8,
    pub tid: AtomicI64,
    go: Mutex<bool>,
    cv: Condvar,
    /// names of the yield points this participant stopped at, in order
    pub trace: Mutex<Vec<&'static str>>,
    pub panicked: Mutex<Option<String>>,
}

pub struct Ctl {
    pub parts: Vec<Part>,
    pub active: Vec<&'static str>,
    pub abort: AtomicBool,
    pub hang: AtomicBool,
}

thread_local! {
    static CUR: RefCell<Option<(Arc<Ctl>, usize)>> = const { RefCell::new(None) };
    /// stress mode: per-thread PRNG state; non-zero = jitter at every yield point
    static JITTER: std::cell::Cell<u64> = const { std::cell::Cell::new(0) };
}

pub fn set_jitter(seed: u64) {
    JITTER.with(|j| j.set(seed | 1));
}

fn jitter() {
    JITTER.with(|j| {
        let mut x = j.get();
        if x == 0 {
            return;
        }
        x ^= x << 13;
        x ^= x >> 7;
        x ^= x << 17;
        j.set(x);
        match x % 4 {
            0 => {
                for _ in 0..(x >> 8) % 3000 {
                    std::hint::spin_loop();
                }
            }
            1 => std::thread::yield_now(),
            2 => std::thread::sleep(Duration::from_micros((x >> 8) % 60)),
            _ => {}
        }
    });
}

/// install the process-wide yield callback (once)
pub fn install() {
    reactive_graph::set_verif_yield_callback(Some(Arc::new(|name: &'static str| {
        jitter();
        let cur = CUR.with(|c| c.borrow().clone());
        if let Some((ctl, i)) = cur {
            if ctl.active.contains(&name) {
                ctl.pause(i, name);
            }
        }
    })));
}

/// a point inside USER code that the library calls back into (waker vtable, closures, ...):
/// same scheduler hook as `verif_yield`
pub fn user_point(name: &'static str) {
    jitter();
    let cur = CUR.with(|c| c.borrow().clone());
    if let Some((ctl, i)) = cur {
        if ctl.active.contains(&name) {
            ctl.pause(i, name);
        }
    }
}

fn gettid() -> i64 {
    std::fs::read_link("/proc/thread-self")
        .ok()
        .and_then(|p| p.file_name().map(|s| s.to_string_lossy().into_owned()))
        .and_then(|s| s.parse().ok())
        .unwrap_or(-1)
}

/// kernel scheduling state of a thread of this process ('R', 'S', 'D', ...)
fn thread_state(tid: i64) -> u8 {
    match std::fs::read(format!("/proc/self/task/{tid}/stat")) {
        Ok(b) => match b.iter().rposition(|c| *c == b')') {
            Some(p) if p + 2 < b.len() => b[p + 2],
            _ => b'?',
        },
        Err(_) => b'X',
    }
}

impl Ctl {
    pub fn new(n: usize, active: &[&'static str]) -> Arc<Ctl> {
        let mut act = active.to_vec();
        act.push("start");
        act.push("parked");
        act.push("op");
        Arc::new(Ctl {
            parts: (0..n)
                .map(|_| Part {
                    state: AtomicU8::new(RUNNING),
                    tid: AtomicI64::new(-1),
                    go: Mutex::new(false),
                    cv: Condvar::new(),
                    trace: Mutex::new(vec![]),
                    panicked: Mutex::new(None),
                })
                .collect(),
            active: act,
            abort: AtomicBool::new(false),
            hang: AtomicBool::new(false),
        })
    }

    pub fn aborted(&self) -> bool {
        self.abort.load(SeqCst)
    }

    /// called on a participant thread: stop here until the controller releases this participant
    pub fn pause(&self, i: usize, name: &'static str) {
        if self.aborted() {
            return;
        }
        let p = &self.parts[i];
        p.trace.lock().unwrap().push(name);
        let mut g = p.go.lock().unwrap();
        p.state.store(AT_YIELD, SeqCst);
        while !*g && !self.aborted() {
            g = p.cv.wait_timeout(g, Duration::from_millis(20)).unwrap().0;
        }
        *g = false;
    }

    pub fn passed(&self, i: usize, name: &str) -> bool {
        self.parts[i].trace.lock().unwrap().iter().any(|n| *n == name)
    }

    /// start participant `i` on a fresh thread; it first stops at the harness point "start"
    pub fn spawn(self: &Arc<Self>, i: usize, f: impl FnOnce(&Arc<Ctl>, usize) + Send + 'static) {
        let ctl = Arc::clone(self);
        std::thread::Builder::new()
            .stack_size(512 * 1024)
            .spawn(move || {
                CUR.with(|c| *c.borrow_mut() = Some((Arc::clone(&ctl), i)));
                ctl.parts[i].tid.store(gettid(), SeqCst);
                ctl.pause(i, "start");
                let r = std::panic::catch_unwind(std::panic::AssertUnwindSafe(|| f(&ctl, i)));
                if let Err(e) = r {
                    let msg = e
                        .downcast_ref::<String>()
                        .cloned()
                        .or_else(|| e.downcast_ref::<&str>().map(|s| s.to_string()))
                        .unwrap_or_default();
                    *ctl.parts[i].panicked.lock().unwrap() = Some(msg);
                }
                CUR.with(|c| *c.borrow_mut() = None);
                ctl.parts[i].state.store(FINISHED, SeqCst);
            })
            .expect("thread spawn");
    }

    fn release(&self, t: usize) {
        let p = &self.parts[t];
        {
            let mut g = p.go.lock().unwrap();
            p.state.store(RUNNING, SeqCst);
            *g = true;
        }
        p.cv.notify_one();
    }

    /// wait until every participant is at a yield point, finished or blocked in the kernel.
    /// returns per participant: true = blocked (running but asleep)
    pub fn settle(&self) -> Vec<bool> {
        const NEED: u32 = 6;
        let n = self.parts.len();
        let mut sleepy = vec![0u32; n];
        let t0 = Instant::now();
        let mut spins = 0u32;
        loop {
            let mut all = true;
            for (i, p) in self.parts.iter().enumerate() {
                match p.state.load(SeqCst) {
                    RUNNING => {
                        if spins > 40 {
                            let tid = p.tid.load(SeqCst);
                            if tid > 0 && thread_state(tid) == b'S' {
                                sleepy[i] += 1;
                            } else {
                                sleepy[i] = 0;
                            }
                        }
                        if sleepy[i] < NEED || p.state.load(SeqCst) != RUNNING {
                            all = false;
                        }
                    }
                    _ => sleepy[i] = 0,
                }
            }
            if all {
                break;
            }
            spins += 1;
            if spins <= 40 {
                std::thread::yield_now();
            } else {
                std::thread::sleep(Duration::from_micros(120));
            }
            if t0.elapsed() > Duration::from_secs(4) {
                self.hang.store(true, SeqCst);
                break;
            }
        }
        (0..n).map(|i| self.parts[i].state.load(SeqCst) == RUNNING).collect()
    }

    /// one schedule slot
    pub fn step(&self, t: usize) {
        if t < self.parts.len() && self.parts[t].state.load(SeqCst) == AT_YIELD {
            self.release(t);
        }
        self.settle();
    }

    /// wait for all participants to have reached "start"
    pub fn wait_started(&self) {
        self.settle();
    }

    /// end of case: let everybody run off; threads that stay blocked are leaked
    pub fn finish(&self) {
        self.abort.store(true, SeqCst);
        for p in &self.parts {
            p.cv.notify_all();
        }
        let t0 = Instant::now();
        while t0.elapsed() < Duration::from_millis(200) {
            if self.parts.iter().all(|p| p.state.load(SeqCst) == FINISHED) {
                break;
            }
            std::thread::sleep(Duration::from_micros(100));
        }
    }

    /// 0 = at a yield point (not finished), 1 = finished, 2 = blocked in the kernel, 3 = panicked
    pub fn status(&self, i: usize, blocked: &[bool]) -> i64 {
        if self.parts[i].panicked.lock().unwrap().is_some() {
            return 3;
        }
        match self.parts[i].state.load(SeqCst) {
            FINISHED => 1,
            AT_YIELD => 0,
            _ => {
                if blocked[i] {
                    2
                } else {
                    0
                }
            }
        }
    }
}
