//! Scenario 2 — effect notification channel: one receiver thread polls the task of an
//! isomorphic `Effect` (reads signal `s`, logs it) whenever its waker fired; sender threads
//! write `s` (`set`), which marks the effect dirty through `Sender::notify`.
//!
//! case  (2 fine (ops_1 .. ops_n) sched)   thread 0 = receiver, thread j>=1 = sender j with
//!        values ops_j; fine=1 activates the yield point between `set flag` and `wake`
//!        (which is inside the effect's inner lock), fine=0 keeps notify atomic.
//! obs   ((log of values seen by the effect) final_s (status per thread) hang)
use crate::{ctl::Ctl, exec};
use reactive_graph::{effect::Effect, owner::Owner, signal::ArcRwSignal, traits::*};
use std::sync::{Arc, Mutex};
use vsexp::{Lst, Num, Sexp};

pub fn run(case: &Sexp) -> Sexp {
    let fine = case.at(1).num() != 0;
    let progs: Vec<Vec<i64>> = case.at(2).list().iter().map(|p| p.nums()).collect();
    let sched = case.at(3).nums();
    let n = progs.len();

    let owner = Owner::new();
    owner.set();
    let _ = exec::take_inbox();
    let s = ArcRwSignal::new(0i64);
    let log: Arc<Mutex<Vec<i64>>> = Arc::new(Mutex::new(vec![]));
    let eff = Effect::new_isomorphic({
        let s = s.clone();
        let log = Arc::clone(&log);
        move |_: Option<()>| {
            let v = s.get();
            log.lock().unwrap().push(v);
        }
    });
    let mut inbox = exec::take_inbox();
    assert_eq!(inbox.len(), 1);
    let task = exec::Task::new(inbox.pop().unwrap());
    assert!(!task.poll()); // first run: logs 0, subscribes, parks with its waker registered
    task.take_woken();

    let mut active = vec!["write:unlocked", "signal:mark_sub", "chan:registered"];
    if fine {
        active.push("chan:flag_set");
    }
    let ctl = Ctl::new(n + 1, &active);
    {
        let task = Arc::clone(&task);
        ctl.spawn(0, move |ctl, me| loop {
            if ctl.aborted() {
                return;
            }
            if task.take_woken() {
                if task.poll() {
                    return;
                }
            }
            ctl.pause(me, "parked");
        });
    }
    for (j, prog) in progs.iter().enumerate() {
        let s = s.clone();
        let prog = prog.clone();
        ctl.spawn(j + 1, move |ctl, me| {
            for (i, v) in prog.iter().enumerate() {
                if i > 0 {
                    ctl.pause(me, "op");
                }
                s.set(*v);
            }
        });
    }
    ctl.wait_started();
    // the receiver's thread starts at its own "parked" point: consume "start"
    for t in &sched {
        ctl.step(*t as usize);
    }
    let blocked = ctl.settle();
    let st: Vec<Sexp> = (0..n + 1).map(|i| Num(ctl.status(i, &blocked))).collect();
    let hang = ctl.hang.load(std::sync::atomic::Ordering::SeqCst) || blocked.iter().any(|b| *b);
    let lg = log.lock().unwrap().clone();
    let fin = s.get_untracked();
    ctl.finish();
    drop(eff);
    drop(owner);
    Lst(vec![Sexp::from_nums(lg), Num(fin), Lst(st), Num(hang as i64)])
}
