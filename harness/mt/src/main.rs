//! h_mt — multi-thread harness for C19: real threads, every interleaving over the named
//! yield points of reactive_graph driven by the case's schedule.
mod ctl;
mod exec;
mod sc_audit;
mod sc_await;
mod sc_chan;
mod sc_glitch;
mod sc_guard;
mod sc_lock;
mod sc_memolock;
mod sc_read;
mod sc_reorder;
mod sc_sig;
mod sc_stress;

use vsexp::{Lst, Num, Sexp};

fn c19(case: &Sexp) -> Sexp {
    match case.at(0).num() {
        1 => sc_await::run(case, false),
        10 => sc_await::run(case, true),
        31 => sc_await::run_opts(case, false, true),
        32 => sc_audit::run_memo_chain(case),
        33 => sc_reorder::run(case),
        34 => sc_audit::run_notifying_window(case),
        11 => sc_memolock::run(case),
        13 => sc_memolock::run_immediate(case),
        15 => sc_guard::run_one_thread(case),
        16 => sc_guard::run_two_threads(case),
        17 => sc_guard::run_read_vs_store(case),
        18 => sc_guard::run_user_write(case),
        23 => sc_audit::run_sig_arena(case),
        27 => sc_audit::run_try_write(case),
        29 => sc_audit::run_await_reload(case),
        30 => sc_audit::run_dispose(case),
        2 => sc_chan::run(case),
        3 => sc_sig::run(case),
        4 => sc_glitch::run(case),
        5 => sc_lock::run(case),
        7 => sc_read::run(case),
        9 => sc_stress::run(case),
        _ => Lst(vec![Num(-1)]),
    }
}

fn main() {
    let args: Vec<String> = std::env::args().collect();
    exec::install();
    ctl::install();
    match args.get(1).map(|s| s.as_str()) {
        Some("c19") => vsexp::drive(c19),
        _ => {
            eprintln!("usage: h_mt c19");
            std::process::exit(2);
        }
    }
}
