//! Harness-owned executor: `Executor::spawn` only files the future in an inbox; tasks are
//! polled explicitly by the participant thread the scenario assigns them to.
use any_spawner::{CustomExecutor, Executor, PinnedFuture, PinnedLocalFuture};
use std::{
    future::Future,
    pin::Pin,
    sync::{
        atomic::{AtomicBool, Ordering::SeqCst},
        Arc, Mutex,
    },
    task::{Context, Poll, Wake, Waker},
};

static INBOX: Mutex<Vec<PinnedFuture<()>>> = Mutex::new(Vec::new());

struct Ex;
impl CustomExecutor for Ex {
    fn spawn(&self, fut: PinnedFuture<()>) {
        INBOX.lock().unwrap().push(fut);
    }
    fn spawn_local(&self, _fut: PinnedLocalFuture<()>) {
        panic!("spawn_local is not used by the mt harness");
    }
    fn poll_local(&self) {}
}

pub fn install() {
    let _ = Executor::init_custom_executor(Ex);
}

pub fn take_inbox() -> Vec<PinnedFuture<()>> {
    std::mem::take(&mut *INBOX.lock().unwrap())
}

pub struct Flag(pub AtomicBool);
impl Wake for Flag {
    fn wake(self: Arc<Self>) {
        self.0.store(true, SeqCst);
    }
    fn wake_by_ref(self: &Arc<Self>) {
        self.0.store(true, SeqCst);
    }
}
pub fn flag() -> (Arc<Flag>, Waker) {
    let f = Arc::new(Flag(AtomicBool::new(false)));
    (Arc::clone(&f), Waker::from(Arc::clone(&f)))
}

/// a spawned task with its wake flag
pub struct Task {
    pub fut: Mutex<Option<PinnedFuture<()>>>,
    pub woken: Arc<Flag>,
    waker: Waker,
}
impl Task {
    pub fn new(fut: PinnedFuture<()>) -> Arc<Task> {
        let (woken, waker) = flag();
        Arc::new(Task { fut: Mutex::new(Some(fut)), woken, waker })
    }
    /// poll once; true = the task ended
    pub fn poll(&self) -> bool {
        let mut g = self.fut.lock().unwrap();
        let Some(f) = g.as_mut() else { return true };
        let mut cx = Context::from_waker(&self.waker);
        match f.as_mut().poll(&mut cx) {
            Poll::Ready(()) => {
                *g = None;
                true
            }
            Poll::Pending => false,
        }
    }
    pub fn take_woken(&self) -> bool {
        self.woken.0.swap(false, SeqCst)
    }
}

pub fn poll_boxed<T>(f: &mut Pin<Box<dyn Future<Output = T> + Send>>, w: &Waker) -> Poll<T> {
    let mut cx = Context::from_waker(w);
    f.as_mut().poll(&mut cx)
}

/// A waker whose vtable functions are yield points: `clone`, `wake_by_ref` and `wake` are user
/// (executor) code that the library calls, possibly inside its critical sections.
pub fn user_waker() -> (Arc<Flag>, Waker) {
    use std::task::{RawWaker, RawWakerVTable};
    unsafe fn clone(p: *const ()) -> RawWaker {
        crate::ctl::user_point("user:waker_clone");
        Arc::increment_strong_count(p as *const Flag);
        RawWaker::new(p, &VTABLE)
    }
    unsafe fn wake(p: *const ()) {
        crate::ctl::user_point("user:waker_wake");
        let a = Arc::from_raw(p as *const Flag);
        a.0.store(true, SeqCst);
    }
    unsafe fn wake_by_ref(p: *const ()) {
        crate::ctl::user_point("user:waker_wake_by_ref");
        (*(p as *const Flag)).0.store(true, SeqCst);
    }
    unsafe fn drop_w(p: *const ()) {
        drop(Arc::from_raw(p as *const Flag));
    }
    static VTABLE: RawWakerVTable = RawWakerVTable::new(clone, wake, wake_by_ref, drop_w);
    let f = Arc::new(Flag(AtomicBool::new(false)));
    let raw = RawWaker::new(Arc::into_raw(Arc::clone(&f)) as *const (), &VTABLE);
    (f, unsafe { Waker::from_raw(raw) })
}
