//! Scenario 33 — N awaiters (persistent futures, one waker each) on one `ArcAsyncDerived`,
//! hand-driven on one thread: a generated sequence of events
//!   i < 100  poll awaiter i (first poll, or it has been woken since its last poll; otherwise no-op)
//!   100      write the source signal (the value must reload; during a load the reload starts
//!            right after `notify_subs`, in the same poll of the value's task)
//!   101      complete the load in flight (load j yields 10 * (j + 1))
//!   102      poll the value's task (if woken)
//! case  (33 kinds events)
//! obs   (((status value polls) per awaiter) final_value loads_started)
use crate::exec;
use futures::channel::oneshot;
use reactive_graph::{computed::ArcAsyncDerived, owner::Owner, signal::ArcRwSignal, traits::*};
use std::{
    future::{Future, IntoFuture},
    pin::Pin,
    sync::{atomic::Ordering::SeqCst, Arc, Mutex},
    task::Poll,
};
use vsexp::{Lst, Num, Sexp};

const MAX_LOADS: usize = 6;

pub fn run(case: &Sexp) -> Sexp {
    let kinds = case.at(1).nums();
    let events = case.at(2).nums();
    let n = kinds.len();
    let owner = Owner::new();
    owner.set();
    let _ = exec::take_inbox();
    let mut txs = std::collections::VecDeque::new();
    let mut rxs = vec![];
    for _ in 0..MAX_LOADS {
        let (tx, rx) = oneshot::channel::<i64>();
        txs.push_back(tx);
        rxs.push(rx);
    }
    rxs.reverse();
    let queue = Arc::new(Mutex::new(rxs));
    let started = Arc::new(Mutex::new(0i64));
    let src = ArcRwSignal::new(0i64);
    let d = ArcAsyncDerived::new({
        let (queue, src, started) = (Arc::clone(&queue), src.clone(), Arc::clone(&started));
        move || {
            let _ = src.get();
            let rx = queue.lock().unwrap().pop();
            *started.lock().unwrap() += 1;
            async move {
                match rx {
                    Some(rx) => rx.await.unwrap_or(-1),
                    None => futures::future::pending::<i64>().await,
                }
            }
        }
    });
    let mut inbox = exec::take_inbox();
    assert_eq!(inbox.len(), 1);
    let task = exec::Task::new(inbox.pop().unwrap());
    assert!(!task.poll()); // load 1 in flight
    task.take_woken();

    let mut futs: Vec<Option<Pin<Box<dyn Future<Output = i64> + Send>>>> = kinds
        .iter()
        .map(|k| {
            let d = d.clone();
            let f: Pin<Box<dyn Future<Output = i64> + Send>> = match k {
                0 => Box::pin(async move {
                    d.ready().await;
                    d.get_untracked().unwrap_or(-2)
                }),
                1 => Box::pin(d.into_future()),
                _ => Box::pin(async move { *d.by_ref().await }),
            };
            Some(f)
        })
        .collect();
    let wk: Vec<_> = (0..n).map(|_| exec::flag()).collect();
    let mut res = vec![(0i64, 0i64, 0i64); n];
    let mut completed = 0i64;
    for e in events {
        match e {
            100 => src.set(src.get_untracked() + 1),
            101 => {
                // complete the load in flight, if one is in flight and not yet completed
                if completed < *started.lock().unwrap() {
                    if let Some(tx) = txs.pop_front() {
                        completed += 1;
                        let _ = tx.send(10 * completed);
                    }
                }
            }
            102 => {
                if task.take_woken() {
                    task.poll();
                }
            }
            i if (i as usize) < n => {
                let i = i as usize;
                let first = res[i].2 == 0;
                if res[i].0 == 0 && (first || wk[i].0 .0.swap(false, SeqCst)) {
                    res[i].2 += 1;
                    if let Some(f) = futs[i].as_mut() {
                        let mut cx = std::task::Context::from_waker(&wk[i].1);
                        if let Poll::Ready(v) = f.as_mut().poll(&mut cx) {
                            res[i].0 = 1;
                            res[i].1 = v;
                            futs[i] = None;
                        }
                    }
                }
            }
            _ => {}
        }
    }
    let fin = d.get_untracked().unwrap_or(-1);
    let st = *started.lock().unwrap();
    drop(futs);
    drop(d);
    drop(owner);
    Lst(vec![
        Lst(res.iter().map(|(s, v, p)| Lst(vec![Num(*s), Num(*v), Num(*p)])).collect()),
        Num(fin),
        Num(st),
    ])
}
