//! Scenario 1 — await path of an `ArcAsyncDerived`:  k awaiter threads poll
//! `ready()` / `into_future()` / `by_ref()` futures while the completer thread polls the
//! resource's own task through `set_inner_value` / `notify_subs`.
//!
//! case  (1 (kind_0 .. kind_{k-1}) (t_0 t_1 ...))      thread ids: 0..k-1 awaiters, k completer
//!       (10 (kind) sched)  same with ONE awaiter whose waker vtable (clone, wake_by_ref) is a yield point
//! obs   (((status value polls) per awaiter) completer_status hang)
//!        status: 1 = completed, 0 = still pending when everything else had finished
use crate::{ctl::Ctl, exec};
use futures::channel::oneshot;
use reactive_graph::{computed::ArcAsyncDerived, owner::Owner, traits::*};
use std::{
    future::{Future, IntoFuture},
    pin::Pin,
    sync::{Arc, Mutex},
    task::Poll,
};
use vsexp::{Lst, Num, Sexp};

pub const VALUE: i64 = 42;

pub fn run(case: &Sexp, user_points: bool) -> Sexp {
    run_opts(case, user_points, false)
}

/// `fresh`: every poll uses a NEW future and a NEW waker (the task was dropped and re-created, or
/// migrated to another executor); only the latest waker counts as a wake-up of the task
pub fn run_opts(case: &Sexp, user_points: bool, fresh: bool) -> Sexp {
    let kinds = case.at(1).nums();
    let sched = case.at(2).nums();
    let k = kinds.len();

    let owner = Owner::new();
    owner.set();
    let _ = exec::take_inbox();
    let (tx, rx) = oneshot::channel::<i64>();
    let slot = Arc::new(Mutex::new(Some(rx)));
    let d = ArcAsyncDerived::new({
        let slot = Arc::clone(&slot);
        move || {
            let rx = slot.lock().unwrap().take();
            async move {
                match rx {
                    Some(rx) => rx.await.unwrap_or(-1),
                    None => futures::future::pending::<i64>().await,
                }
            }
        }
    });
    let mut inbox = exec::take_inbox();
    assert_eq!(inbox.len(), 1, "one task per ArcAsyncDerived");
    let task = exec::Task::new(inbox.pop().unwrap());
    // first poll: the task starts loading and waits for the oneshot
    assert!(!task.poll());
    task.take_woken();

    let mut active = vec!["await:loaded", "ad:value_stored", "ad:loading_cleared", "ad:before_drain"];
    if user_points {
        // the awaiter's waker is user code called by the library (clone happens inside
        // `park_if_still_loading`, under the wakers lock in the current code)
        active.push("user:waker_clone");
        active.push("user:waker_wake_by_ref");
    }
    let ctl = Ctl::new(k + 1, &active);
    let results: Arc<Mutex<Vec<(i64, i64, i64)>>> = Arc::new(Mutex::new(vec![(0, 0, 0); k]));
    let cdone = Arc::new(Mutex::new(0i64));

    for (i, kind) in kinds.iter().enumerate() {
        let d = d.clone();
        let kind = *kind;
        let results = Arc::clone(&results);
        ctl.spawn(i, move |ctl, me| {
            let make = |d: &ArcAsyncDerived<i64>| -> Pin<Box<dyn Future<Output = i64> + Send>> { match kind {
                0 => {
                    let d2 = d.clone();
                    Box::pin(async move {
                        d2.ready().await;
                        d2.get_untracked().unwrap_or(-2)
                    })
                }
                1 => Box::pin(d.clone().into_future()),
                _ => {
                    let d2 = d.clone();
                    Box::pin(async move {
                        let g = d2.by_ref().await;
                        *g
                    })
                }
            } };
            let mut fut = make(&d);
            let (mut flag, mut waker) = if user_points { exec::user_waker() } else { exec::flag() };
            let mut polls = 0;
            loop {
                polls += 1;
                if fresh && polls > 1 {
                    fut = make(&d);
                    let fw = exec::flag();
                    flag = fw.0;
                    waker = fw.1;
                }
                match exec::poll_boxed(&mut fut, &waker) {
                    Poll::Ready(v) => {
                        results.lock().unwrap()[me] = (1, v, polls);
                        break;
                    }
                    Poll::Pending => {
                        results.lock().unwrap()[me] = (0, 0, polls);
                        loop {
                            ctl.pause(me, "parked");
                            if ctl.aborted() {
                                return;
                            }
                            if flag.0.swap(false, std::sync::atomic::Ordering::SeqCst) {
                                break;
                            }
                        }
                    }
                }
            }
        });
    }
    {
        let task = Arc::clone(&task);
        let cdone = Arc::clone(&cdone);
        let mut tx = Some(tx);
        ctl.spawn(k, move |ctl, me| {
            let _ = tx.take().unwrap().send(VALUE);
            loop {
                task.take_woken();
                let ended = task.poll();
                if ended || ctl.passed(me, "ad:before_drain") {
                    *cdone.lock().unwrap() = 1;
                    break;
                }
                loop {
                    ctl.pause(me, "parked");
                    if ctl.aborted() {
                        return;
                    }
                    if task.take_woken() {
                        break;
                    }
                }
            }
        });
    }
    ctl.wait_started();
    for t in &sched {
        ctl.step(*t as usize);
    }
    let blocked = ctl.settle();
    let res = results.lock().unwrap().clone();
    let cst = *cdone.lock().unwrap();
    let hang = ctl.hang.load(std::sync::atomic::Ordering::SeqCst) || blocked.iter().any(|b| *b);
    ctl.finish();
    drop(d);
    drop(owner);
    Lst(vec![
        Lst(res.iter().map(|(s, v, p)| Lst(vec![Num(*s), Num(*v), Num(*p)])).collect()),
        Num(cst),
        Num(hang as i64),
    ])
}
