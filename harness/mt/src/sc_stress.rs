//! Scenario 9 — seeded random multi-thread stress with a watchdog (no schedule control):
//! the threads run freely; at every named yield point of reactive_graph a per-thread seeded
//! PRNG decides to spin, `yield_now`, or go on, which widens the windows between the
//! synchronisation steps.  Every round must complete before the watchdog deadline.
//!
//! case  (9 seed rounds)
//! obs   (rounds_ok lost_wakeups stale_effects hangs read_contention_panics)
//!        read_contention_panics: rounds in which the effect's `s.get()` panicked because
//!        `Plain::try_new` (non-blocking `try_read`) met the writer's lock (F-C19-f)
//! round = one async derived value `d` completed by its own task on one thread while two
//! threads await it (ready()/into_future()/by_ref() at random) and, on two more threads, an
//! effect that reads signal `s` and `d` is driven by its waker while `s` is written.
use crate::{ctl, exec};
use futures::channel::oneshot;
use reactive_graph::{
    computed::ArcAsyncDerived, effect::Effect, owner::Owner, signal::ArcRwSignal, traits::*,
};
use std::{
    future::{Future, IntoFuture},
    pin::Pin,
    sync::{
        atomic::{AtomicBool, AtomicI64, AtomicUsize, Ordering::SeqCst},
        Arc, Mutex,
    },
    task::{Context, Poll, Wake, Waker},
    thread::Thread,
    time::{Duration, Instant},
};
use vsexp::{Lst, Num, Sexp};

struct ThreadWaker {
    woken: AtomicBool,
    thread: Thread,
}
impl Wake for ThreadWaker {
    fn wake(self: Arc<Self>) {
        self.wake_by_ref()
    }
    fn wake_by_ref(self: &Arc<Self>) {
        self.woken.store(true, SeqCst);
        self.thread.unpark();
    }
}

fn xorshift(x: &mut u64) -> u64 {
    *x ^= *x << 13;
    *x ^= *x >> 7;
    *x ^= *x << 17;
    *x
}

/// drive `poll` on the current thread until it returns true or `stop` is set
fn drive(mut poll: impl FnMut(&Waker) -> bool, stop: &AtomicBool) -> bool {
    let tw = Arc::new(ThreadWaker { woken: AtomicBool::new(true), thread: std::thread::current() });
    let waker = Waker::from(Arc::clone(&tw));
    loop {
        if stop.load(SeqCst) {
            return false;
        }
        if tw.woken.swap(false, SeqCst) {
            if poll(&waker) {
                return true;
            }
        } else {
            std::thread::park_timeout(Duration::from_millis(20));
        }
    }
}

pub fn run(case: &Sexp) -> Sexp {
    let seed = case.at(1).num() as u64;
    let rounds = case.at(2).num();
    let mut rng = seed.wrapping_mul(0x9E3779B97F4A7C15) | 1;
    let (mut ok, mut lost, mut stale, mut hangs, mut contended) = (0i64, 0i64, 0i64, 0i64, 0i64);
    for _ in 0..rounds {
        let owner = Owner::new();
        owner.set();
        let _ = exec::take_inbox();
        let (tx, rx) = oneshot::channel::<i64>();
        let slot = Arc::new(Mutex::new(Some(rx)));
        let d = ArcAsyncDerived::new({
            let slot = Arc::clone(&slot);
            move || {
                let rx = slot.lock().unwrap().take();
                async move {
                    match rx {
                        Some(rx) => rx.await.unwrap_or(-1),
                        None => futures::future::pending::<i64>().await,
                    }
                }
            }
        });
        let mut inbox = exec::take_inbox();
        let dtask = exec::Task::new(inbox.pop().unwrap());
        dtask.poll();
        let s = ArcRwSignal::new(0i64);
        let last_seen = Arc::new((AtomicI64::new(-7), AtomicI64::new(-7)));
        let eff = Effect::new_isomorphic({
            let (s, d) = (s.clone(), d.clone());
            let last_seen = Arc::clone(&last_seen);
            move |_: Option<()>| {
                let x = s.get();
                let y = d.get().unwrap_or(-1);
                last_seen.0.store(x, SeqCst);
                last_seen.1.store(y, SeqCst);
            }
        });
        let mut inbox = exec::take_inbox();
        let efut = Arc::new(Mutex::new(inbox.pop().unwrap()));
        let dfut = dtask;

        let stop = Arc::new(AtomicBool::new(false));
        let done = Arc::new(AtomicUsize::new(0));
        let read_panic = Arc::new(AtomicBool::new(false));
        let final_s = 3i64;
        let mut handles = vec![];
        // two awaiters
        for _ in 0..2 {
            let kind = xorshift(&mut rng) % 3;
            let jseed = xorshift(&mut rng);
            let (d, stop, done) = (d.clone(), Arc::clone(&stop), Arc::clone(&done));
            handles.push(std::thread::spawn(move || {
                ctl::set_jitter(jseed);
                let mut fut: Pin<Box<dyn Future<Output = i64> + Send>> = match kind {
                    0 => {
                        let d2 = d.clone();
                        Box::pin(async move {
                            d2.ready().await;
                            d2.get_untracked().unwrap_or(-2)
                        })
                    }
                    1 => Box::pin(d.clone().into_future()),
                    _ => {
                        let d2 = d.clone();
                        Box::pin(async move { *d2.by_ref().await })
                    }
                };
                let r = drive(
                    |w| {
                        let mut cx = Context::from_waker(w);
                        matches!(fut.as_mut().poll(&mut cx), Poll::Ready(42))
                    },
                    &stop,
                );
                if r {
                    done.fetch_add(1, SeqCst);
                }
            }));
        }
        // completer: the resource's own task
        {
            let jseed = xorshift(&mut rng);
            let (stop, done) = (Arc::clone(&stop), Arc::clone(&done));
            let dfut = Arc::clone(&dfut);
            let mut tx = Some(tx);
            handles.push(std::thread::spawn(move || {
                ctl::set_jitter(jseed);
                let _ = tx.take().unwrap().send(42);
                let tw = Arc::new(ThreadWaker { woken: AtomicBool::new(true), thread: std::thread::current() });
                let waker = Waker::from(Arc::clone(&tw));
                // poll whenever woken until told to stop (the task never ends by itself)
                while !stop.load(SeqCst) {
                    if tw.woken.swap(false, SeqCst) {
                        let mut g = dfut.fut.lock().unwrap();
                        if let Some(f) = g.as_mut() {
                            let mut cx = Context::from_waker(&waker);
                            let _ = f.as_mut().poll(&mut cx);
                        }
                        done.fetch_add(0, SeqCst);
                    } else {
                        std::thread::park_timeout(Duration::from_millis(5));
                    }
                }
            }));
        }
        // effect executor
        {
            let jseed = xorshift(&mut rng);
            let stop = Arc::clone(&stop);
            let efut = Arc::clone(&efut);
            let read_panic = Arc::clone(&read_panic);
            handles.push(std::thread::spawn(move || {
                ctl::set_jitter(jseed);
                let tw = Arc::new(ThreadWaker { woken: AtomicBool::new(true), thread: std::thread::current() });
                let waker = Waker::from(Arc::clone(&tw));
                while !stop.load(SeqCst) {
                    if tw.woken.swap(false, SeqCst) {
                        let r = std::panic::catch_unwind(std::panic::AssertUnwindSafe(|| {
                            let mut cx = Context::from_waker(&waker);
                            let _ = efut.lock().unwrap().as_mut().poll(&mut cx);
                        }));
                        if let Err(e) = r {
                            let msg = e
                                .downcast_ref::<String>()
                                .cloned()
                                .or_else(|| e.downcast_ref::<&str>().map(|s| s.to_string()))
                                .unwrap_or_default();
                            if msg.contains("you tried to access a reactive value")
                                && msg.contains("already been disposed")
                            {
                                read_panic.store(true, SeqCst);
                            }
                            if std::env::var("C19_DEBUG").is_ok() {
                                eprintln!("effect executor panicked: {msg}");
                            }
                            return;
                        }
                    } else {
                        std::thread::park_timeout(Duration::from_millis(5));
                    }
                }
            }));
        }
        // writer
        {
            let jseed = xorshift(&mut rng);
            let s = s.clone();
            let done = Arc::clone(&done);
            handles.push(std::thread::spawn(move || {
                ctl::set_jitter(jseed);
                for v in 1..=final_s {
                    s.set(v);
                }
                done.fetch_add(1, SeqCst);
            }));
        }
        // watchdog: both awaiters + writer done, and the effect has seen the final values
        let t0 = Instant::now();
        let mut good = false;
        while t0.elapsed() < Duration::from_millis(5000) {
            if read_panic.load(SeqCst) {
                break;
            }
            if done.load(SeqCst) == 3
                && last_seen.0.load(SeqCst) == final_s
                && last_seen.1.load(SeqCst) == 42
            {
                good = true;
                break;
            }
            std::thread::sleep(Duration::from_micros(200));
        }
        if !good && std::env::var("C19_DEBUG").is_ok() {
            eprintln!(
                "stress round failed: done={} last_seen=({}, {}) s={} d={:?}",
                done.load(SeqCst),
                last_seen.0.load(SeqCst),
                last_seen.1.load(SeqCst),
                s.get_untracked(),
                d.get_untracked()
            );
        }
        stop.store(true, SeqCst);
        let all_joined = {
            let t1 = Instant::now();
            loop {
                if handles.iter().all(|h| h.is_finished()) {
                    break true;
                }
                if t1.elapsed() > Duration::from_millis(500) {
                    break false;
                }
                std::thread::sleep(Duration::from_micros(200));
            }
        };
        if good && all_joined {
            ok += 1;
        } else if read_panic.load(SeqCst) && all_joined {
            contended += 1;
        } else if !all_joined {
            hangs += 1; // threads stuck in a lock: leak them
        } else if done.load(SeqCst) < 3 {
            lost += 1;
        } else {
            stale += 1;
        }
        let failed = !(good && all_joined) && !(read_panic.load(SeqCst) && all_joined);
        if all_joined {
            for h in handles {
                let _ = h.join();
            }
            drop(eff);
            drop(d);
            drop(owner);
        } else {
            std::mem::forget(handles);
            std::mem::forget(eff);
            std::mem::forget(d);
            std::mem::forget(owner);
        }
        if failed {
            // one failing round decides the case: do not pay the watchdog again
            break;
        }
    }
    Lst(vec![Num(ok), Num(lost), Num(stale), Num(hangs), Num(contended)])
}
