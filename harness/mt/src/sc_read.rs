//! Scenario 7 — a signal read that coincides with a write on another thread (F-C19-f).
//! Thread 0 writes `s` (initially 1) with `update`, pausing INSIDE the closure, i.e. while it
//! holds `value.write()`; thread 1 reads `s.get_untracked()`.
//! case  (7 sched)
//! obs   ((reader_status value) writer_status final_s)   status: 0 not finished, 1 finished, 3 panicked
use crate::ctl::Ctl;
use reactive_graph::{owner::Owner, signal::ArcRwSignal, traits::*};
use std::sync::{Arc, Mutex};
use vsexp::{Lst, Num, Sexp};

pub fn run(case: &Sexp) -> Sexp {
    let sched = case.at(1).nums();
    let owner = Owner::new();
    owner.set();
    let s = ArcRwSignal::new(1i64);
    let got = Arc::new(Mutex::new(0i64));
    let ctl = Ctl::new(2, &[]);
    {
        let s = s.clone();
        ctl.spawn(0, move |ctl, me| {
            s.update(|x| {
                ctl.pause(me, "op");
                *x = 2;
            });
        });
    }
    {
        let s = s.clone();
        let got = Arc::clone(&got);
        ctl.spawn(1, move |_ctl, _me| {
            let v = s.get_untracked();
            *got.lock().unwrap() = v;
        });
    }
    ctl.wait_started();
    for t in &sched {
        ctl.step(*t as usize);
    }
    let blocked = ctl.settle();
    let st: Vec<i64> = (0..2).map(|i| ctl.status(i, &blocked)).collect();
    ctl.finish();
    let v = *got.lock().unwrap();
    let fin = s.get_untracked();
    drop(owner);
    Lst(vec![Lst(vec![Num(st[1]), Num(v)]), Num(st[0]), Num(fin)])
}
