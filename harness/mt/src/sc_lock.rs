//! Scenario 5 — lock order between `notify_subs` of an `ArcAsyncDerived` and an effect that
//! re-runs on another thread (its `clear_sources` unsubscribes from the resource).
//!
//! The effect reads signal `s` and resource `d` (synchronously). Before the threads start, `s`
//! is written once so the effect is due to re-run.
//! case  (5 withlog sched)   thread 0 = effect executor, thread 1 = completer of `d`
//! obs   withlog=0: (hang)    withlog=1: ((effect log: (s d_or_-1) per run) (status per thread) hang)
use crate::{ctl::Ctl, exec};
use futures::channel::oneshot;
use reactive_graph::{
    computed::ArcAsyncDerived, effect::Effect, owner::Owner, signal::ArcRwSignal, traits::*,
};
use std::sync::{Arc, Mutex};
use vsexp::{Lst, Num, Sexp};

pub fn run(case: &Sexp) -> Sexp {
    let withlog = case.at(1).num() != 0;
    let sched = case.at(2).nums();
    let owner = Owner::new();
    owner.set();
    let _ = exec::take_inbox();
    let (tx, rx) = oneshot::channel::<i64>();
    let slot = Arc::new(Mutex::new(Some(rx)));
    let d = ArcAsyncDerived::new({
        let slot = Arc::clone(&slot);
        move || {
            let rx = slot.lock().unwrap().take();
            async move {
                match rx {
                    Some(rx) => rx.await.unwrap_or(-1),
                    None => futures::future::pending::<i64>().await,
                }
            }
        }
    });
    let mut inbox = exec::take_inbox();
    assert_eq!(inbox.len(), 1);
    let dtask = exec::Task::new(inbox.pop().unwrap());
    assert!(!dtask.poll());
    dtask.take_woken();

    let s = ArcRwSignal::new(0i64);
    let log: Arc<Mutex<Vec<(i64, i64)>>> = Arc::new(Mutex::new(vec![]));
    let eff = Effect::new_isomorphic({
        let (s, d) = (s.clone(), d.clone());
        let log = Arc::clone(&log);
        move |_: Option<()>| {
            let x = s.get();
            let y = d.get().unwrap_or(-1);
            log.lock().unwrap().push((x, y));
        }
    });
    let mut inbox = exec::take_inbox();
    assert_eq!(inbox.len(), 1);
    let etask = exec::Task::new(inbox.pop().unwrap());
    assert!(!etask.poll());
    etask.take_woken();
    s.set(5); // the effect is now notified (dirty, woken)

    let ctl = Ctl::new(2, &["sources:remove_sub", "ad:mark_sub", "ad:before_drain"]);
    {
        let task = Arc::clone(&etask);
        ctl.spawn(0, move |ctl, me| loop {
            if ctl.aborted() {
                return;
            }
            if task.take_woken() {
                if task.poll() {
                    return;
                }
            }
            ctl.pause(me, "parked");
        });
    }
    let cdone = Arc::new(Mutex::new(0i64));
    {
        let task = Arc::clone(&dtask);
        let cdone = Arc::clone(&cdone);
        let mut tx = Some(tx);
        ctl.spawn(1, move |ctl, me| {
            let _ = tx.take().unwrap().send(42);
            loop {
                task.take_woken();
                let ended = task.poll();
                if ended || ctl.passed(me, "ad:before_drain") {
                    *cdone.lock().unwrap() = 1;
                    break;
                }
                loop {
                    ctl.pause(me, "parked");
                    if ctl.aborted() {
                        return;
                    }
                    if task.take_woken() {
                        break;
                    }
                }
            }
        });
    }
    ctl.wait_started();
    for t in &sched {
        ctl.step(*t as usize);
    }
    let blocked = ctl.settle();
    let st: Vec<Sexp> = (0..2).map(|i| Num(ctl.status(i, &blocked))).collect();
    let hang = ctl.hang.load(std::sync::atomic::Ordering::SeqCst) || blocked.iter().any(|b| *b);
    let lg = log.lock().unwrap().clone();
    ctl.finish();
    if !hang {
        drop(eff);
        drop(d);
        drop(owner);
    } else {
        // stuck threads hold locks of these objects: leak them
        std::mem::forget(eff);
        std::mem::forget(d);
        std::mem::forget(owner);
    }
    if !withlog {
        return Lst(vec![Num(hang as i64)]);
    }
    Lst(vec![
        Lst(lg.into_iter().map(|(x, y)| Lst(vec![Num(x), Num(y)])).collect()),
        Lst(st),
        Num(hang as i64),
    ])
}
