//! Shared part of the C18 harness binaries: helper functions the generated templates call for
//! their dynamic parts, a few fixed components (compared only, not modelled), and the driver
//! that runs every generated template under `catch_unwind` and prints
//! `(id variant (byte …))`, one line per rendered variant.
use leptos::prelude::*;

/// `{s("…")}`: a block / attribute value that evaluates to a `String`
pub fn s(x: &str) -> String {
    x.to_string()
}
/// `{tb()}` / `{fb()}`: expressions of type bool (not literals: the macro must not see `true`)
pub fn tb() -> bool {
    true
}
pub fn fb() -> bool {
    false
}
/// `{so("…")}` / `{no()}`: `Option<String>` attribute values
pub fn so(x: &str) -> Option<String> {
    Some(x.to_string())
}
pub fn no() -> Option<String> {
    None
}

/// `<Wrap>children</Wrap>` renders `<section class="w">children</section>`
#[component]
pub fn Wrap(children: Children) -> impl IntoView {
    view! { <section class="w">{children()}</section> }
}

/// `<Pass>children</Pass>` returns its children as they are: attributes written on the component
/// (`attr:x`, `class:x`) are spread onto every root element of the children
#[component]
pub fn Pass(children: Children) -> impl IntoView {
    children()
}

/// a slot: `<Cond><Then slot>children</Then></Cond>` renders `<div class="cond">children</div>`
#[slot]
pub struct Then {
    children: ChildrenFn,
}
#[component]
pub fn Cond(then: Then) -> impl IntoView {
    view! { <div class="cond">{(then.children)()}</div> }
}

/// `<Label text="…"/>` renders `<label>text</label>`
#[component]
pub fn Label(#[prop(into)] text: String) -> impl IntoView {
    view! { <label>{text}</label> }
}

pub type Out = Vec<(u32, u8, String)>;

pub fn drive(fns: &[(u32, fn(&mut Out))]) {
    use std::io::Write;
    std::panic::set_hook(Box::new(|_| {}));
    let stdout = std::io::stdout();
    let mut w = std::io::BufWriter::new(stdout.lock());
    for (id, f) in fns {
        let mut out = Out::new();
        let r = std::panic::catch_unwind(std::panic::AssertUnwindSafe(|| f(&mut out)));
        for (id, variant, html) in &out {
            writeln!(w, "({} {} {})", id, variant, vsexp::Sexp::from_str(html)).unwrap();
        }
        if let Err(e) = r {
            let msg = e
                .downcast_ref::<String>()
                .cloned()
                .or_else(|| e.downcast_ref::<&str>().map(|s| s.to_string()))
                .unwrap_or_default();
            writeln!(w, "!panic {} {}", id, msg.replace('\n', " ")).unwrap();
        }
    }
    w.flush().unwrap();
}
