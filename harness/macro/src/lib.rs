//! Shared part of the C18 harness binaries: helper functions the generated templates call for
//! their dynamic parts, a few fixed components (compared only, not modelled), and the driver
//! that runs every generated template under `catch_unwind` and prints
//! `(id variant (byte …))`, one line per rendered variant.
//!
//! Variants: 0 = `view!` as written, 1 = forced-dynamic twin, 2 = `template!`, 3 = `include_view!`
//! of the same tokens.  Every variant is also rendered through the two streaming exits of
//! `RenderHtml` (`to_html_stream_in_order`, `to_html_stream_out_of_order`: the second
//! implementation of element rendering, `to_html_async_with_buf`); their output is printed as
//! variant 10+v / 20+v only when it differs from `to_html()` (it never should for templates
//! without asynchronous parts).  `C18_VARIANT_OFFSET` (the `--cfg erase_components` build) is
//! added to every printed variant number.
use futures::StreamExt;
use leptos::prelude::*;
use std::sync::Arc;

/// `{s("…")}`: a block / attribute value that evaluates to a `String`
pub fn s(x: &str) -> String {
    x.to_string()
}
/// `{tb()}` / `{fb()}`: expressions of type bool (not literals: the macro must not see `true`)
pub fn tb() -> bool {
    true
}
pub fn fb() -> bool {
    false
}
/// `{so("…")}` / `{no()}`: `Option<String>` attribute values
pub fn so(x: &str) -> Option<String> {
    Some(x.to_string())
}
pub fn no() -> Option<String> {
    None
}
/// other representations of a dynamic string / scalar value
pub fn sr(x: &'static str) -> &'static str {
    x
}
pub fn arc(x: &str) -> Arc<str> {
    Arc::from(x)
}
pub fn oco(x: &'static str) -> Oco<'static, str> {
    Oco::Borrowed(x)
}
pub fn ocoo(x: &str) -> Oco<'static, str> {
    Oco::Owned(x.to_string())
}
pub fn ococ(x: &str) -> Oco<'static, str> {
    Oco::Counted(Arc::from(x))
}
pub fn n(x: i32) -> i32 {
    x
}
pub fn fl(x: f64) -> f64 {
    x
}
pub fn ch(x: char) -> char {
    x
}
/// `use:noop`: a directive without parameter (renders nothing)
pub fn noop(_el: leptos::tachys::renderer::types::Element) {}
/// `use:withp="…"`: a directive with a parameter (renders nothing)
pub fn withp(_el: leptos::tachys::renderer::types::Element, _p: &'static str) {}
/// `view! { class = GC, … }`: a scope class that is not a literal
pub const GC: &str = "g<\"c";

/// `<Wrap>children</Wrap>` renders `<section class="w">children</section>`
#[component]
pub fn Wrap(children: Children) -> impl IntoView {
    view! { <section class="w">{children()}</section> }
}

/// `<Pass>children</Pass>` returns its children as they are: attributes written on the component
/// (`attr:x`, `class:x`) are spread onto every root element of the children
#[component]
pub fn Pass(children: Children) -> impl IntoView {
    children()
}

/// a slot: `<Cond><Then slot>children</Then></Cond>` renders `<div class="cond">children</div>`
#[slot]
pub struct Then {
    children: ChildrenFn,
}
#[component]
pub fn Cond(then: Then) -> impl IntoView {
    view! { <div class="cond">{(then.children)()}</div> }
}

/// `<Label text="…"/>` renders `<label>text</label>`
#[component]
pub fn Label(#[prop(into)] text: String) -> impl IntoView {
    view! { <label>{text}</label> }
}

/// `ChildrenFragment`: `<Frag>a b c</Frag>` renders `<ol><li>a</li><li>b</li><li>c</li></ol>`, one item
/// per top-level child node
#[component]
pub fn Frag(children: ChildrenFragment) -> impl IntoView {
    view! { <ol>{children().nodes.into_iter().map(|c| view! { <li>{c}</li> }).collect::<Vec<_>>()}</ol> }
}

/// `TypedChildren`: `<Typed>children</Typed>` renders `<article>children</article>`
#[component]
pub fn Typed<C: IntoView + 'static>(children: TypedChildren<C>) -> impl IntoView {
    view! { <article>{children.into_inner()()}</article> }
}

/// optional / defaulted props and optional children:
/// `<Opt a=.. b=.. n=..>children</Opt>` renders `<i data-a=a? data-b=b data-n=n>children</i>`
#[component]
pub fn Opt(
    #[prop(optional)] a: Option<String>,
    #[prop(optional, into)] b: String,
    #[prop(default = 7)] n: i32,
    #[prop(optional)] children: Option<Children>,
) -> impl IntoView {
    view! { <i data-a=a data-b=b data-n=n.to_string()>{children.map(|c| c())}</i> }
}

/// a generic component: `<Gen<i32> v=3/>` / `<Gen v="x"/>` renders `<u>v</u>`
#[component]
pub fn Gen<T: std::fmt::Display + Send + 'static>(v: T) -> impl IntoView {
    view! { <u>{v.to_string()}</u> }
}

/// a slot with a prop and optional children, used several times: `<Tabs><Tab slot name="a">x</Tab>…</Tabs>`
/// renders `<nav><span data-name="a">x</span>…</nav>`
#[slot]
pub struct Tab {
    #[prop(into)]
    name: String,
    #[prop(optional)]
    children: Option<ChildrenFn>,
}
#[component]
pub fn Tabs(tab: Vec<Tab>) -> impl IntoView {
    view! {
        <nav>
            {tab.into_iter().map(|t| view! { <span data-name=t.name>{t.children.map(|c| c())}</span> }).collect::<Vec<_>>()}
        </nav>
    }
}

/// children taking an argument (`let:item`): `<Each items=vec![..] let:item>T(item)</Each>` renders
/// `<ul>T(i1) T(i2) …</ul>`
#[component]
pub fn Each<F, V>(items: Vec<String>, children: F) -> impl IntoView
where
    F: Fn(String) -> V + Send + 'static,
    V: IntoView + 'static,
{
    view! { <ul>{items.into_iter().map(|i| children(i)).collect::<Vec<_>>()}</ul> }
}

pub type Out = Vec<(u32, u8, String)>;

/// renders one variant of one template through every exit
pub fn render<V, F>(out: &mut Out, id: u32, variant: u8, f: F)
where
    F: Fn() -> V,
    V: RenderHtml,
{
    let html = f().to_html();
    let in_order = futures::executor::block_on(f().to_html_stream_in_order().collect::<String>());
    if in_order != html {
        out.push((id, 10 + variant, in_order));
    }
    let ooo = futures::executor::block_on(f().to_html_stream_out_of_order().collect::<String>());
    if ooo != html {
        out.push((id, 20 + variant, ooo));
    }
    out.push((id, variant, html));
}

/// `to_html()` only
pub fn render1<V, F>(out: &mut Out, id: u32, variant: u8, f: F)
where
    F: Fn() -> V,
    V: RenderHtml,
{
    out.push((id, variant, f().to_html()));
}

pub fn drive(fns: &[(u32, fn(&mut Out))]) {
    use std::io::Write;
    std::panic::set_hook(Box::new(|_| {}));
    let offset: u32 = std::env::var("C18_VARIANT_OFFSET").ok().and_then(|x| x.parse().ok()).unwrap_or(0);
    let stdout = std::io::stdout();
    let mut w = std::io::BufWriter::new(stdout.lock());
    for (id, f) in fns {
        let mut out = Out::new();
        let r = std::panic::catch_unwind(std::panic::AssertUnwindSafe(|| f(&mut out)));
        for (id, variant, html) in &out {
            writeln!(w, "({} {} {})", id, *variant as u32 + offset, vsexp::Sexp::from_str(html)).unwrap();
        }
        if let Err(e) = r {
            let msg = e
                .downcast_ref::<String>()
                .cloned()
                .or_else(|| e.downcast_ref::<&str>().map(|s| s.to_string()))
                .unwrap_or_default();
            writeln!(w, "!panic {} {}", id, msg.replace('\n', " ")).unwrap();
        }
    }
    w.flush().unwrap();
}
