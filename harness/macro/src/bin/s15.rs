// one shard of the generated templates (see Cargo.toml); the file is written by gen/c18.py
#![allow(unused_imports, unused_braces, non_snake_case)]
use h_macro::*;
use leptos::prelude::*;
include!(concat!(env!("C18_GEN_DIR"), "/shard_15.rs"));
fn main() {
    drive(TEMPLATES);
}
