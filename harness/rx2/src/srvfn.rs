//! A mock server function for the server-action wrappers of leptos_server (C17): the "network"
//! is a oneshot receiver per call, registered under the call's id right before the dispatch and
//! picked up when the client future is first polled; a negative number on the wire is an
//! `Err(ServerError(..))`, anything else `Ok(n)`.
use bytes::Bytes;
use futures::{channel::oneshot, Sink, Stream};
use http::Method;
use server_fn::{
    client::Client, mock::BrowserMockServer, request::ClientReq, response::ClientRes, server::Server,
    Protocol, ServerFn, ServerFnError,
};
use std::{
    collections::HashMap,
    future::Future,
    sync::{atomic::AtomicU64, Mutex},
};

pub type Res = Result<i64, ServerFnError>;

pub static WIRE: Mutex<Option<HashMap<u64, oneshot::Receiver<i64>>>> = Mutex::new(None);
static NEXT_ID: AtomicU64 = AtomicU64::new(0);

/// a call with input `inp` whose response will arrive through `rx`
pub fn prepare(inp: i64, rx: oneshot::Receiver<i64>) -> Call {
    let id = NEXT_ID.fetch_add(1, std::sync::atomic::Ordering::SeqCst);
    WIRE.lock().unwrap_or_else(|e| e.into_inner()).get_or_insert_with(HashMap::new).insert(id, rx);
    Call(inp, id)
}

/// forget the calls that were never sent (between cases)
pub fn reset() {
    *WIRE.lock().unwrap_or_else(|e| e.into_inner()) = None;
}

pub fn to_res(r: i64) -> Res {
    if r < 0 {
        Err(ServerFnError::ServerError(r.to_string()))
    } else {
        Ok(r)
    }
}

pub fn of_res(r: &Res) -> i64 {
    match r {
        Ok(v) => *v,
        Err(ServerFnError::ServerError(s)) => s.parse().unwrap_or(-1_000_000),
        Err(_) => -1_000_001,
    }
}

/// the argument of the server function: the case's input value, and the call's id on the wire
#[derive(Clone, Debug, PartialEq)]
pub struct Call(pub i64, pub u64);

impl ServerFn for Call {
    const PATH: &'static str = "/api/call";
    type Client = MockClient;
    type Server = BrowserMockServer;
    type Protocol = MockProtocol;
    type Output = i64;
    type Error = ServerFnError;
    type InputStreamError = ServerFnError;
    type OutputStreamError = ServerFnError;

    fn run_body(self) -> impl Future<Output = Res> + Send {
        async move { unreachable!("never runs on the server") }
    }
}

pub struct MockProtocol;
type SrvReq = <BrowserMockServer as Server<ServerFnError>>::Request;
type SrvRes = <BrowserMockServer as Server<ServerFnError>>::Response;

impl Protocol<Call, i64, MockClient, BrowserMockServer, ServerFnError, ServerFnError, ServerFnError>
    for MockProtocol
{
    const METHOD: Method = Method::POST;

    fn run_server<F, Fut>(
        _request: SrvReq,
        _server_fn: F,
    ) -> impl Future<Output = Result<SrvRes, ServerFnError>> + Send
    where
        F: Fn(Call) -> Fut + Send,
        Fut: Future<Output = Res> + Send,
    {
        async move { unreachable!() }
    }

    fn run_client(_path: &str, input: Call) -> impl Future<Output = Res> + Send {
        let rx = WIRE
            .lock()
            .unwrap()
            .as_mut()
            .and_then(|w| w.remove(&input.1))
            .expect("the call was prepared");
        async move { to_res(rx.await.unwrap_or(-1)) }
    }
}

pub struct MockClient;
pub struct MockReq;
pub struct MockRes;

impl<E, IE, OE> Client<E, IE, OE> for MockClient
where
    E: Send + 'static,
{
    type Request = MockReq;
    type Response = MockRes;

    fn send(_req: MockReq) -> impl Future<Output = Result<MockRes, E>> + Send {
        async move { unreachable!() }
    }

    fn open_websocket(
        _path: &str,
    ) -> impl Future<
        Output = Result<
            (
                impl Stream<Item = Result<Bytes, Bytes>> + Send + 'static,
                impl Sink<Result<Bytes, Bytes>> + Send + 'static,
            ),
            E,
        >,
    > + Send {
        async move {
            if true {
                unreachable!()
            }
            Ok((
                futures::stream::empty::<Result<Bytes, Bytes>>(),
                futures::sink::drain::<Result<Bytes, Bytes>>(),
            ))
        }
    }

    fn spawn(_future: impl Future<Output = ()> + Send + 'static) {
        unreachable!()
    }
}

impl<E> ClientReq<E> for MockReq {
    type FormData = ();
    fn try_new_req_query(_: &str, _: &str, _: &str, _: &str, _: Method) -> Result<Self, E> {
        unreachable!()
    }
    fn try_new_req_text(_: &str, _: &str, _: &str, _: String, _: Method) -> Result<Self, E> {
        unreachable!()
    }
    fn try_new_req_bytes(_: &str, _: &str, _: &str, _: Bytes, _: Method) -> Result<Self, E> {
        unreachable!()
    }
    fn try_new_req_form_data(_: &str, _: &str, _: &str, _: (), _: Method) -> Result<Self, E> {
        unreachable!()
    }
    fn try_new_req_multipart(_: &str, _: &str, _: (), _: Method) -> Result<Self, E> {
        unreachable!()
    }
    fn try_new_req_streaming(
        _: &str,
        _: &str,
        _: &str,
        _: impl Stream<Item = Bytes> + Send + 'static,
        _: Method,
    ) -> Result<Self, E> {
        unreachable!()
    }
}

impl<E: Send + 'static> ClientRes<E> for MockRes {
    fn try_into_string(self) -> impl Future<Output = Result<String, E>> + Send {
        async move { unreachable!() }
    }
    fn try_into_bytes(self) -> impl Future<Output = Result<Bytes, E>> + Send {
        async move { unreachable!() }
    }
    fn try_into_stream(
        self,
    ) -> Result<impl Stream<Item = Result<Bytes, Bytes>> + Send + Sync + 'static, E> {
        if true {
            unreachable!()
        }
        Ok(futures::stream::empty::<Result<Bytes, Bytes>>())
    }
    fn status(&self) -> u16 {
        unreachable!()
    }
    fn status_text(&self) -> String {
        unreachable!()
    }
    fn location(&self) -> String {
        unreachable!()
    }
    fn has_redirect(&self) -> bool {
        unreachable!()
    }
}
