//! C08 — owner disposal releases exactly what the scope created, exactly once.
//!
//! case `(body ops)`: the root scope's body is run under a fresh root `Owner`; `ops` is a
//! history of re-runs / cleanups / handle drops / notifications / task polls / allocations.
//! Statements and ops are documented in coq/theories/Reactive/OwnerRun.v. Every dynamic entity
//! (owner, effect, memo, handle, cleanup) is numbered in creation order.
use crate::exec;
use reactive_graph::{
    computed::Memo,
    effect::{Effect, ImmediateEffect, RenderEffect},
    owner::{
        expect_context, on_cleanup, provide_context, store_value, take_context, update_context,
        use_context, verif_arena_len, with_context, ArcStoredValue, ArenaItem, LocalStorage, Owner,
        Storage, StoredValue, SyncStorage,
    },
    signal::{
        arc_signal, signal, ArcRwSignal, ArcTrigger, ReadSignal, RwSignal, WriteSignal,
    },
    traits::{
        Dispose, GetUntracked, GetValue, IntoInner, IsDisposed, Notify, ReadValue, Track,
        UpdateUntracked, UpdateValue, WithValue, WriteValue,
    },
    wrappers::read::Signal,
};
use std::cell::{Cell, RefCell};
use std::rc::Rc;
use std::sync::Arc;
use vsexp::{Lst, Num, Sexp};

#[derive(Clone)]
struct Cx<const N: usize>(i64);

/// the handle of an effect with a task
enum EffH {
    Local(Effect<LocalStorage>),
    Sync(Effect<SyncStorage>),
    Render(Option<RenderEffect<()>>),
}

enum Handle {
    Sig(RwSignal<i64>),
    Stored(StoredValue<i64>),
    /// a raw `ArenaItem<T, S>`, type-erased
    Item(Box<dyn ItemH>),
}

/// a value type stored in a raw `ArenaItem`: built from the handle number, and recognisable
trait Val: Clone + std::fmt::Debug + 'static {
    fn make(h: i64) -> Self;
    /// is this (still) the value made for handle `h`?
    fn is(&self, h: i64) -> bool;
}
fn f0() -> u32 {
    0
}
fn f1() -> u32 {
    1
}
fn f2() -> u32 {
    2
}
fn f3() -> u32 {
    3
}
fn f4() -> u32 {
    4
}
const FNS: [fn() -> u32; 5] = [f0, f1, f2, f3, f4];
const STRS: [&str; 7] = ["a", "bc", "def", "", "ghij", "k", "lm"];
impl Val for u32 {
    fn make(h: i64) -> Self {
        h as u32
    }
    fn is(&self, h: i64) -> bool {
        *self as i64 == h
    }
}
impl Val for i64 {
    fn make(h: i64) -> Self {
        h
    }
    fn is(&self, h: i64) -> bool {
        *self == h
    }
}
impl Val for (u8, bool) {
    fn make(h: i64) -> Self {
        ((h % 251) as u8, h % 2 == 1)
    }
    fn is(&self, h: i64) -> bool {
        *self == Self::make(h)
    }
}
impl Val for fn() -> u32 {
    fn make(h: i64) -> Self {
        FNS[(h % 5) as usize]
    }
    fn is(&self, h: i64) -> bool {
        self() as i64 == h % 5
    }
}
impl Val for String {
    fn make(h: i64) -> Self {
        format!("value {h}")
    }
    fn is(&self, h: i64) -> bool {
        *self == format!("value {h}")
    }
}
impl Val for Arc<i64> {
    fn make(h: i64) -> Self {
        Arc::new(h)
    }
    fn is(&self, h: i64) -> bool {
        **self == h
    }
}
impl Val for Rc<i64> {
    fn make(h: i64) -> Self {
        Rc::new(h)
    }
    fn is(&self, h: i64) -> bool {
        **self == h
    }
}
impl Val for &'static str {
    fn make(h: i64) -> Self {
        STRS[(h % 7) as usize]
    }
    fn is(&self, h: i64) -> bool {
        *self == STRS[(h % 7) as usize]
    }
}
impl Val for () {
    fn make(_: i64) -> Self {}
    fn is(&self, _: i64) -> bool {
        true
    }
}
impl Val for [u8; 4] {
    fn make(h: i64) -> Self {
        (h as u32).to_le_bytes()
    }
    fn is(&self, h: i64) -> bool {
        *self == (h as u32).to_le_bytes()
    }
}
impl Val for Box<i64> {
    fn make(h: i64) -> Self {
        Box::new(h)
    }
    fn is(&self, h: i64) -> bool {
        **self == h
    }
}
impl Val for Cell<u32> {
    fn make(h: i64) -> Self {
        Cell::new(h as u32)
    }
    fn is(&self, h: i64) -> bool {
        self.get() as i64 == h
    }
}
impl Val for Option<char> {
    fn make(h: i64) -> Self {
        char::from_u32(0x100 + h as u32)
    }
    fn is(&self, h: i64) -> bool {
        *self == char::from_u32(0x100 + h as u32)
    }
}

trait ItemH {
    /// `None` = does not resolve; `Some(h)` = resolves to its own value; `Some(-3)` = resolves to
    /// something else, or the access paths (`try_with_value`, `try_get_value`, `try_update_value`)
    /// disagree
    fn read(&self) -> Option<i64>;
    fn disposed(&self) -> bool;
    fn dispose(&self);
    /// `IntoInner::into_inner` = `Storage::take`: removes the arena entry
    fn take(&self);
}
struct It<T: Val, S: Storage<T>> {
    item: ArenaItem<T, S>,
    h: i64,
}
impl<T: Val, S: Storage<T>> ItemH for It<T, S> {
    fn read(&self) -> Option<i64> {
        let h = self.h;
        let a = self.item.try_with_value(|v| v.is(h));
        let b = self.item.try_get_value().map(|v| v.is(h));
        let c = self.item.try_update_value(|v| v.is(h));
        match (a, b, c) {
            (None, None, None) => None,
            (Some(true), Some(true), Some(true)) => Some(h),
            _ => Some(-3),
        }
    }
    fn disposed(&self) -> bool {
        self.item.is_disposed()
    }
    fn dispose(&self) {
        self.item.dispose()
    }
    fn take(&self) {
        let v = self.item.into_inner();
        if let Some(v) = v {
            assert!(v.is(self.h), "into_inner returns the handle's own value");
        }
    }
}
fn with_storage<T: Val, S: Storage<T> + std::fmt::Debug>(h: i64) -> (Box<dyn ItemH>, (u64, u64)) {
    let item = ArenaItem::<T, S>::new_with_storage(T::make(h));
    let k = node_id(&format!("{item:?}"));
    (Box::new(It { item, h }), k)
}
/// a typed arena handle behind closures
struct Fh {
    read: Box<dyn Fn() -> Option<i64>>,
    disposed: Box<dyn Fn() -> bool>,
    dispose: Box<dyn Fn()>,
}
impl ItemH for Fh {
    fn read(&self) -> Option<i64> {
        (self.read)()
    }
    fn disposed(&self) -> bool {
        (self.disposed)()
    }
    fn dispose(&self) {
        (self.dispose)()
    }
    fn take(&self) {
        (self.dispose)()
    }
}
macro_rules! fh {
    ($x:expr, $read:expr, nodisp) => {{
        // a handle type without `IsDisposed`: disposed = does not resolve
        let x = $x;
        let k = node_id(&format!("{x:?}"));
        let read = $read;
        (
            Box::new(Fh {
                read: Box::new(move || read(x)),
                disposed: Box::new(move || read(x).is_none()),
                dispose: Box::new(move || x.dispose()),
            }) as Box<dyn ItemH>,
            k,
        )
    }};
    ($x:expr, $read:expr) => {{
        let x = $x;
        let k = node_id(&format!("{x:?}"));
        let read = $read;
        (
            Box::new(Fh {
                read: Box::new(move || read(x)),
                disposed: Box::new(move || x.is_disposed()),
                dispose: Box::new(move || x.dispose()),
            }) as Box<dyn ItemH>,
            k,
        )
    }};
}
pub const N_HK: i64 = 13;
/// the other arena handle types of reactive_graph, by their own constructors and conversions;
/// `h` = number of the first handle made (a statement makes one or two, in allocation order)
fn new_typed(hk: i64, h: i64) -> Vec<(Box<dyn ItemH>, (u64, u64))> {
    fn rd(r: ReadSignal<i64>) -> Option<i64> {
        r.try_get_untracked()
    }
    fn wr(w: WriteSignal<i64>) -> Option<i64> {
        w.try_update_untracked(|v| *v)
    }
    fn rw(s: RwSignal<i64>) -> Option<i64> {
        s.try_get_untracked()
    }
    fn sv(s: StoredValue<i64>) -> Option<i64> {
        s.try_get_value()
    }
    match hk.rem_euclid(N_HK) {
        0 => {
            let (r, w) = signal(h);
            // both halves show the first handle's number
            vec![fh!(r, rd), fh!(w, move |w| wr(w).map(|v| v + 1))]
        }
        // (Trigger is not here: its Debug rendering does not show the arena key)
        1 => vec![fh!(WriteSignal::from(arc_signal(h).1), wr)],
        2 => vec![fh!(StoredValue::new_local(h), |s: StoredValue<i64, LocalStorage>| s.try_get_value())],
        3 => vec![fh!(store_value(h), sv)],
        4 => vec![fh!(StoredValue::from(ArcStoredValue::new(h)), sv)],
        5 => vec![fh!(RwSignal::new_local(h), |s: RwSignal<i64, LocalStorage>| s.try_get_untracked())],
        6 => vec![fh!(RwSignal::from(ArcRwSignal::new(h)), rw)],
        7 => {
            let s = RwSignal::new(h);
            let r = s.read_only();
            vec![fh!(s, rw), fh!(r, move |r| rd(r).map(|v| v + 1))]
        }
        8 => {
            let s = RwSignal::new(h);
            let w = s.write_only();
            vec![fh!(s, rw), fh!(w, move |w| wr(w).map(|v| v + 1))]
        }
        9 => vec![fh!(Signal::derive(move || h), |s: Signal<i64>| s.try_get_untracked(), nodisp)],
        10 => vec![fh!(Signal::stored(h), |s: Signal<i64>| s.try_get_untracked(), nodisp)],
        11 => vec![fh!(ReadSignal::from(arc_signal(h).0), rd)],
        _ => {
            let a = ArcRwSignal::new(h);
            vec![fh!(RwSignal::from(&a), rw)]
        }
    }
}
/// arena entries one typed-handle statement makes (must agree with `hk_slots` of OwnerRun.v)
fn hk_slots(hk: i64) -> usize {
    match hk.rem_euclid(N_HK) {
        0 | 7 | 8 => 2,
        _ => 1,
    }
}
pub const N_KINDS: i64 = 24;
/// the (type, storage) pairs of raw arena items; 0..=11 SyncStorage, 12..=23 LocalStorage
fn new_item(kind: i64, h: i64) -> (Box<dyn ItemH>, (u64, u64)) {
    match kind.rem_euclid(N_KINDS) {
        0 => {
            let item = ArenaItem::new(h as u32);
            let k = node_id(&format!("{item:?}"));
            (Box::new(It { item, h }), k)
        }
        1 => with_storage::<(u8, bool), SyncStorage>(h),
        2 => with_storage::<fn() -> u32, SyncStorage>(h),
        3 => with_storage::<String, SyncStorage>(h),
        4 => with_storage::<Arc<i64>, SyncStorage>(h),
        5 => with_storage::<i64, SyncStorage>(h),
        6 => with_storage::<&'static str, SyncStorage>(h),
        7 => with_storage::<(), SyncStorage>(h),
        8 => with_storage::<[u8; 4], SyncStorage>(h),
        9 => with_storage::<Box<i64>, SyncStorage>(h),
        10 => with_storage::<Option<char>, SyncStorage>(h),
        11 => with_storage::<u32, SyncStorage>(h),
        12 => {
            let item = ArenaItem::new_local(h as u32);
            let k = node_id(&format!("{item:?}"));
            (Box::new(It { item, h }), k)
        }
        13 => with_storage::<(u8, bool), LocalStorage>(h),
        14 => with_storage::<fn() -> u32, LocalStorage>(h),
        15 => with_storage::<String, LocalStorage>(h),
        16 => with_storage::<Rc<i64>, LocalStorage>(h),
        17 => with_storage::<i64, LocalStorage>(h),
        18 => with_storage::<&'static str, LocalStorage>(h),
        19 => with_storage::<(), LocalStorage>(h),
        20 => with_storage::<Cell<u32>, LocalStorage>(h),
        21 => with_storage::<Box<i64>, LocalStorage>(h),
        22 => with_storage::<Arc<i64>, LocalStorage>(h),
        _ => with_storage::<Option<char>, LocalStorage>(h),
    }
}

#[derive(Default)]
struct Ctx {
    log: Vec<Sexp>,
    /// per owner id: the handle the harness still holds (user scopes only) and the scope body
    owners: Vec<(Option<Owner>, bool, Sexp)>,
    /// one entry per spawned task, in spawn order
    effects: Vec<(EffH, ArcTrigger)>,
    imms: Vec<(Option<ImmediateEffect>, ArcTrigger)>,
    memos: Vec<(Memo<i64>, ArcTrigger)>,
    handles: Vec<Handle>,
    next_cid: usize,
    keys: Vec<(u64, u64)>,
}

thread_local! {
    static CTX: RefCell<Ctx> = RefCell::new(Ctx::default());
}

fn ctx<R>(f: impl FnOnce(&mut Ctx) -> R) -> R {
    CTX.with(|c| f(&mut c.borrow_mut()))
}

fn log(e: Sexp) {
    ctx(|c| c.log.push(e));
}

/// `NodeId(3v5)` inside the Debug rendering of a handle
fn node_id(dbg: &str) -> (u64, u64) {
    let i = dbg.find("NodeId(").expect("handle Debug shows its NodeId") + 7;
    let rest = &dbg[i..];
    let end = rest.find(')').unwrap();
    let (a, b) = rest[..end].split_once('v').unwrap();
    (a.parse().unwrap(), b.parse().unwrap())
}

fn opt(v: Option<i64>) -> Sexp {
    match v {
        None => Lst(vec![]),
        Some(x) => Lst(vec![Num(x)]),
    }
}

/// a context lookup through one of the entry points: 0 use_context, 1 with_context,
/// 2 expect_context (which panics when there is none)
fn use_ty_mode(ty: i64, mode: i64) -> Option<i64> {
    fn one<const N: usize>(mode: i64) -> Option<i64> {
        match mode {
            1 => with_context::<Cx<N>, _>(|c| c.0),
            2 => std::panic::catch_unwind(|| expect_context::<Cx<N>>().0).ok(),
            _ => use_context::<Cx<N>>().map(|c| c.0),
        }
    }
    match ty {
        0 => one::<0>(mode),
        1 => one::<1>(mode),
        _ => one::<2>(mode),
    }
}
fn use_ty(ty: i64) -> Option<i64> {
    use_ty_mode(ty, 0)
}
fn take_ty(ty: i64) -> Option<i64> {
    match ty {
        0 => take_context::<Cx<0>>().map(|c| c.0),
        1 => take_context::<Cx<1>>().map(|c| c.0),
        _ => take_context::<Cx<2>>().map(|c| c.0),
    }
}
fn update_ty(ty: i64, v: i64) -> Option<i64> {
    match ty {
        0 => update_context::<Cx<0>, _>(|c| std::mem::replace(&mut c.0, v)),
        1 => update_context::<Cx<1>, _>(|c| std::mem::replace(&mut c.0, v)),
        _ => update_context::<Cx<2>, _>(|c| std::mem::replace(&mut c.0, v)),
    }
}

fn exec_body(body: &Sexp) {
    for st in body.list() {
        exec_stmt(st);
    }
}

fn exec_stmt(st: &Sexp) {
    match st.at(0).num() {
        0 => {
            let h = ctx(|c| c.handles.len()) as i64;
            let s = RwSignal::new(h);
            let k = node_id(&format!("{s:?}"));
            ctx(|c| {
                c.handles.push(Handle::Sig(s));
                c.keys.push(k)
            });
        }
        1 => {
            let h = ctx(|c| c.handles.len()) as i64;
            let s = StoredValue::new(h);
            let k = node_id(&format!("{s:?}"));
            ctx(|c| {
                c.handles.push(Handle::Stored(s));
                c.keys.push(k)
            });
        }
        12 => {
            let h = ctx(|c| c.handles.len()) as i64;
            let (it, k) = new_item(st.at(1).num(), h);
            ctx(|c| {
                c.handles.push(Handle::Item(it));
                c.keys.push(k)
            });
        }
        27 => {
            let h = ctx(|c| c.handles.len()) as i64;
            let before = verif_arena_len();
            let hs = new_typed(st.at(1).num(), h);
            assert_eq!(hs.len(), hk_slots(st.at(1).num()));
            assert_eq!(verif_arena_len(), before + hs.len(), "arena entries per typed handle");
            for (it, k) in hs {
                ctx(|c| {
                    c.handles.push(Handle::Item(it));
                    c.keys.push(k)
                });
            }
        }
        2 => {
            let cid = ctx(|c| {
                c.next_cid += 1;
                c.next_cid - 1
            });
            // `(2 mode body)`: the cleanup function itself registers cleanups / allocates values /
            // reads a context - under whichever owner is current while it runs
            let cbody = st.at(2).clone();
            let f = move || {
                log(Lst(vec![Num(1), Num(cid as i64)]));
                exec_body(&cbody);
            };
            if st.at(1).num() == 1 {
                Owner::on_cleanup(f);
            } else {
                on_cleanup(f);
            }
        }
        13 => {
            let ty = st.at(1).num();
            let r = take_ty(ty);
            log(Lst(vec![Num(4), Num(ty), opt(r)]));
        }
        14 => {
            let ty = st.at(1).num();
            let r = update_ty(ty, st.at(2).num());
            log(Lst(vec![Num(4), Num(ty), opt(r)]));
        }
        3 => {
            let v = st.at(2).num();
            match st.at(1).num() {
                0 => provide_context(Cx::<0>(v)),
                1 => provide_context(Cx::<1>(v)),
                _ => provide_context(Cx::<2>(v)),
            }
        }
        4 => {
            let ty = st.at(1).num();
            let r = use_ty_mode(ty, st.at(2).num());
            log(Lst(vec![Num(4), Num(ty), opt(r)]));
        }
        5 => {
            let body = st.at(1).clone();
            let mode = st.at(2).num();
            // 0: Owner::new(); 1: the current owner's child(); 2: Owner::new() made current with
            // set() instead of with()
            let o = if mode == 1 {
                Owner::current().expect("a current owner").child()
            } else {
                Owner::new()
            };
            ctx(|c| c.owners.push((Some(o.clone()), true, body.clone())));
            if mode == 2 {
                let prev = Owner::current().expect("a current owner");
                o.set();
                exec_body(&body);
                prev.set();
            } else {
                o.with(|| exec_body(&body));
            }
            drop(o);
        }
        6 | 9 | 10 | 15 | 16 | 17 | 18 => {
            let tag = st.at(0).num();
            let body = st.at(1).clone();
            let eid = ctx(|c| c.effects.len());
            let trig = ArcTrigger::new();
            ctx(|c| c.owners.push((None, false, body.clone())));
            let before = exec::spawned();
            let t2 = trig.clone();
            let run = move || {
                t2.track();
                log(Lst(vec![Num(2), Num(eid as i64)]));
                exec_body(&body);
            };
            let (h, k) = match tag {
                6 => {
                    let e = Effect::new(move |_| run());
                    let k = node_id(&format!("{e:?}"));
                    (EffH::Local(e), k)
                }
                9 => {
                    let e = Effect::new_isomorphic(move |_| run());
                    let k = node_id(&format!("{e:?}"));
                    (EffH::Sync(e), k)
                }
                15 => {
                    let e = Effect::new_sync(move |_| run());
                    let k = node_id(&format!("{e:?}"));
                    (EffH::Sync(e), k)
                }
                16 => {
                    let e = Effect::watch_sync(run, |_: &(), _, _: Option<()>| (), false);
                    let k = node_id(&format!("{e:?}"));
                    (EffH::Sync(e), k)
                }
                18 =>
                {
                    #[allow(deprecated)]
                    let e = reactive_graph::effect::create_effect(move |_| run());
                    let k = node_id(&format!("{e:?}"));
                    (EffH::Local(e), k)
                }
                t => {
                    // the scope body is the dependency function; the handler does nothing
                    // (17: it also runs on the first run)
                    let e = Effect::watch(run, |_: &(), _, _: Option<()>| (), t == 17);
                    let k = node_id(&format!("{e:?}"));
                    (EffH::Local(e), k)
                }
            };
            assert_eq!(exec::spawned(), before + 1, "one task per effect");
            assert_eq!(before, eid, "task number = effect number");
            ctx(|c| {
                c.effects.push((h, trig));
                c.keys.push(k)
            });
        }
        8 | 19 | 20 => {
            // RenderEffect: first run at once (effects created by the body spawn their tasks
            // first), no arena entry; the handle is retained here
            let body = st.at(1).clone();
            let oid = ctx(|c| {
                c.owners.push((None, false, body.clone()));
                c.owners.len() - 1
            });
            let trig = ArcTrigger::new();
            let t2 = trig.clone();
            let eid_cell = std::sync::Arc::new(std::sync::atomic::AtomicUsize::new(usize::MAX));
            let cell2 = eid_cell.clone();
            let tag = st.at(0).num();
            let first = std::sync::atomic::AtomicBool::new(true);
            let f = move |_prev: Option<()>| {
                t2.track();
                if first.swap(false, std::sync::atomic::Ordering::SeqCst) {
                    log(Lst(vec![Num(6), Num(oid as i64)]));
                } else {
                    let eid = cell2.load(std::sync::atomic::Ordering::SeqCst);
                    log(Lst(vec![Num(2), Num(eid as i64)]));
                }
                exec_body(&body);
            };
            let e = match tag {
                19 => RenderEffect::new_isomorphic(f),
                20 => RenderEffect::new_with_value(f, Some(())),
                _ => RenderEffect::new(f),
            };
            let eid = ctx(|c| {
                c.effects.push((EffH::Render(Some(e)), trig));
                c.effects.len() - 1
            });
            eid_cell.store(eid, std::sync::atomic::Ordering::SeqCst);
            assert_eq!(exec::spawned(), eid + 1, "task number = effect number");
        }
        11 | 21 | 22 | 23 => {
            let tag = st.at(0).num();
            let body = st.at(1).clone();
            let iid = ctx(|c| {
                c.owners.push((None, false, body.clone()));
                c.imms.len()
            });
            let trig = ArcTrigger::new();
            ctx(|c| c.imms.push((None, trig.clone())));
            let t2 = trig.clone();
            let f = move || {
                t2.track();
                log(Lst(vec![Num(7), Num(iid as i64)]));
                exec_body(&body);
            };
            match tag {
                21 => {
                    let e = ImmediateEffect::new_mut(f);
                    ctx(|c| c.imms[iid].0 = Some(e));
                }
                22 => {
                    let e = ImmediateEffect::new_isomorphic(f);
                    ctx(|c| c.imms[iid].0 = Some(e));
                }
                // the current owner holds the handle: dropped by one of its cleanups
                23 => ImmediateEffect::new_scoped(f),
                _ => {
                    let e = ImmediateEffect::new(f);
                    ctx(|c| c.imms[iid].0 = Some(e));
                }
            }
        }
        7 | 24 | 25 | 26 => {
            let tag = st.at(0).num();
            let body = st.at(1).clone();
            let mid = ctx(|c| c.memos.len());
            let trig = ArcTrigger::new();
            ctx(|c| c.owners.push((None, false, body.clone())));
            let t2 = trig.clone();
            let f = move || {
                t2.track();
                log(Lst(vec![Num(3), Num(mid as i64)]));
                exec_body(&body);
                0i64
            };
            let m = match tag {
                24 => Memo::new_with_compare(move |_| f(), |a, b| a != b),
                25 => Memo::new_owning(move |_| (f(), true)),
                26 => Memo::from(reactive_graph::computed::ArcMemo::new(move |_| f())),
                _ => Memo::new(move |_| f()),
            };
            let k = node_id(&format!("{m:?}"));
            ctx(|c| {
                c.memos.push((m, trig));
                c.keys.push(k)
            });
        }
        _ => {}
    }
}

/// the handle of user scope `o`, if the harness still holds it
fn user(o: i64) -> Option<(Owner, Sexp)> {
    ctx(|c| {
        c.owners.get(o as usize).and_then(|(h, user, b)| {
            if *user {
                h.clone().map(|h| (h, b.clone()))
            } else {
                None
            }
        })
    })
}

fn statuses() -> Sexp {
    let n = ctx(|c| c.handles.len());
    let mut out = vec![];
    for i in 0..n {
        let (v, d) = ctx(|c| match &c.handles[i] {
            Handle::Sig(s) => (s.try_get_untracked(), s.is_disposed()),
            Handle::Stored(s) => {
                // ReadValue / WriteValue: every access path must agree
                let (a, b, c) = (
                    s.try_get_value(),
                    s.try_with_value(|v| *v),
                    s.try_update_value(|v| *v),
                );
                (if a == b && b == c { a } else { Some(-3) }, s.is_disposed())
            }
            Handle::Item(s) => (s.read(), s.disposed()),
        });
        // the value it resolves to, -1 = disposed; -4 / -5 = `is_disposed()` contradicts the access
        out.push(Num(match (v, d) {
            (Some(x), false) => x,
            (None, true) => -1,
            (Some(_), true) => -4,
            (None, false) => -5,
        }));
    }
    Lst(out)
}

fn obs() -> Sexp {
    let l = ctx(|c| std::mem::take(&mut c.log));
    Lst(vec![
        Lst(l),
        statuses(),
        Sexp::from_nums(exec::ready().into_iter().map(|x| x as i64)),
    ])
}

fn step(op: &Sexp) {
    let a = op.at(1).num();
    match op.at(0).num() {
        10 => {
            if let Some((o, b)) = user(a) {
                o.with_cleanup(|| exec_body(&b));
            }
        }
        11 => {
            if let Some((o, _)) = user(a) {
                o.cleanup();
            }
        }
        30 => {
            // cleaned up while it is itself the current owner
            if let Some((o, _)) = user(a) {
                o.with(|| o.cleanup());
            }
        }
        12 => drop_owner(a),
        13 => {
            let t = ctx(|c| c.effects.get(a as usize).map(|e| e.1.clone()));
            if let Some(t) = t {
                t.notify();
            }
        }
        14 => {
            let t = ctx(|c| c.memos.get(a as usize).map(|m| m.1.clone()));
            if let Some(t) = t {
                t.notify();
            }
        }
        15 => {
            let m = ctx(|c| c.memos.get(a as usize).map(|m| m.0));
            if let Some(m) = m {
                let r = m.try_get_untracked();
                log(Lst(vec![Num(5), Num(a), Sexp::bool(r.is_some())]));
            }
        }
        16 => {
            if a >= 0 && (a as usize) < exec::spawned() {
                exec::poll(a as usize);
            }
        }
        17 => {
            exec::run_all(&op.at(1).nums(), 100_000);
        }
        18 => {
            if let Some((o, _)) = user(a) {
                let n = op.at(2).num();
                o.with(|| {
                    for _ in 0..n {
                        exec_stmt(&Lst(vec![Num(1)]));
                    }
                });
            }
        }
        28 => {
            if let Some((o, _)) = user(a) {
                let n = op.at(2).num();
                let kind = op.at(3).num();
                o.with(|| {
                    for _ in 0..n {
                        exec_stmt(&Lst(vec![Num(12), Num(kind)]));
                    }
                });
            }
        }
        19 | 29 => {
            let take = op.at(0).num() == 29;
            let n = ctx(|c| c.handles.len());
            if a >= 0 && (a as usize) < n {
                ctx(|c| match &c.handles[a as usize] {
                    Handle::Sig(s) => s.dispose(),
                    Handle::Stored(s) => s.dispose(),
                    Handle::Item(s) => {
                        if take {
                            s.take()
                        } else {
                            s.dispose()
                        }
                    }
                });
            }
        }
        23 => {
            let m = ctx(|c| c.memos.get(a as usize).map(|m| m.0));
            if let Some(m) = m {
                m.dispose();
            }
        }
        24 => {
            // take what is needed out of the context first: dropping may run cleanups that log
            enum D {
                L(Effect<LocalStorage>),
                S(Effect<SyncStorage>),
                R(Option<RenderEffect<()>>),
                N,
            }
            let d = ctx(|c| match c.effects.get_mut(a as usize) {
                Some((EffH::Local(e), _)) => D::L(*e),
                Some((EffH::Sync(e), _)) => D::S(*e),
                Some((EffH::Render(r), _)) => D::R(r.take()),
                None => D::N,
            });
            match d {
                D::L(e) => e.dispose(),
                D::S(e) => e.dispose(),
                D::R(r) => drop(r),
                D::N => {}
            }
        }
        25 => {
            // Effect::stop (not for render effects)
            enum D {
                L(Effect<LocalStorage>),
                S(Effect<SyncStorage>),
                N,
            }
            let d = ctx(|c| match c.effects.get(a as usize) {
                Some((EffH::Local(e), _)) => D::L(*e),
                Some((EffH::Sync(e), _)) => D::S(*e),
                _ => D::N,
            });
            match d {
                D::L(e) => e.stop(),
                D::S(e) => e.stop(),
                D::N => {}
            }
        }
        26 => {
            let t = ctx(|c| c.imms.get(a as usize).map(|m| m.1.clone()));
            if let Some(t) = t {
                t.notify();
            }
        }
        27 => {
            let h = ctx(|c| c.imms.get_mut(a as usize).and_then(|m| m.0.take()));
            drop(h);
        }
        20 => {
            if let Some((o, _)) = user(a) {
                o.pause();
            }
        }
        21 => {
            if let Some((o, _)) = user(a) {
                o.resume();
            }
        }
        22 => {
            if let Some((o, _)) = user(a) {
                let ty = op.at(2).num();
                let r = o.with(|| use_ty(ty));
                log(Lst(vec![Num(4), Num(ty), opt(r)]));
            }
        }
        _ => {}
    }
}

fn drop_owner(a: i64) {
    // take the handle out first: dropping it may run cleanups that log
    let h = ctx(|c| c.owners.get_mut(a as usize).and_then(|(h, _, _)| h.take()));
    drop(h);
}

fn canon_keys(keys: &[(u64, u64)]) -> Sexp {
    let mut seen: Vec<(u64, u64)> = vec![];
    let mut out = vec![];
    for (i, v) in keys {
        match seen.iter().position(|p| p.0 == *i) {
            Some(j) => out.push(Lst(vec![Num(j as i64), Num(((v - seen[j].1) / 2) as i64)])),
            None => {
                out.push(Lst(vec![Num(seen.len() as i64), Num(0)]));
                seen.push((*i, *v));
            }
        }
    }
    Lst(out)
}

/// release whatever the previous case on this thread (a panicking one) still holds
pub fn reset() {
    exec::reset();
    drop(CTX.with(|x| std::mem::take(&mut *x.borrow_mut())));
}

pub fn run(c: &Sexp) -> Sexp {
    reset();
    let len0 = verif_arena_len();
    let body = c.at(0).clone();
    let root = Owner::new();
    ctx(|x| x.owners.push((Some(root.clone()), true, body.clone())));
    root.with(|| exec_body(&body));
    // like a mounted application: the root scope stays the thread's current owner while the
    // history runs (cleanup functions and drop glue run under it, unless an op says otherwise)
    root.set();
    drop(root);
    let o0 = obs();
    let mut trace = vec![];
    for op in c.at(1).list() {
        step(op);
        trace.push(obs());
    }
    // end of the case: drop every scope handle still held, let the tasks end
    let n = ctx(|x| x.owners.len());
    for o in 0..n {
        drop_owner(o as i64);
    }
    let ne = ctx(|x| x.effects.len());
    for e in 0..ne {
        let r = ctx(|x| match &mut x.effects[e].0 {
            EffH::Render(r) => r.take(),
            _ => None,
        });
        drop(r);
    }
    let ni = ctx(|x| x.imms.len());
    for i in 0..ni {
        let h = ctx(|x| x.imms[i].0.take());
        drop(h);
    }
    exec::run_all(&[], 100_000);
    let l = ctx(|x| std::mem::take(&mut x.log));
    let fin = Lst(vec![
        Lst(l),
        statuses(),
        Num(verif_arena_len() as i64 - len0 as i64),
        ctx(|x| canon_keys(&x.keys)),
    ]);
    let live = exec::live();
    exec::reset();
    drop(CTX.with(|x| std::mem::take(&mut *x.borrow_mut())));
    assert_eq!(live, 0, "every effect task has ended once all scopes are gone");
    Lst(vec![o0, Lst(trace), fin])
}
