//! C08 — owner disposal releases exactly what the scope created, exactly once.
//!
//! case `(body ops)`: the root scope's body is run under a fresh root `Owner`; `ops` is a
//! history of re-runs / cleanups / handle drops / notifications / task polls / allocations.
//! Statements and ops are documented in coq/theories/Reactive/OwnerRun.v. Every dynamic entity
//! (owner, effect, memo, handle, cleanup) is numbered in creation order.
use crate::exec;
use reactive_graph::{
    computed::Memo,
    effect::Effect,
    owner::{on_cleanup, provide_context, use_context, verif_arena_len, Owner, StoredValue},
    signal::{ArcTrigger, RwSignal},
    traits::{Dispose, GetUntracked, GetValue, Notify, Track},
};
use std::cell::RefCell;
use vsexp::{Lst, Num, Sexp};

#[derive(Clone)]
struct Cx<const N: usize>(i64);

enum Handle {
    Sig(RwSignal<i64>),
    Stored(StoredValue<i64>),
}

#[derive(Default)]
struct Ctx {
    log: Vec<Sexp>,
    /// per owner id: the handle the harness still holds (user scopes only) and the scope body
    owners: Vec<(Option<Owner>, bool, Sexp)>,
    effects: Vec<(Option<Effect<reactive_graph::owner::LocalStorage>>, ArcTrigger)>,
    memos: Vec<(Memo<i64>, ArcTrigger)>,
    handles: Vec<Handle>,
    next_cid: usize,
    keys: Vec<(u64, u64)>,
}

thread_local! {
    static CTX: RefCell<Ctx> = RefCell::new(Ctx::default());
}

fn ctx<R>(f: impl FnOnce(&mut Ctx) -> R) -> R {
    CTX.with(|c| f(&mut c.borrow_mut()))
}

fn log(e: Sexp) {
    ctx(|c| c.log.push(e));
}

/// `NodeId(3v5)` inside the Debug rendering of a handle
fn node_id(dbg: &str) -> (u64, u64) {
    let i = dbg.find("NodeId(").expect("handle Debug shows its NodeId") + 7;
    let rest = &dbg[i..];
    let end = rest.find(')').unwrap();
    let (a, b) = rest[..end].split_once('v').unwrap();
    (a.parse().unwrap(), b.parse().unwrap())
}

fn opt(v: Option<i64>) -> Sexp {
    match v {
        None => Lst(vec![]),
        Some(x) => Lst(vec![Num(x)]),
    }
}

fn use_ty(ty: i64) -> Option<i64> {
    match ty {
        0 => use_context::<Cx<0>>().map(|c| c.0),
        1 => use_context::<Cx<1>>().map(|c| c.0),
        _ => use_context::<Cx<2>>().map(|c| c.0),
    }
}

fn exec_body(body: &Sexp) {
    for st in body.list() {
        exec_stmt(st);
    }
}

fn exec_stmt(st: &Sexp) {
    match st.at(0).num() {
        0 => {
            let h = ctx(|c| c.handles.len()) as i64;
            let s = RwSignal::new(h);
            let k = node_id(&format!("{s:?}"));
            ctx(|c| {
                c.handles.push(Handle::Sig(s));
                c.keys.push(k)
            });
        }
        1 => {
            let h = ctx(|c| c.handles.len()) as i64;
            let s = StoredValue::new(h);
            let k = node_id(&format!("{s:?}"));
            ctx(|c| {
                c.handles.push(Handle::Stored(s));
                c.keys.push(k)
            });
        }
        2 => {
            let cid = ctx(|c| {
                c.next_cid += 1;
                c.next_cid - 1
            });
            on_cleanup(move || log(Lst(vec![Num(1), Num(cid as i64)])));
        }
        3 => {
            let v = st.at(2).num();
            match st.at(1).num() {
                0 => provide_context(Cx::<0>(v)),
                1 => provide_context(Cx::<1>(v)),
                _ => provide_context(Cx::<2>(v)),
            }
        }
        4 => {
            let ty = st.at(1).num();
            let r = use_ty(ty);
            log(Lst(vec![Num(4), Num(ty), opt(r)]));
        }
        5 => {
            let body = st.at(1).clone();
            let o = Owner::new();
            ctx(|c| c.owners.push((Some(o.clone()), true, body.clone())));
            o.with(|| exec_body(&body));
            drop(o);
        }
        6 => {
            let body = st.at(1).clone();
            let eid = ctx(|c| c.effects.len());
            let trig = ArcTrigger::new();
            ctx(|c| {
                c.effects.push((None, trig.clone()));
                c.owners.push((None, false, body.clone()));
            });
            let before = exec::spawned();
            let e = Effect::new(move |_| {
                trig.track();
                log(Lst(vec![Num(2), Num(eid as i64)]));
                exec_body(&body);
            });
            assert_eq!(exec::spawned(), before + 1, "one task per effect");
            assert_eq!(before, eid, "task number = effect number");
            let k = node_id(&format!("{e:?}"));
            ctx(|c| {
                c.effects[eid].0 = Some(e);
                c.keys.push(k)
            });
        }
        7 => {
            let body = st.at(1).clone();
            let mid = ctx(|c| c.memos.len());
            let trig = ArcTrigger::new();
            ctx(|c| c.owners.push((None, false, body.clone())));
            let t2 = trig.clone();
            let m = Memo::new(move |_| {
                t2.track();
                log(Lst(vec![Num(3), Num(mid as i64)]));
                exec_body(&body);
                0i64
            });
            let k = node_id(&format!("{m:?}"));
            ctx(|c| {
                c.memos.push((m, trig));
                c.keys.push(k)
            });
        }
        _ => {}
    }
}

/// the handle of user scope `o`, if the harness still holds it
fn user(o: i64) -> Option<(Owner, Sexp)> {
    ctx(|c| {
        c.owners.get(o as usize).and_then(|(h, user, b)| {
            if *user {
                h.clone().map(|h| (h, b.clone()))
            } else {
                None
            }
        })
    })
}

fn statuses() -> Sexp {
    let n = ctx(|c| c.handles.len());
    let mut out = vec![];
    for i in 0..n {
        let v = ctx(|c| match &c.handles[i] {
            Handle::Sig(s) => s.try_get_untracked(),
            Handle::Stored(s) => s.try_get_value(),
        });
        out.push(Num(v.unwrap_or(-1)));
    }
    Lst(out)
}

fn obs() -> Sexp {
    let l = ctx(|c| std::mem::take(&mut c.log));
    Lst(vec![
        Lst(l),
        statuses(),
        Sexp::from_nums(exec::ready().into_iter().map(|x| x as i64)),
    ])
}

fn step(op: &Sexp) {
    let a = op.at(1).num();
    match op.at(0).num() {
        10 => {
            if let Some((o, b)) = user(a) {
                o.with_cleanup(|| exec_body(&b));
            }
        }
        11 => {
            if let Some((o, _)) = user(a) {
                o.cleanup();
            }
        }
        12 => drop_owner(a),
        13 => {
            let t = ctx(|c| c.effects.get(a as usize).map(|e| e.1.clone()));
            if let Some(t) = t {
                t.notify();
            }
        }
        14 => {
            let t = ctx(|c| c.memos.get(a as usize).map(|m| m.1.clone()));
            if let Some(t) = t {
                t.notify();
            }
        }
        15 => {
            let m = ctx(|c| c.memos.get(a as usize).map(|m| m.0));
            if let Some(m) = m {
                let r = m.try_get_untracked();
                log(Lst(vec![Num(5), Num(a), Sexp::bool(r.is_some())]));
            }
        }
        16 => {
            if a >= 0 && (a as usize) < exec::spawned() {
                exec::poll(a as usize);
            }
        }
        17 => {
            exec::run_all(&op.at(1).nums(), 100_000);
        }
        18 => {
            if let Some((o, _)) = user(a) {
                let n = op.at(2).num();
                o.with(|| {
                    for _ in 0..n {
                        exec_stmt(&Lst(vec![Num(1)]));
                    }
                });
            }
        }
        19 => {
            let n = ctx(|c| c.handles.len());
            if a >= 0 && (a as usize) < n {
                ctx(|c| match &c.handles[a as usize] {
                    Handle::Sig(s) => s.dispose(),
                    Handle::Stored(s) => s.dispose(),
                });
            }
        }
        23 => {
            let m = ctx(|c| c.memos.get(a as usize).map(|m| m.0));
            if let Some(m) = m {
                m.dispose();
            }
        }
        24 => {
            let e = ctx(|c| c.effects.get(a as usize).and_then(|e| e.0));
            if let Some(e) = e {
                e.dispose();
            }
        }
        20 => {
            if let Some((o, _)) = user(a) {
                o.pause();
            }
        }
        21 => {
            if let Some((o, _)) = user(a) {
                o.resume();
            }
        }
        22 => {
            if let Some((o, _)) = user(a) {
                let ty = op.at(2).num();
                let r = o.with(|| use_ty(ty));
                log(Lst(vec![Num(4), Num(ty), opt(r)]));
            }
        }
        _ => {}
    }
}

fn drop_owner(a: i64) {
    // take the handle out first: dropping it may run cleanups that log
    let h = ctx(|c| c.owners.get_mut(a as usize).and_then(|(h, _, _)| h.take()));
    drop(h);
}

fn canon_keys(keys: &[(u64, u64)]) -> Sexp {
    let mut seen: Vec<(u64, u64)> = vec![];
    let mut out = vec![];
    for (i, v) in keys {
        match seen.iter().position(|p| p.0 == *i) {
            Some(j) => out.push(Lst(vec![Num(j as i64), Num(((v - seen[j].1) / 2) as i64)])),
            None => {
                out.push(Lst(vec![Num(seen.len() as i64), Num(0)]));
                seen.push((*i, *v));
            }
        }
    }
    Lst(out)
}

pub fn run(c: &Sexp) -> Sexp {
    exec::reset();
    CTX.with(|x| *x.borrow_mut() = Ctx::default());
    let len0 = verif_arena_len();
    let body = c.at(0).clone();
    let root = Owner::new();
    ctx(|x| x.owners.push((Some(root.clone()), true, body.clone())));
    root.with(|| exec_body(&body));
    drop(root);
    let o0 = obs();
    let mut trace = vec![];
    for op in c.at(1).list() {
        step(op);
        trace.push(obs());
    }
    // end of the case: drop every scope handle still held, let the tasks end
    let n = ctx(|x| x.owners.len());
    for o in 0..n {
        drop_owner(o as i64);
    }
    exec::run_all(&[], 100_000);
    let l = ctx(|x| std::mem::take(&mut x.log));
    let fin = Lst(vec![
        Lst(l),
        statuses(),
        Num(verif_arena_len() as i64 - len0 as i64),
        ctx(|x| canon_keys(&x.keys)),
    ]);
    let live = exec::live();
    exec::reset();
    CTX.with(|x| *x.borrow_mut() = Ctx::default());
    assert_eq!(live, 0, "every effect task has ended once all scopes are gone");
    Lst(vec![o0, Lst(trace), fin])
}
