use vsexp::{Lst, Sexp};
pub fn run(_c: &Sexp) -> Sexp {
    Lst(vec![])
}
