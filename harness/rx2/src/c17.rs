//! C17 — action state reflects its dispatch history under any completion order.
//!
//! case `(0 variant events)`: one `ArcAction`/`Action` whose futures are oneshot receivers
//! completed by the schedule; case `(1 events)`: one `ArcMultiAction`.
//! The observation is one entry per event: the action's public state after the event.
use crate::exec;
use futures::channel::oneshot;
use reactive_graph::{
    actions::{Action, ActionAbortHandle, ArcAction, ArcMultiAction, ArcSubmission},
    computed::ArcMemo,
    owner::Owner,
    traits::{Get, GetUntracked},
};
use std::sync::{Arc, Mutex};
use vsexp::{Lst, Num, Sexp};

type Slot = Arc<Mutex<Option<oneshot::Receiver<i64>>>>;

enum Act {
    Arc(ArcAction<i64, i64>),
    Arena(Action<i64, i64>),
}

impl Act {
    fn dispatch(&self, local: bool, i: i64) -> ActionAbortHandle {
        match (self, local) {
            (Act::Arc(a), false) => a.dispatch(i),
            (Act::Arc(a), true) => a.dispatch_local(i),
            (Act::Arena(a), false) => a.dispatch(i),
            (Act::Arena(a), true) => a.dispatch_local(i),
        }
    }
    fn clear(&self) {
        match self {
            Act::Arc(a) => a.clear(),
            Act::Arena(a) => a.clear(),
        }
    }
    fn obs(&self, pending: &ArcMemo<bool>) -> Vec<Sexp> {
        let (ver, val, inp) = match self {
            Act::Arc(a) => (
                a.version().get_untracked(),
                a.value().get_untracked(),
                a.input().get_untracked(),
            ),
            Act::Arena(a) => (
                a.version().get_untracked(),
                a.value().get_untracked(),
                a.input().get_untracked(),
            ),
        };
        vec![
            Sexp::bool(pending.get_untracked()),
            Num(ver as i64),
            opt(val),
            opt(inp),
        ]
    }
}

fn opt(v: Option<i64>) -> Sexp {
    match v {
        None => Lst(vec![]),
        Some(x) => Lst(vec![Num(x)]),
    }
}

pub fn run(c: &Sexp) -> Sexp {
    exec::reset();
    let owner = Owner::new();
    let out = owner.with(|| match c.at(0).num() {
        0 => single(c.at(1).num(), c.at(2)),
        1 => multi(c.at(1)),
        _ => Lst(vec![]),
    });
    exec::reset();
    drop(owner);
    out
}

fn single(variant: i64, events: &Sexp) -> Sexp {
    let slot: Slot = Arc::new(Mutex::new(None));
    let f = {
        let slot = slot.clone();
        move |_inp: &i64| {
            let rx = slot.lock().unwrap().take().expect("one receiver per dispatch");
            async move { rx.await.unwrap_or(-1) }
        }
    };
    let (act, local) = match variant {
        0 => (Act::Arc(ArcAction::new(f)), false),
        1 => (Act::Arena(Action::new(f)), false),
        2 => (Act::Arc(ArcAction::new_unsync(f)), true),
        _ => (Act::Arena(Action::new_local(f)), true),
    };
    let pending = match &act {
        Act::Arc(a) => a.pending(),
        Act::Arena(a) => {
            let m = a.pending();
            ArcMemo::new(move |_| m.get())
        }
    };
    let base = exec::spawned();
    let mut handles: Vec<Option<ActionAbortHandle>> = vec![];
    let mut senders: Vec<Option<oneshot::Sender<i64>>> = vec![];
    let mut out = vec![];
    for ev in events.list() {
        let k = ev.at(1).num();
        let ku = k as usize;
        match ev.at(0).num() {
            0 => {
                let (tx, rx) = oneshot::channel();
                *slot.lock().unwrap() = Some(rx);
                let h = act.dispatch(local, k);
                handles.push(Some(h));
                senders.push(Some(tx));
                assert_eq!(exec::spawned() - base, handles.len(), "one task per dispatch");
            }
            1 => {
                if let Some(h) = handles.get_mut(ku).and_then(|h| h.take()) {
                    h.abort();
                }
            }
            2 => {
                if let Some(tx) = senders.get_mut(ku).and_then(|h| h.take()) {
                    let _ = tx.send(ev.at(2).num());
                }
            }
            3 => {
                if k >= 0 && ku < handles.len() {
                    exec::poll(base + ku);
                }
            }
            4 => act.clear(),
            5 => {
                exec::run_all(&ev.at(1).nums(), 10_000);
            }
            6 => {
                if let Some(h) = handles.get_mut(ku) {
                    drop(h.take());
                }
            }
            _ => {}
        }
        let mut o = act.obs(&pending);
        o.push(Sexp::bool(exec::ready().is_empty()));
        out.push(Lst(o));
    }
    // keep the senders alive until the tasks are gone
    exec::reset();
    drop(senders);
    Lst(out)
}

fn multi(events: &Sexp) -> Sexp {
    let slot: Slot = Arc::new(Mutex::new(None));
    let f = {
        let slot = slot.clone();
        move |_inp: &i64| {
            let rx = slot.lock().unwrap().take().expect("one receiver per dispatch");
            async move { rx.await.unwrap_or(-1) }
        }
    };
    let act: ArcMultiAction<i64, i64> = ArcMultiAction::new(f);
    let base = exec::spawned();
    let mut senders: Vec<Option<oneshot::Sender<i64>>> = vec![];
    // task index of each submission (dispatch_sync spawns nothing)
    let mut task_of: Vec<Option<usize>> = vec![];
    let mut out = vec![];
    for ev in events.list() {
        let k = ev.at(1).num();
        let ku = k as usize;
        match ev.at(0).num() {
            0 => {
                let (tx, rx) = oneshot::channel();
                *slot.lock().unwrap() = Some(rx);
                let before = exec::spawned();
                act.dispatch(k);
                assert_eq!(exec::spawned(), before + 1, "one task per dispatch");
                task_of.push(Some(before));
                senders.push(Some(tx));
            }
            1 => {
                let subs = act.submissions().get_untracked();
                if let Some(s) = subs.get(ku) {
                    s.cancel();
                }
            }
            2 => {
                if let Some(tx) = senders.get_mut(ku).and_then(|h| h.take()) {
                    let _ = tx.send(ev.at(2).num());
                }
            }
            3 => {
                if let Some(Some(t)) = task_of.get(ku) {
                    exec::poll(*t);
                }
            }
            5 => {
                exec::run_all(&ev.at(1).nums(), 10_000);
            }
            7 => {
                act.dispatch_sync(k);
                task_of.push(None);
                senders.push(None);
            }
            _ => {}
        }
        let _ = base;
        let subs: Vec<ArcSubmission<i64, i64>> = act.submissions().get_untracked();
        let recs = subs
            .iter()
            .map(|s| {
                Lst(vec![
                    opt(s.input().get_untracked()),
                    opt(s.value().get_untracked()),
                    Sexp::bool(s.pending().get_untracked()),
                    Sexp::bool(s.canceled().get_untracked()),
                ])
            })
            .collect();
        out.push(Lst(vec![
            Num(act.version().get_untracked() as i64),
            Lst(recs),
            Sexp::bool(exec::ready().is_empty()),
        ]));
    }
    exec::reset();
    drop(senders);
    Lst(out)
}
