//! C17 — action state reflects its dispatch history under any completion order.
//!
//! case `(0 variant events [restore])`: one `ArcAction`/`Action` (variants 0..3) or leptos_server
//! `ArcServerAction`/`ServerAction` over a mock server function (variants 4, 5; dispatched through
//! the wrapper's own methods), whose futures are oneshot receivers completed by the schedule;
//! restore `(p r)`: variants 0..3 with p = 1 are built by the `…_with_value(Some(r), …)`
//! constructors; variants 4, 5 are created under an owner providing a `ServerActionError`
//! (p = 1: for the server function's path, the payload being the URL encoding of
//! `Err(ServerError(r))` produced by `ServerFnUrlError::to_url`; p = 2: same path, undecodable
//! payload; p = 0: another path), the way the router restores a failed no-JS form post;
//! case `(1 events [mv])`: one `ArcMultiAction` (mv 0), `ArcServerMultiAction` (1) or
//! `ServerMultiAction` (2). For the server wrappers a negative result is an `Err(..)`.
//! The observation is one entry per event: the action's public state after the event.
use crate::{
    exec,
    srvfn::{self, of_res, to_res, Call, Res},
};
use futures::channel::oneshot;
use leptos_server::{
    ArcServerAction, ArcServerMultiAction, ServerAction, ServerActionError, ServerMultiAction,
};
use reactive_graph::{
    actions::{Action, ActionAbortHandle, ArcAction, ArcMultiAction, ArcSubmission},
    computed::ArcMemo,
    owner::{provide_context, Owner},
    traits::{Get, GetUntracked},
};
use std::sync::{Arc, Mutex};
use vsexp::{Lst, Num, Sexp};

type Slot = Arc<Mutex<Option<oneshot::Receiver<i64>>>>;

enum Act {
    Arc(ArcAction<i64, i64>),
    Arena(Action<i64, i64>),
    SrvArc(ArcServerAction<Call>),
    Srv(ServerAction<Call>),
}

impl Act {
    fn dispatch(&self, local: bool, i: i64, rx: &mut Option<oneshot::Receiver<i64>>) -> ActionAbortHandle {
        match (self, local) {
            (Act::Arc(a), false) => a.dispatch(i),
            (Act::Arc(a), true) => a.dispatch_local(i),
            (Act::Arena(a), false) => a.dispatch(i),
            (Act::Arena(a), true) => a.dispatch_local(i),
            // the wrapper's own method (whatever it resolves to: inherent or through Deref)
            (Act::SrvArc(a), _) => a.dispatch(srvfn::prepare(i, rx.take().unwrap())),
            (Act::Srv(a), _) => a.dispatch(srvfn::prepare(i, rx.take().unwrap())),
        }
    }
    fn clear(&self) {
        match self {
            Act::Arc(a) => a.clear(),
            Act::Arena(a) => a.clear(),
            Act::SrvArc(a) => a.clear(),
            Act::Srv(a) => a.clear(),
        }
    }
    fn obs(&self, pending: &ArcMemo<bool>) -> Vec<Sexp> {
        let (ver, val, inp) = match self {
            Act::Arc(a) => (
                a.version().get_untracked(),
                a.value().get_untracked(),
                a.input().get_untracked(),
            ),
            Act::Arena(a) => (
                a.version().get_untracked(),
                a.value().get_untracked(),
                a.input().get_untracked(),
            ),
            Act::SrvArc(a) => (
                a.version().get_untracked(),
                a.value().get_untracked().map(|r| of_res(&r)),
                a.input().get_untracked().map(|c| c.0),
            ),
            Act::Srv(a) => (
                a.version().get_untracked(),
                a.value().get_untracked().map(|r| of_res(&r)),
                a.input().get_untracked().map(|c| c.0),
            ),
        };
        vec![
            Sexp::bool(pending.get_untracked()),
            Num(ver as i64),
            opt(val),
            opt(inp),
        ]
    }
}

fn opt(v: Option<i64>) -> Sexp {
    match v {
        None => Lst(vec![]),
        Some(x) => Lst(vec![Num(x)]),
    }
}

pub fn reset() {
    exec::reset();
    srvfn::reset();
}

pub fn run(c: &Sexp) -> Sexp {
    reset();
    let owner = Owner::new();
    let out = owner.with(|| match c.at(0).num() {
        0 => single(c.at(1).num(), c.at(2), c.at(3)),
        1 => multi(c.at(1), c.at(2).num()),
        _ => Lst(vec![]),
    });
    exec::reset();
    drop(owner);
    out
}

/// what the server puts in the URL for a failed form post, and the router reads back
fn url_error(path: &str, r: i64) -> (String, String) {
    use server_fn::error::ServerFnUrlError;
    let e = ServerFnUrlError::new(path, to_res(r).unwrap_err());
    let url = e.to_url("http://localhost/page").expect("a URL");
    let get = |key: &str| {
        url.query_pairs()
            .find(|(k, _)| k == key)
            .map(|(_, v)| v.to_string())
            .expect("the error is in the query")
    };
    (get("__path"), get("__err"))
}

fn single(variant: i64, events: &Sexp, restore: &Sexp) -> Sexp {
    let rp = restore.list().first().map(|x| x.num());
    let rv = restore.at(1).num();
    let v0 = if rp == Some(1) { Some(rv) } else { None };
    let slot: Slot = Arc::new(Mutex::new(None));
    let f = {
        let slot = slot.clone();
        move |_inp: &i64| {
            let rx = slot.lock().unwrap().take().expect("one receiver per dispatch");
            async move { rx.await.unwrap_or(-1) }
        }
    };
    let scope = Owner::new();
    if variant >= 4 {
        use server_fn::ServerFn;
        match rp {
            Some(1) => {
                let (path, err) = url_error(Call::PATH, rv);
                scope.with(|| provide_context(ServerActionError::new(&path, &err)));
            }
            Some(2) => scope.with(|| provide_context(ServerActionError::new(Call::PATH, "%%not base64%%"))),
            Some(_) => {
                let (_, err) = url_error("/api/other", -7);
                scope.with(|| provide_context(ServerActionError::new("/api/other", &err)));
            }
            None => {}
        }
    }
    let (act, local) = scope.with(|| match (variant, v0) {
        (0, None) => (Act::Arc(ArcAction::new(f)), false),
        (0, v) => (Act::Arc(ArcAction::new_with_value(v, f)), false),
        (1, None) => (Act::Arena(Action::new(f)), false),
        (1, v) => (Act::Arena(Action::new_with_value(v, f)), false),
        (2, None) => (Act::Arc(ArcAction::new_unsync(f)), true),
        (2, v) => (Act::Arc(ArcAction::new_unsync_with_value(v, f)), true),
        (3, None) => (Act::Arena(Action::new_local(f)), true),
        (3, v) => (Act::Arena(Action::new_local_with_value(v, f)), true),
        (4, _) => (Act::SrvArc(ArcServerAction::new()), false),
        _ => (Act::Srv(ServerAction::new()), false),
    });
    let server = variant >= 4;
    let pending = match &act {
        Act::Arc(a) => a.pending(),
        Act::SrvArc(a) => a.pending(),
        Act::Arena(a) => {
            let m = a.pending();
            ArcMemo::new(move |_| m.get())
        }
        Act::Srv(a) => {
            let m = a.pending();
            ArcMemo::new(move |_| m.get())
        }
    };
    let base = exec::spawned();
    let mut handles: Vec<Option<ActionAbortHandle>> = vec![];
    let mut senders: Vec<Option<oneshot::Sender<i64>>> = vec![];
    let mut out = vec![];
    for ev in events.list() {
        let k = ev.at(1).num();
        let ku = k as usize;
        match ev.at(0).num() {
            0 => {
                let (tx, rx) = oneshot::channel();
                let mut rx = Some(rx);
                if !server {
                    *slot.lock().unwrap() = rx.take();
                }
                let h = act.dispatch(local, k, &mut rx);
                handles.push(Some(h));
                senders.push(Some(tx));
                assert_eq!(exec::spawned() - base, handles.len(), "one task per dispatch");
            }
            1 => {
                if let Some(h) = handles.get_mut(ku).and_then(|h| h.take()) {
                    h.abort();
                }
            }
            2 => {
                if let Some(tx) = senders.get_mut(ku).and_then(|h| h.take()) {
                    let _ = tx.send(ev.at(2).num());
                }
            }
            3 => {
                if k >= 0 && ku < handles.len() {
                    exec::poll(base + ku);
                }
            }
            4 => act.clear(),
            5 => {
                exec::run_all(&ev.at(1).nums(), 10_000);
            }
            6 => {
                if let Some(h) = handles.get_mut(ku) {
                    drop(h.take());
                }
            }
            _ => {}
        }
        let mut o = act.obs(&pending);
        o.push(Sexp::bool(exec::ready().is_empty()));
        out.push(Lst(o));
    }
    // keep the senders alive until the tasks are gone
    exec::reset();
    drop(senders);
    Lst(out)
}

enum MAct {
    Plain(ArcMultiAction<i64, i64>),
    SrvArc(ArcServerMultiAction<Call>),
    Srv(ServerMultiAction<Call>),
}

impl MAct {
    fn dispatch(&self, i: i64, rx: &mut Option<oneshot::Receiver<i64>>) {
        match self {
            MAct::Plain(a) => a.dispatch(i),
            MAct::SrvArc(a) => a.dispatch(srvfn::prepare(i, rx.take().unwrap())),
            MAct::Srv(a) => a.dispatch(srvfn::prepare(i, rx.take().unwrap())),
        }
    }
    fn dispatch_sync(&self, v: i64) {
        match self {
            MAct::Plain(a) => a.dispatch_sync(v),
            MAct::SrvArc(a) => a.dispatch_sync(to_res(v)),
            MAct::Srv(a) => a.dispatch_sync(to_res(v)),
        }
    }
    fn cancel(&self, k: usize) {
        match self {
            MAct::Plain(a) => {
                if let Some(s) = a.submissions().get_untracked().get(k) {
                    s.cancel()
                }
            }
            MAct::SrvArc(a) => {
                if let Some(s) = a.submissions().get_untracked().get(k) {
                    s.cancel()
                }
            }
            MAct::Srv(a) => {
                if let Some(s) = a.submissions().get_untracked().get(k) {
                    s.cancel()
                }
            }
        }
    }
    fn version(&self) -> usize {
        match self {
            MAct::Plain(a) => a.version().get_untracked(),
            MAct::SrvArc(a) => a.version().get_untracked(),
            MAct::Srv(a) => a.version().get_untracked(),
        }
    }
    fn records(&self) -> Vec<Sexp> {
        fn rec(inp: Option<i64>, val: Option<i64>, p: bool, c: bool) -> Sexp {
            Lst(vec![opt(inp), opt(val), Sexp::bool(p), Sexp::bool(c)])
        }
        fn srv(subs: Vec<ArcSubmission<Call, Res>>) -> Vec<Sexp> {
            subs.iter()
                .map(|s| {
                    rec(
                        s.input().get_untracked().map(|c| c.0),
                        s.value().get_untracked().map(|r| of_res(&r)),
                        s.pending().get_untracked(),
                        s.canceled().get_untracked(),
                    )
                })
                .collect()
        }
        match self {
            MAct::Plain(a) => a
                .submissions()
                .get_untracked()
                .iter()
                .map(|s| {
                    rec(
                        s.input().get_untracked(),
                        s.value().get_untracked(),
                        s.pending().get_untracked(),
                        s.canceled().get_untracked(),
                    )
                })
                .collect(),
            MAct::SrvArc(a) => srv(a.submissions().get_untracked()),
            MAct::Srv(a) => srv(a.submissions().get_untracked()),
        }
    }
}

fn multi(events: &Sexp, mv: i64) -> Sexp {
    let slot: Slot = Arc::new(Mutex::new(None));
    let f = {
        let slot = slot.clone();
        move |_inp: &i64| {
            let rx = slot.lock().unwrap().take().expect("one receiver per dispatch");
            async move { rx.await.unwrap_or(-1) }
        }
    };
    let act = match mv {
        1 => MAct::SrvArc(ArcServerMultiAction::new()),
        2 => MAct::Srv(ServerMultiAction::new()),
        _ => MAct::Plain(ArcMultiAction::new(f)),
    };
    let server = mv == 1 || mv == 2;
    let mut senders: Vec<Option<oneshot::Sender<i64>>> = vec![];
    // task index of each submission (dispatch_sync spawns nothing)
    let mut task_of: Vec<Option<usize>> = vec![];
    let mut out = vec![];
    for ev in events.list() {
        let k = ev.at(1).num();
        let ku = k as usize;
        match ev.at(0).num() {
            0 => {
                let (tx, rx) = oneshot::channel();
                let mut rx = Some(rx);
                if !server {
                    *slot.lock().unwrap() = rx.take();
                }
                let before = exec::spawned();
                act.dispatch(k, &mut rx);
                assert_eq!(exec::spawned(), before + 1, "one task per dispatch");
                task_of.push(Some(before));
                senders.push(Some(tx));
            }
            1 => act.cancel(ku),
            2 => {
                if let Some(tx) = senders.get_mut(ku).and_then(|h| h.take()) {
                    let _ = tx.send(ev.at(2).num());
                }
            }
            3 => {
                if let Some(Some(t)) = task_of.get(ku) {
                    exec::poll(*t);
                }
            }
            5 => {
                exec::run_all(&ev.at(1).nums(), 10_000);
            }
            7 => {
                act.dispatch_sync(k);
                task_of.push(None);
                senders.push(None);
            }
            _ => {}
        }
        out.push(Lst(vec![
            Num(act.version() as i64),
            Lst(act.records()),
            Sexp::bool(exec::ready().is_empty()),
        ]));
    }
    exec::reset();
    drop(senders);
    Lst(out)
}
