//! C17 — action state reflects its dispatch history under any completion order.
//!
//! case `(0 variant events [restore])`: one `ArcAction`/`Action` (variants 0..3) or leptos_server
//! `ArcServerAction`/`ServerAction` over a mock server function (variants 4, 5; dispatched through
//! the wrapper's own methods), whose futures are oneshot receivers completed by the schedule;
//! restore `(p r)`: variants 0..3 with p = 1 are built by the `…_with_value(Some(r), …)`
//! constructors; variants 4, 5 are created under an owner providing a `ServerActionError`
//! (p = 1: for the server function's path, the payload being the URL encoding of
//! `Err(ServerError(r))` produced by `ServerFnUrlError::to_url`; p = 2: same path, undecodable
//! payload; p = 0: another path), the way the router restores a failed no-JS form post;
//! case `(1 events [mv])`: one `ArcMultiAction` (mv 0), `ArcServerMultiAction` (1) or
//! `ServerMultiAction` (2). For the server wrappers a negative result is an `Err(..)`.
//! The observation is one entry per event: the action's public state after the event.
use crate::{
    exec,
    srvfn::{self, of_res, to_res, Call, Res},
};
use futures::channel::oneshot;
use leptos_server::{
    ArcServerAction, ArcServerMultiAction, ServerAction, ServerActionError, ServerMultiAction,
};
use reactive_graph::{
    actions::{
        Action, ActionAbortHandle, ArcAction, ArcMultiAction, ArcSubmission, MultiAction, Submission,
    },
    computed::ArcMemo,
    effect::ImmediateEffect,
    owner::{provide_context, Owner},
    traits::{Get, GetUntracked},
};
use std::sync::{Arc, Mutex};
use vsexp::{Lst, Num, Sexp};

type Slot = Arc<Mutex<Option<oneshot::Receiver<i64>>>>;

/// dispatch handles and result senders, in dispatch order (also the dispatches a synchronous
/// observer makes from inside a notification)
#[derive(Default)]
struct Rt {
    handles: Vec<Option<ActionAbortHandle>>,
    senders: Vec<Option<oneshot::Sender<i64>>>,
}
thread_local! {
    static RT: std::cell::RefCell<Rt> = Default::default();
}

#[derive(Clone)]
enum Act {
    Arc(ArcAction<i64, i64>),
    Arena(Action<i64, i64>),
    SrvArc(ArcServerAction<Call>),
    Srv(ServerAction<Call>),
    /// `Action::from(ServerAction)`: the plain arena action inside the wrapper
    SrvPlain(Action<Call, Res>),
}

/// what a reader sees: (pending, version, value, input)
type View = (bool, usize, Option<i64>, Option<i64>);
struct Tracked(ArcMemo<bool>, ArcMemo<usize>, ArcMemo<Option<i64>>, ArcMemo<Option<i64>>);
impl Tracked {
    fn view(&self) -> View {
        (
            self.0.get_untracked(),
            self.1.get_untracked(),
            self.2.get_untracked(),
            self.3.get_untracked(),
        )
    }
}

impl Act {
    /// read one field tracked (inside the observer): 0 version, 1 value, 2 input
    fn track(&self, field: i64) {
        macro_rules! tr {
            ($a:expr) => {
                match field {
                    0 => {
                        let _ = $a.version().get();
                    }
                    1 => {
                        let _ = $a.value().get();
                    }
                    _ => {
                        let _ = $a.input().get();
                    }
                }
            };
        }
        match self {
            Act::Arc(a) => tr!(a),
            Act::Arena(a) => tr!(a),
            Act::SrvArc(a) => tr!(a),
            Act::Srv(a) => tr!(a),
            Act::SrvPlain(a) => tr!(a),
        }
    }
    /// a dispatch whose handle and sender are recorded under the next dispatch number
    fn dispatch_recorded(&self, slot: &Slot, server: bool, local: bool, i: i64) {
        let (tx, rx) = oneshot::channel();
        let mut rx = Some(rx);
        if !server {
            *slot.lock().unwrap() = rx.take();
        }
        let h = self.dispatch(local, i, &mut rx);
        RT.with(|r| {
            let mut r = r.borrow_mut();
            r.handles.push(Some(h));
            r.senders.push(Some(tx));
        });
    }
    fn dispatch(&self, local: bool, i: i64, rx: &mut Option<oneshot::Receiver<i64>>) -> ActionAbortHandle {
        match (self, local) {
            (Act::Arc(a), false) => a.dispatch(i),
            (Act::Arc(a), true) => a.dispatch_local(i),
            (Act::Arena(a), false) => a.dispatch(i),
            (Act::Arena(a), true) => a.dispatch_local(i),
            // the wrapper's own method (whatever it resolves to: inherent or through Deref)
            (Act::SrvArc(a), _) => a.dispatch(srvfn::prepare(i, rx.take().unwrap())),
            (Act::Srv(a), _) => a.dispatch(srvfn::prepare(i, rx.take().unwrap())),
            (Act::SrvPlain(a), _) => a.dispatch(srvfn::prepare(i, rx.take().unwrap())),
        }
    }
    fn clear(&self) {
        match self {
            Act::Arc(a) => a.clear(),
            Act::Arena(a) => a.clear(),
            Act::SrvArc(a) => a.clear(),
            Act::Srv(a) => a.clear(),
            Act::SrvPlain(a) => a.clear(),
        }
    }
    /// four memos that read pending / version / value / input *tracked*, the way an effect or a
    /// view reading just that one would: each only changes when its signal notifies its subscribers
    fn tracked(&self, local: bool) -> Tracked {
        macro_rules! four {
            ($p:expr, $v:expr, $val:expr, $inp:expr, $fv:expr, $fi:expr) => {{
                let (p, v, val, inp) = ($p, $v, $val, $inp);
                Tracked(
                    ArcMemo::new(move |_| p.get()),
                    ArcMemo::new(move |_| v.get()),
                    ArcMemo::new(move |_| val.get().map($fv)),
                    ArcMemo::new(move |_| inp.get().map($fi)),
                )
            }};
        }
        #[allow(deprecated)]
        let m = match self {
            Act::Arc(a) => four!(a.pending(), a.version(), a.value(), a.input(), |x| x, |x| x),
            // the deprecated `_local` accessors are still public API
            Act::Arena(a) if local => {
                four!(a.pending(), a.version(), a.value_local(), a.input_local(), |x| x, |x| x)
            }
            Act::Arena(a) => four!(a.pending(), a.version(), a.value(), a.input(), |x| x, |x| x),
            Act::SrvArc(a) => {
                four!(a.pending(), a.version(), a.value(), a.input(), |r| of_res(&r), |c: Call| c.0)
            }
            Act::Srv(a) => {
                four!(a.pending(), a.version(), a.value(), a.input(), |r| of_res(&r), |c: Call| c.0)
            }
            Act::SrvPlain(a) => {
                four!(a.pending(), a.version(), a.value(), a.input(), |r| of_res(&r), |c: Call| c.0)
            }
        };
        let _ = m.view(); // first evaluation: subscribes
        m
    }
    fn obs(&self, pending: &ArcMemo<bool>, tracked: &Tracked) -> Vec<Sexp> {
        let (ver, val, inp) = match self {
            Act::Arc(a) => (
                a.version().get_untracked(),
                a.value().get_untracked(),
                a.input().get_untracked(),
            ),
            Act::Arena(a) => (
                a.version().get_untracked(),
                a.value().get_untracked(),
                a.input().get_untracked(),
            ),
            Act::SrvArc(a) => (
                a.version().get_untracked(),
                a.value().get_untracked().map(|r| of_res(&r)),
                a.input().get_untracked().map(|c| c.0),
            ),
            Act::Srv(a) => (
                a.version().get_untracked(),
                a.value().get_untracked().map(|r| of_res(&r)),
                a.input().get_untracked().map(|c| c.0),
            ),
            Act::SrvPlain(a) => (
                a.version().get_untracked(),
                a.value().get_untracked().map(|r| of_res(&r)),
                a.input().get_untracked().map(|c| c.0),
            ),
        };
        let direct: View = (pending.get_untracked(), ver, val, inp);
        let seen = tracked.view();
        assert_eq!(
            seen, direct,
            "tracking readers of (pending, version, value, input) were not all notified: they see the left tuple"
        );
        vec![
            Sexp::bool(pending.get_untracked()),
            Num(ver as i64),
            opt(val),
            opt(inp),
        ]
    }
}

fn opt(v: Option<i64>) -> Sexp {
    match v {
        None => Lst(vec![]),
        Some(x) => Lst(vec![Num(x)]),
    }
}

pub fn reset() {
    exec::reset();
    srvfn::reset();
    let old = RT.with(|r| std::mem::take(&mut *r.borrow_mut()));
    drop(old);
}

pub fn run(c: &Sexp) -> Sexp {
    reset();
    let owner = Owner::new();
    let out = owner.with(|| match c.at(0).num() {
        0 => single(c.at(1).num(), c.at(2), c.at(3), c.at(4)),
        1 => multi(c.at(1), c.at(2).num()),
        _ => Lst(vec![]),
    });
    exec::reset();
    drop(owner);
    out
}

/// what the server puts in the URL for a failed form post, and the router reads back
fn url_error(path: &str, r: i64) -> (String, String) {
    use server_fn::error::ServerFnUrlError;
    let e = ServerFnUrlError::new(path, to_res(r).unwrap_err());
    let url = e.to_url("http://localhost/page").expect("a URL");
    let get = |key: &str| {
        url.query_pairs()
            .find(|(k, _)| k == key)
            .map(|(_, v)| v.to_string())
            .expect("the error is in the query")
    };
    (get("__path"), get("__err"))
}

fn abort_recorded(k: usize) {
    let h = RT.with(|r| r.borrow_mut().handles.get_mut(k).and_then(|h| h.take()));
    if let Some(h) = h {
        h.abort();
    }
}

fn single(variant: i64, events: &Sexp, restore: &Sexp, observer: &Sexp) -> Sexp {
    RT.with(|r| *r.borrow_mut() = Rt::default());
    let rp = restore.list().first().map(|x| x.num());
    let rv = restore.at(1).num();
    let v0 = if rp == Some(1) { Some(rv) } else { None };
    let slot: Slot = Arc::new(Mutex::new(None));
    let f = {
        let slot = slot.clone();
        move |_inp: &i64| {
            let rx = slot.lock().unwrap().take().expect("one receiver per dispatch");
            async move { rx.await.unwrap_or(-1) }
        }
    };
    let scope = Owner::new();
    let server = matches!(variant, 4 | 5 | 9 | 10 | 11);
    if server {
        use server_fn::ServerFn;
        match rp {
            Some(1) => {
                let (path, err) = url_error(Call::PATH, rv);
                scope.with(|| provide_context(ServerActionError::new(&path, &err)));
            }
            Some(2) => scope.with(|| provide_context(ServerActionError::new(Call::PATH, "%%not base64%%"))),
            Some(_) => {
                let (_, err) = url_error("/api/other", -7);
                scope.with(|| provide_context(ServerActionError::new("/api/other", &err)));
            }
            None => {}
        }
    }
    let (act, local) = scope.with(|| match (variant, v0) {
        (0, None) => (Act::Arc(ArcAction::new(f)), false),
        (0, v) => (Act::Arc(ArcAction::new_with_value(v, f)), false),
        (1, None) => (Act::Arena(Action::new(f)), false),
        (1, v) => (Act::Arena(Action::new_with_value(v, f)), false),
        (2, None) => (Act::Arc(ArcAction::new_unsync(f)), true),
        (2, v) => (Act::Arc(ArcAction::new_unsync_with_value(v, f)), true),
        (3, None) => (Act::Arena(Action::new_local(f)), true),
        (3, v) => (Act::Arena(Action::new_local_with_value(v, f)), true),
        (4, _) => (Act::SrvArc(ArcServerAction::new()), false),
        (5, _) => (Act::Srv(ServerAction::new()), false),
        (6, None) => (Act::Arena(Action::new_unsync(f)), true),
        (6, v) => (Act::Arena(Action::new_unsync_with_value(v, f)), true),
        (7, None) => (Act::Arena(Action::new_unsync_local(f)), true),
        (7, v) => (Act::Arena(Action::new_unsync_local_with_value(v, f)), true),
        #[allow(deprecated)]
        (8, _) => (Act::Arena(reactive_graph::actions::create_action(f)), false),
        (9, _) => (Act::SrvPlain(ServerAction::<Call>::new().into()), false),
        (10, _) => (Act::SrvArc(Default::default()), false),
        _ => (Act::Srv(Default::default()), false),
    });
    let pending = match &act {
        Act::Arc(a) => a.pending(),
        Act::SrvArc(a) => a.pending(),
        Act::Arena(a) => {
            let m = a.pending();
            ArcMemo::new(move |_| m.get())
        }
        Act::Srv(a) => {
            let m = a.pending();
            ArcMemo::new(move |_| m.get())
        }
        Act::SrvPlain(a) => {
            let m = a.pending();
            ArcMemo::new(move |_| m.get())
        }
    };
    let tracked = act.tracked(local);
    let base = exec::spawned();
    // observer `(field action arg budget)`: an ImmediateEffect that reads one field of the action
    // and, each time that field is published (up to `budget` times), dispatches `arg` to /
    // aborts dispatch `arg` of the SAME action from inside the notification
    let armed = Arc::new(std::sync::atomic::AtomicBool::new(false));
    let _observer = if observer.list().len() == 4 {
        let (field, oact, arg) = (observer.at(0).num(), observer.at(1).num(), observer.at(2).num());
        let budget = Arc::new(std::sync::atomic::AtomicI64::new(observer.at(3).num()));
        let (act2, slot2, armed2) = (act.clone(), slot.clone(), armed.clone());
        use std::sync::atomic::Ordering::SeqCst;
        let e = ImmediateEffect::new(move || {
            act2.track(field);
            if armed2.load(SeqCst) && budget.load(SeqCst) > 0 {
                budget.fetch_sub(1, SeqCst);
                if oact == 0 {
                    act2.dispatch_recorded(&slot2, server, local, arg);
                } else {
                    abort_recorded(arg as usize);
                }
            }
        });
        armed.store(true, SeqCst);
        Some(e)
    } else {
        None
    };
    let n_handles = || RT.with(|r| r.borrow().handles.len());
    let mut out = vec![];
    for ev in events.list() {
        let k = ev.at(1).num();
        let ku = k as usize;
        match ev.at(0).num() {
            0 => {
                act.dispatch_recorded(&slot, server, local, k);
                assert_eq!(exec::spawned() - base, n_handles(), "one task per dispatch");
            }
            1 => abort_recorded(ku),
            2 => {
                let tx = RT.with(|r| r.borrow_mut().senders.get_mut(ku).and_then(|h| h.take()));
                if let Some(tx) = tx {
                    let _ = tx.send(ev.at(2).num());
                }
            }
            3 => {
                if k >= 0 && ku < n_handles() {
                    exec::poll(base + ku);
                    assert_eq!(exec::spawned() - base, n_handles(), "one task per dispatch");
                }
            }
            4 => act.clear(),
            5 => {
                exec::run_all(&ev.at(1).nums(), 10_000);
            }
            6 => {
                let h = RT.with(|r| r.borrow_mut().handles.get_mut(ku).and_then(|h| h.take()));
                drop(h);
            }
            8 => {
                // a dispatch while resource loads are suppressed (what leptos does while it
                // renders a view only to discard it): nothing runs, nothing changes
                let (_tx, rx) = oneshot::channel::<i64>();
                let mut rx = Some(rx);
                let before = exec::spawned();
                reactive_graph::diagnostics::suppress_resource_load(true);
                let h = if server {
                    // the server function is not called either: no request is prepared
                    match &act {
                        Act::SrvArc(a) => a.dispatch(Call(k, u64::MAX)),
                        Act::Srv(a) => a.dispatch(Call(k, u64::MAX)),
                        Act::SrvPlain(a) => a.dispatch(Call(k, u64::MAX)),
                        _ => unreachable!(),
                    }
                } else {
                    act.dispatch(local, k, &mut rx)
                };
                reactive_graph::diagnostics::suppress_resource_load(false);
                assert_eq!(exec::spawned(), before, "a suppressed dispatch spawns nothing");
                h.abort();
            }
            _ => {}
        }
        let mut o = act.obs(&pending, &tracked);
        o.push(Sexp::bool(exec::ready().is_empty()));
        out.push(Lst(o));
    }
    // keep the senders alive until the tasks are gone
    exec::reset();
    drop(_observer);
    RT.with(|r| *r.borrow_mut() = Rt::default());
    Lst(out)
}

enum MAct {
    Plain(ArcMultiAction<i64, i64>),
    SrvArc(ArcServerMultiAction<Call>),
    Srv(ServerMultiAction<Call>),
    /// the arena handle; its submissions are read through the arena `Submission` type
    Arena(MultiAction<i64, i64>),
    /// `MultiAction::from(ServerMultiAction)`
    SrvPlain(MultiAction<Call, Res>),
}

/// (version, per submission (input, value, pending, canceled))
type MView = (usize, Vec<(Option<i64>, Option<i64>, bool, bool)>);
struct MTracked(
    ArcMemo<usize>,
    ArcMemo<Vec<Option<i64>>>,
    ArcMemo<Vec<Option<i64>>>,
    ArcMemo<Vec<bool>>,
    ArcMemo<Vec<bool>>,
);
impl MTracked {
    fn view(&self) -> MView {
        let (i, v, p, c) = (
            self.1.get_untracked(),
            self.2.get_untracked(),
            self.3.get_untracked(),
            self.4.get_untracked(),
        );
        let n = i.len().min(v.len()).min(p.len()).min(c.len());
        (
            self.0.get_untracked(),
            (0..n).map(|k| (i[k], v[k], p[k], c[k])).collect(),
        )
    }
}

impl MAct {
    fn dispatch(&self, i: i64, rx: &mut Option<oneshot::Receiver<i64>>) {
        match self {
            MAct::Plain(a) => a.dispatch(i),
            MAct::SrvArc(a) => a.dispatch(srvfn::prepare(i, rx.take().unwrap())),
            MAct::Srv(a) => a.dispatch(srvfn::prepare(i, rx.take().unwrap())),
            MAct::Arena(a) => a.dispatch(i),
            MAct::SrvPlain(a) => a.dispatch(srvfn::prepare(i, rx.take().unwrap())),
        }
    }
    /// a dispatch while resource loads are suppressed
    fn dispatch_suppressed(&self, i: i64) {
        match self {
            MAct::Plain(a) => a.dispatch(i),
            MAct::SrvArc(a) => a.dispatch(Call(i, u64::MAX)),
            MAct::Srv(a) => a.dispatch(Call(i, u64::MAX)),
            MAct::Arena(a) => a.dispatch(i),
            MAct::SrvPlain(a) => a.dispatch(Call(i, u64::MAX)),
        }
    }
    fn dispatch_sync(&self, v: i64) {
        match self {
            MAct::Plain(a) => a.dispatch_sync(v),
            MAct::SrvArc(a) => a.dispatch_sync(to_res(v)),
            MAct::Srv(a) => a.dispatch_sync(to_res(v)),
            MAct::Arena(a) => a.dispatch_sync(v),
            MAct::SrvPlain(a) => a.dispatch_sync(to_res(v)),
        }
    }
    fn cancel(&self, k: usize) {
        match self {
            MAct::Plain(a) => {
                if let Some(s) = a.submissions().get_untracked().get(k) {
                    s.cancel()
                }
            }
            MAct::SrvArc(a) => {
                if let Some(s) = a.submissions().get_untracked().get(k) {
                    s.cancel()
                }
            }
            MAct::Srv(a) => {
                if let Some(s) = a.submissions().get_untracked().get(k) {
                    s.cancel()
                }
            }
            MAct::Arena(a) => {
                if let Some(s) = a.submissions().get_untracked().get(k) {
                    Submission::from(s.clone()).cancel()
                }
            }
            MAct::SrvPlain(a) => {
                if let Some(s) = a.submissions().get_untracked().get(k) {
                    Submission::from(s.clone()).cancel()
                }
            }
        }
    }
    fn version(&self) -> usize {
        match self {
            MAct::Plain(a) => a.version().get_untracked(),
            MAct::SrvArc(a) => a.version().get_untracked(),
            MAct::Srv(a) => a.version().get_untracked(),
            MAct::Arena(a) => a.version().get_untracked(),
            MAct::SrvPlain(a) => a.version().get_untracked(),
        }
    }
    /// version and each field of the records, each read *tracked* inside a memo of its own (what a
    /// view iterating over the submissions and reading that field sees)
    fn tracked(&self) -> MTracked {
        macro_rules! five {
            ($a:expr, $fi:expr, $fv:expr) => {{
                let v = $a.version();
                let (s1, s2, s3, s4) = ($a.submissions(), $a.submissions(), $a.submissions(), $a.submissions());
                MTracked(
                    ArcMemo::new(move |_| v.get()),
                    ArcMemo::new(move |_| s1.get().iter().map(|s| s.input().get().map($fi)).collect()),
                    ArcMemo::new(move |_| s2.get().iter().map(|s| s.value().get().map($fv)).collect()),
                    ArcMemo::new(move |_| s3.get().iter().map(|s| s.pending().get()).collect()),
                    ArcMemo::new(move |_| s4.get().iter().map(|s| s.canceled().get()).collect()),
                )
            }};
        }
        let m = match self {
            MAct::Plain(a) => five!(a, |x| x, |x| x),
            MAct::SrvArc(a) => five!(a, |c: Call| c.0, |r| of_res(&r)),
            MAct::Srv(a) => five!(a, |c: Call| c.0, |r| of_res(&r)),
            MAct::Arena(a) => five!(a, |x| x, |x| x),
            MAct::SrvPlain(a) => five!(a, |c: Call| c.0, |r| of_res(&r)),
        };
        let _ = m.view();
        m
    }
    fn records(&self) -> Vec<Sexp> {
        fn rec(inp: Option<i64>, val: Option<i64>, p: bool, c: bool) -> Sexp {
            Lst(vec![opt(inp), opt(val), Sexp::bool(p), Sexp::bool(c)])
        }
        fn srv(subs: Vec<ArcSubmission<Call, Res>>) -> Vec<Sexp> {
            subs.iter()
                .map(|s| {
                    rec(
                        s.input().get_untracked().map(|c| c.0),
                        s.value().get_untracked().map(|r| of_res(&r)),
                        s.pending().get_untracked(),
                        s.canceled().get_untracked(),
                    )
                })
                .collect()
        }
        match self {
            MAct::Plain(a) => a
                .submissions()
                .get_untracked()
                .iter()
                .map(|s| {
                    rec(
                        s.input().get_untracked(),
                        s.value().get_untracked(),
                        s.pending().get_untracked(),
                        s.canceled().get_untracked(),
                    )
                })
                .collect(),
            MAct::SrvArc(a) => srv(a.submissions().get_untracked()),
            MAct::Srv(a) => srv(a.submissions().get_untracked()),
            // through the arena `Submission` handles
            MAct::Arena(a) => a
                .submissions()
                .get_untracked()
                .iter()
                .enumerate()
                .map(|(k, s)| {
                    if k % 2 == 1 {
                        // … or, every other one, through a LocalStorage `Submission`
                        use reactive_graph::owner::{FromLocal, LocalStorage};
                        let s = Submission::<i64, i64, LocalStorage>::from_local(s.clone());
                        return rec(
                            s.input().get_untracked(),
                            s.value().get_untracked(),
                            s.pending().get_untracked(),
                            s.canceled().get_untracked(),
                        );
                    }
                    let s = Submission::from(s.clone());
                    rec(
                        s.input().get_untracked(),
                        s.value().get_untracked(),
                        s.pending().get_untracked(),
                        s.canceled().get_untracked(),
                    )
                })
                .collect(),
            MAct::SrvPlain(a) => a
                .submissions()
                .get_untracked()
                .iter()
                .map(|s| {
                    let s = Submission::from(s.clone());
                    rec(
                        s.input().get_untracked().map(|c| c.0),
                        s.value().get_untracked().map(|r| of_res(&r)),
                        s.pending().get_untracked(),
                        s.canceled().get_untracked(),
                    )
                })
                .collect(),
        }
    }
}

fn multi(events: &Sexp, mv: i64) -> Sexp {
    let slot: Slot = Arc::new(Mutex::new(None));
    let f = {
        let slot = slot.clone();
        move |_inp: &i64| {
            let rx = slot.lock().unwrap().take().expect("one receiver per dispatch");
            async move { rx.await.unwrap_or(-1) }
        }
    };
    let act = match mv {
        1 => MAct::SrvArc(ArcServerMultiAction::new()),
        2 => MAct::Srv(ServerMultiAction::new()),
        3 => MAct::Arena(MultiAction::new(f)),
        4 => MAct::SrvPlain(ServerMultiAction::<Call>::new().into()),
        5 => MAct::SrvArc(Default::default()),
        6 => MAct::Srv(Default::default()),
        _ => MAct::Plain(ArcMultiAction::new(f)),
    };
    let server = matches!(mv, 1 | 2 | 4 | 5 | 6);
    let tracked = act.tracked();
    let mut senders: Vec<Option<oneshot::Sender<i64>>> = vec![];
    // task index of each submission (dispatch_sync spawns nothing)
    let mut task_of: Vec<Option<usize>> = vec![];
    let mut out = vec![];
    for ev in events.list() {
        let k = ev.at(1).num();
        let ku = k as usize;
        match ev.at(0).num() {
            0 => {
                let (tx, rx) = oneshot::channel();
                let mut rx = Some(rx);
                if !server {
                    *slot.lock().unwrap() = rx.take();
                }
                let before = exec::spawned();
                act.dispatch(k, &mut rx);
                assert_eq!(exec::spawned(), before + 1, "one task per dispatch");
                task_of.push(Some(before));
                senders.push(Some(tx));
            }
            1 => act.cancel(ku),
            2 => {
                if let Some(tx) = senders.get_mut(ku).and_then(|h| h.take()) {
                    let _ = tx.send(ev.at(2).num());
                }
            }
            3 => {
                if let Some(Some(t)) = task_of.get(ku) {
                    exec::poll(*t);
                }
            }
            5 => {
                exec::run_all(&ev.at(1).nums(), 10_000);
            }
            7 => {
                act.dispatch_sync(k);
                task_of.push(None);
                senders.push(None);
            }
            8 => {
                let before = exec::spawned();
                reactive_graph::diagnostics::suppress_resource_load(true);
                act.dispatch_suppressed(k);
                reactive_graph::diagnostics::suppress_resource_load(false);
                assert_eq!(exec::spawned(), before, "a suppressed dispatch spawns nothing");
            }
            _ => {}
        }
        let recs = act.records();
        let seen = tracked.view();
        let seen_s: Vec<Sexp> = seen
            .1
            .iter()
            .map(|(i, v, p, c)| Lst(vec![opt(*i), opt(*v), Sexp::bool(*p), Sexp::bool(*c)]))
            .collect();
        assert!(
            seen.0 == act.version() && seen_s == recs,
            "a tracking reader of the submissions was not notified: it sees version {} and {} while a direct read gives version {} and {}",
            seen.0,
            Lst(seen_s.clone()),
            act.version(),
            Lst(recs.clone())
        );
        out.push(Lst(vec![
            Num(act.version() as i64),
            Lst(recs),
            Sexp::bool(exec::ready().is_empty()),
        ]));
    }
    exec::reset();
    drop(senders);
    Lst(out)
}
