//! Harness for C17 (actions), C08 (owners/arena) and C10 (async derived values):
//! `h_rx2 c17|c08|c10` read one case per line on stdin and print one observation per line.
mod c08;
mod c10;
mod c17;
mod exec;
mod srvfn;

fn main() {
    let sub = std::env::args().nth(1).unwrap_or_default();
    exec::init();
    match sub.as_str() {
        "c17" => vsexp::drive(c17::run),
        "c08" => vsexp::drive(c08::run),
        "c10" => vsexp::drive(c10::run),
        _ => {
            eprintln!("usage: h_rx2 c17|c08|c10");
            std::process::exit(2)
        }
    }
}
