//! Harness for C17 (actions), C08 (owners/arena) and C10 (async derived values):
//! `h_rx2 c17|c08|c10` read one case per line on stdin and print one observation per line.
//!
//! Every case runs on its own fresh thread (fresh thread-local state: harness context, executor
//! queue, reactive_graph's current owner / observer) under a watchdog: a case that does not
//! answer within `VERIF_CASE_TIMEOUT_MS` (default 5000) is reported as `!hang …`. A stuck thread
//! cannot be killed and may hold a process-wide lock (a case that deadlocks on the arena lock
//! blocks every later case), so after a hang the process replaces itself (`exec` of its own
//! binary, same stdin / stdout: stdin is read without read-ahead for that reason) and goes on with
//! the next case in a clean address space. `H_RX2_HANGS` carries the number of hangs so far across
//! the restarts: from the third one on the watchdog is a tenth of the limit, so that a change
//! making most cases hang does not take hours. If `exec` fails the stuck thread is leaked and the
//! next case runs on a new thread. A panic is reported as `!panic …`.
mod c08;
mod c10;
mod c17;
mod exec;
mod srvfn;

use std::{
    io::Write,
    panic::{catch_unwind, AssertUnwindSafe},
    sync::mpsc,
    time::{Duration, Instant},
};
use vsexp::Sexp;

fn panic_msg(e: Box<dyn std::any::Any + Send>) -> String {
    let msg = e
        .downcast_ref::<String>()
        .cloned()
        .or_else(|| e.downcast_ref::<&str>().map(|s| s.to_string()))
        .unwrap_or_default();
    format!("!panic {}", msg.replace('\n', " "))
}

/// one line from fd 0, read byte by byte: nothing beyond the line is consumed, so that a
/// restarted process finds the remaining cases on the same stdin
fn read_line() -> Option<String> {
    use std::io::Read;
    use std::os::fd::FromRawFd;
    let mut f = std::mem::ManuallyDrop::new(unsafe { std::fs::File::from_raw_fd(0) });
    let mut line = vec![];
    let mut b = [0u8; 1];
    loop {
        match f.read(&mut b) {
            Ok(0) => break,
            Ok(_) if b[0] == b'\n' => return Some(String::from_utf8_lossy(&line).into_owned()),
            Ok(_) => line.push(b[0]),
            Err(e) if e.kind() == std::io::ErrorKind::Interrupted => {}
            Err(_) => break,
        }
    }
    if line.is_empty() {
        None
    } else {
        Some(String::from_utf8_lossy(&line).into_owned())
    }
}

/// replace this process (and its stuck thread) by a fresh one that continues with the next case
fn restart(hangs: u32) {
    use std::os::unix::process::CommandExt;
    if let Ok(exe) = std::env::current_exe() {
        let _err = std::process::Command::new(exe)
            .args(std::env::args_os().skip(1))
            .env("H_RX2_HANGS", hangs.to_string())
            .exec();
    }
}

/// same contract as `vsexp::drive` (one line per case, flushed at once), plus the watchdog
fn drive(f: fn(&Sexp) -> Sexp, reset: fn()) {
    std::panic::set_hook(Box::new(|_| {}));
    let limit = Duration::from_millis(
        std::env::var("VERIF_CASE_TIMEOUT_MS")
            .ok()
            .and_then(|v| v.parse().ok())
            .unwrap_or(5000),
    );
    let mut hangs: u32 = std::env::var("H_RX2_HANGS").ok().and_then(|v| v.parse().ok()).unwrap_or(0);
    let stdout = std::io::stdout();
    let mut out = std::io::BufWriter::new(stdout.lock());
    while let Some(line) = read_line() {
        if line.trim().is_empty() {
            continue;
        }
        match Sexp::parse(&line) {
            Err(e) => writeln!(out, "!parse-error {e}").unwrap(),
            Ok(c) => {
                let (tx, rx) = mpsc::channel::<String>();
                let h = std::thread::Builder::new()
                    .name("case".into())
                    .stack_size(32 << 20)
                    .spawn(move || {
                        let r = catch_unwind(AssertUnwindSafe(|| f(&c)));
                        // leave nothing behind for the thread-local destructors: what a panicking
                        // case still holds (owners, handles, tasks) is released here
                        let r2 = catch_unwind(AssertUnwindSafe(reset));
                        let s = match (r, r2) {
                            (Ok(v), Ok(())) => v.to_string(),
                            (Err(e), _) | (_, Err(e)) => panic_msg(e),
                        };
                        let _ = tx.send(s);
                    })
                    .expect("spawn the case thread");
                let cur = if hangs >= 3 { limit / 10 } else { limit };
                match rx.recv_timeout(cur) {
                    Ok(s) => {
                        // let the thread end (thread-local destructors) before the next case starts
                        let t0 = Instant::now();
                        while !h.is_finished() && t0.elapsed() < limit {
                            std::thread::yield_now();
                        }
                        writeln!(out, "{s}").unwrap()
                    }
                    Err(mpsc::RecvTimeoutError::Timeout) => {
                        hangs += 1;
                        writeln!(out, "!hang no answer within {} ms", cur.as_millis()).unwrap();
                        out.flush().unwrap();
                        restart(hangs);
                    }
                    Err(mpsc::RecvTimeoutError::Disconnected) => {
                        writeln!(out, "!panic the case thread ended without an answer").unwrap()
                    }
                }
            }
        }
        out.flush().unwrap();
    }
    out.flush().unwrap();
}

fn main() {
    let sub = std::env::args().nth(1).unwrap_or_default();
    exec::init();
    match sub.as_str() {
        "c17" => drive(c17::run, c17::reset),
        "c08" => drive(c08::run, c08::reset),
        "c10" => drive(c10::run, c10::reset),
        _ => {
            eprintln!("usage: h_rx2 c17|c08|c10");
            std::process::exit(2)
        }
    }
}
