//! Harness-owned single-threaded executor with an exposed run queue.
//!
//! Every spawned future becomes a task with a sequence number (spawn order, restarting at 0
//! on `reset`). A task is *ready* when it has just been spawned or its waker was invoked
//! since it was last polled. Nothing is ever polled behind the harness' back: the case's
//! schedule names the ready task to poll next.
use any_spawner::{CustomExecutor, Executor, PinnedFuture, PinnedLocalFuture};
use std::{
    cell::RefCell,
    future::Future,
    pin::Pin,
    sync::{Arc, Mutex},
    task::{Context, Poll, Wake, Waker},
};

type LocalFut = Pin<Box<dyn Future<Output = ()>>>;

struct State {
    /// slot per task id; `None` = finished (or being polled right now)
    tasks: Vec<Option<LocalFut>>,
    /// ids of finished tasks
    done: Vec<bool>,
}

thread_local! {
    static STATE: RefCell<State> = RefCell::new(State { tasks: vec![], done: vec![] });
    static READY: Arc<Mutex<Vec<usize>>> = Arc::new(Mutex::new(vec![]));
}

struct TaskWaker {
    id: usize,
    epoch: usize,
    cur_epoch: Arc<Mutex<usize>>,
    ready: Arc<Mutex<Vec<usize>>>,
}

impl Wake for TaskWaker {
    fn wake(self: Arc<Self>) {
        self.wake_by_ref()
    }
    fn wake_by_ref(self: &Arc<Self>) {
        if *self.cur_epoch.lock().unwrap() != self.epoch {
            return;
        }
        let mut r = self.ready.lock().unwrap();
        if !r.contains(&self.id) {
            r.push(self.id);
        }
    }
}

thread_local! {
    /// bumped on `reset` so wakers of a previous case cannot touch the current queue
    static CUR_EPOCH: Arc<Mutex<usize>> = Arc::new(Mutex::new(0));
}

struct Ex;

fn push(fut: LocalFut) {
    let id = STATE.with(|s| {
        let mut s = s.borrow_mut();
        s.tasks.push(Some(fut));
        s.done.push(false);
        s.tasks.len() - 1
    });
    READY.with(|r| r.lock().unwrap().push(id));
}

impl CustomExecutor for Ex {
    fn spawn(&self, fut: PinnedFuture<()>) {
        push(fut)
    }
    fn spawn_local(&self, fut: PinnedLocalFuture<()>) {
        push(fut)
    }
    fn poll_local(&self) {}
}

/// install the executor (once per process, for every thread: each case runs on its own thread,
/// and a spawned task goes to the queue of the thread that spawns it)
pub fn init() {
    let _ = Executor::init_custom_executor(Ex);
}

/// number of tasks spawned since the last reset
pub fn spawned() -> usize {
    STATE.with(|s| s.borrow().tasks.len())
}

/// ids of ready tasks, ascending
pub fn ready() -> Vec<usize> {
    let mut v = READY.with(|r| r.lock().unwrap().clone());
    v.retain(|id| !is_done(*id));
    v.sort();
    v
}

pub fn is_ready(id: usize) -> bool {
    ready().contains(&id)
}

pub fn is_done(id: usize) -> bool {
    STATE.with(|s| s.borrow().done.get(id).copied().unwrap_or(true))
}

/// number of tasks that have not finished
pub fn live() -> usize {
    STATE.with(|s| s.borrow().done.iter().filter(|d| !**d).count())
}

/// poll task `id` once if it is ready; returns whether a poll happened
pub fn poll(id: usize) -> bool {
    let was = READY.with(|r| {
        let mut r = r.lock().unwrap();
        let n = r.len();
        r.retain(|x| *x != id);
        r.len() != n
    });
    if !was || is_done(id) {
        return false;
    }
    let fut = STATE.with(|s| s.borrow_mut().tasks[id].take());
    let Some(mut fut) = fut else { return false };
    let waker = Waker::from(Arc::new(TaskWaker {
        id,
        epoch: CUR_EPOCH.with(|e| *e.lock().unwrap()),
        cur_epoch: CUR_EPOCH.with(|e| e.clone()),
        ready: READY.with(|r| r.clone()),
    }));
    let mut cx = Context::from_waker(&waker);
    match fut.as_mut().poll(&mut cx) {
        Poll::Ready(()) => {
            STATE.with(|s| s.borrow_mut().done[id] = true);
            drop(fut);
            READY.with(|r| r.lock().unwrap().retain(|x| *x != id));
        }
        Poll::Pending => STATE.with(|s| s.borrow_mut().tasks[id] = Some(fut)),
    }
    true
}

/// poll ready tasks until none is ready; `pick[j] mod len(ready)` selects the j-th poll
/// (0 once `pick` is exhausted). Returns the ids polled, in order. `limit` bounds the loop.
pub fn run_all(pick: &[i64], limit: usize) -> Vec<usize> {
    let mut out = vec![];
    let mut j = 0;
    loop {
        let r = ready();
        if r.is_empty() || out.len() >= limit {
            return out;
        }
        let p = pick.get(j).copied().unwrap_or(0).rem_euclid(r.len() as i64) as usize;
        j += 1;
        poll(r[p]);
        out.push(r[p]);
    }
}

/// drop every task and empty the queue (between cases)
pub fn reset() {
    CUR_EPOCH.with(|e| *e.lock().unwrap() += 1);
    loop {
        let t: Vec<Option<LocalFut>> = STATE.with(|s| {
            let mut s = s.borrow_mut();
            s.done.clear();
            std::mem::take(&mut s.tasks)
        });
        if t.is_empty() {
            break;
        }
        drop(t);
    }
    READY.with(|r| r.lock().unwrap().clear());
}
