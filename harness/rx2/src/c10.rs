//! C10 — async derived values and resources settle on the latest inputs.
//!
//! case `(shape wrap dep initial events)`: one `ArcAsyncDerived` (or arena `AsyncDerived`) over
//! three input signals, whose fetch futures are completed by the history; optionally an `Effect`
//! that reads it (a dependent) and hand-polled awaiters. Shapes and events are documented in
//! coq/theories/Reactive/AsyncRun.v; event `(9)` (a synchronous read under the Suspense boundary) is
//! known to the harness and the Python oracle only.
use crate::exec;
use futures::channel::oneshot;
use leptos_server::{
    codee::string::{FromToStringCodec, JsonSerdeCodec},
    ArcLocalResource, ArcOnceResource, ArcResource, LocalResource, OnceResource, Resource,
};
use reactive_graph::{
    computed::{
        suspense::{LocalResourceNotifier, SuspenseContext},
        ArcAsyncDerived, ArcMemo, AsyncDerived,
    },
    effect::Effect,
    graph::{Source, ToAnySubscriber},
    owner::{provide_context, FromLocal, LocalStorage, Owner},
    signal::ArcRwSignal,
    traits::{
        Get, GetUntracked, Notify, Set, Track, Update, WithUntracked, Write,
    },
    transition::AsyncTransition,
};
use std::{
    cell::RefCell,
    future::{Future, IntoFuture},
    pin::Pin,
    sync::{
        atomic::{AtomicUsize, Ordering},
        Arc, Mutex,
    },
    task::{Context, Poll, Wake, Waker},
};
use vsexp::{Lst, Num, Sexp};

/// the fetcher: a fixed injective-enough function of the two inputs
fn fetch(a: i64, b: i64) -> i64 {
    a * 1000 + b
}

thread_local! {
    /// senders of the fetch futures, in creation order
    static FUTS: RefCell<Vec<Option<oneshot::Sender<()>>>> = RefCell::new(vec![]);
    static DEPLOG: RefCell<Vec<Sexp>> = RefCell::new(vec![]);
}

fn mk_fut(r: i64) -> impl Future<Output = i64> + Send + 'static {
    let (tx, rx) = oneshot::channel::<()>();
    FUTS.with(|f| f.borrow_mut().push(Some(tx)));
    async move {
        let _ = rx.await;
        r
    }
}

#[derive(Clone)]
enum Node {
    Arc(ArcAsyncDerived<i64>),
    Arena(AsyncDerived<i64>),
    Once(ArcOnceResource<i64>),
    OnceArena(OnceResource<i64>),
    /// the real leptos_server local resources (no `ready()`, no write access)
    Local(ArcLocalResource<i64>),
    LocalArena(LocalResource<i64>),
    /// everything else, through the wrapper's own methods
    Dyn(std::rc::Rc<dyn NodeT>),
}

/// a node driven through the methods of its own type (a leptos_server wrapper's `Track` /
/// `ReadUntracked` / `IntoFuture` / `by_ref` / `map` / `refetch`; writes and `ready()` through its
/// `Deref` to the async derived value)
trait NodeT {
    fn n_get_untracked(&self) -> Option<i64>;
    fn n_get(&self) -> Option<i64>;
    fn n_set(&self, v: i64, mode: i64);
    fn n_notify(&self);
    fn n_awaiter(&self, by_ref: bool) -> Pin<Box<dyn Future<Output = i64>>>;
    fn n_loading(&self) -> bool;
    fn n_refetch(&self);
}

fn is_pending<F: Future + Unpin>(mut f: F) -> bool {
    let w = Waker::from(Arc::new(Count(AtomicUsize::new(0))));
    let mut cx = Context::from_waker(&w);
    Pin::new(&mut f).poll(&mut cx).is_pending()
}

/// the four ways of writing `Some(v)` into an async derived value
macro_rules! write_modes {
    ($d:expr, $v:expr, $mode:expr) => {{
        let d = $d;
        match $mode {
            1 => {
                *d.write_untracked() = Some($v);
                d.notify()
            }
            2 => d.set(Some($v)),
            3 => d.update(|x| *x = Some($v)),
            _ => *d.write() = Some($v),
        }
    }};
}

macro_rules! resource_node {
    ($ty:ty) => {
        impl NodeT for $ty {
            fn n_get_untracked(&self) -> Option<i64> {
                GetUntracked::get_untracked(self)
            }
            fn n_get(&self) -> Option<i64> {
                // `map` reads reactively; it must agree with `get`
                let a = self.map(|v| *v);
                let b = Get::get(self);
                assert_eq!(a, b, "Resource::map and Resource::get disagree");
                a
            }
            fn n_set(&self, v: i64, mode: i64) {
                write_modes!(std::ops::Deref::deref(self), v, mode)
            }
            fn n_notify(&self) {
                std::ops::Deref::deref(self).notify()
            }
            fn n_awaiter(&self, by_ref: bool) -> Pin<Box<dyn Future<Output = i64>>> {
                if by_ref {
                    let f = self.by_ref();
                    Box::pin(async move { *f.await })
                } else {
                    Box::pin(self.clone().into_future())
                }
            }
            fn n_loading(&self) -> bool {
                is_pending(std::ops::Deref::deref(self).ready())
            }
            fn n_refetch(&self) {
                <$ty>::refetch(self)
            }
        }
    };
}
resource_node!(ArcResource<i64, JsonSerdeCodec>);
resource_node!(Resource<i64, JsonSerdeCodec>);
resource_node!(ArcResource<i64, FromToStringCodec>);
resource_node!(Resource<i64, FromToStringCodec>);

macro_rules! once_node {
    ($ty:ty) => {
        impl NodeT for $ty {
            fn n_get_untracked(&self) -> Option<i64> {
                GetUntracked::get_untracked(self)
            }
            fn n_get(&self) -> Option<i64> {
                let a = self.map(|v| *v);
                let b = Get::get(self);
                assert_eq!(a, b, "OnceResource::map and OnceResource::get disagree");
                a
            }
            fn n_set(&self, _: i64, _: i64) {}
            fn n_notify(&self) {}
            fn n_awaiter(&self, _: bool) -> Pin<Box<dyn Future<Output = i64>>> {
                Box::pin(self.clone().into_future())
            }
            fn n_loading(&self) -> bool {
                is_pending(self.ready())
            }
            fn n_refetch(&self) {}
        }
    };
}
once_node!(ArcOnceResource<i64, JsonSerdeCodec>);
once_node!(OnceResource<i64, JsonSerdeCodec>);
once_node!(ArcOnceResource<i64, FromToStringCodec>);
once_node!(OnceResource<i64, FromToStringCodec>);

impl NodeT for AsyncDerived<i64, LocalStorage> {
    fn n_get_untracked(&self) -> Option<i64> {
        GetUntracked::get_untracked(self)
    }
    fn n_get(&self) -> Option<i64> {
        Get::get(self)
    }
    fn n_set(&self, v: i64, mode: i64) {
        write_modes!(self, v, mode)
    }
    fn n_notify(&self) {
        Notify::notify(self)
    }
    fn n_awaiter(&self, by_ref: bool) -> Pin<Box<dyn Future<Output = i64>>> {
        if by_ref {
            let f = self.by_ref();
            Box::pin(async move { *f.await })
        } else {
            Box::pin(self.into_future())
        }
    }
    fn n_loading(&self) -> bool {
        is_pending(self.ready())
    }
    fn n_refetch(&self) {}
}

impl Node {
    fn get_untracked(&self) -> Option<i64> {
        match self {
            Node::Arc(n) => n.get_untracked(),
            Node::Arena(n) => n.get_untracked(),
            Node::Once(n) => n.get_untracked(),
            Node::OnceArena(n) => n.get_untracked(),
            Node::Local(n) => n.get_untracked(),
            Node::LocalArena(n) => n.get_untracked(),
            Node::Dyn(n) => n.n_get_untracked(),
        }
    }
    fn get(&self) -> Option<i64> {
        match self {
            Node::Arc(n) => n.get(),
            Node::Arena(n) => n.get(),
            Node::Once(n) => n.get(),
            Node::OnceArena(n) => n.get(),
            // a local resource's `map` reads reactively too
            Node::Local(n) => {
                let a = n.get();
                assert_eq!(a, n.map(|v| *v), "LocalResource::map and get disagree");
                a
            }
            Node::LocalArena(n) => n.get(),
            Node::Dyn(n) => n.n_get(),
        }
    }
    fn set(&self, v: i64, mode: i64) {
        match self {
            Node::Arc(n) => write_modes!(n, v, mode),
            Node::Arena(n) => write_modes!(n, v, mode),
            Node::Dyn(n) => n.n_set(v, mode),
            _ => {}
        }
    }
    fn notify(&self) {
        match self {
            Node::Arc(n) => n.notify(),
            Node::Arena(n) => n.notify(),
            Node::Dyn(n) => n.n_notify(),
            _ => {}
        }
    }
    fn awaiter(&self) -> Pin<Box<dyn Future<Output = i64>>> {
        self.awaiter_mode(false)
    }
    /// `by_ref`: await through `by_ref()` (a guard to the value) where the type has it
    fn awaiter_mode(&self, by_ref: bool) -> Pin<Box<dyn Future<Output = i64>>> {
        match self {
            Node::Arc(n) if by_ref => {
                let f = n.by_ref();
                Box::pin(async move { *f.await })
            }
            Node::Arena(n) if by_ref => {
                let f = n.by_ref();
                Box::pin(async move { *f.await })
            }
            Node::Dyn(n) => n.n_awaiter(by_ref),
            Node::Arc(n) => Box::pin(n.clone().into_future()),
            Node::Arena(n) => Box::pin(n.into_future()),
            Node::Once(n) => Box::pin(n.clone().into_future()),
            Node::OnceArena(n) => Box::pin(n.into_future()),
            Node::Local(n) => Box::pin(n.clone().into_future()),
            Node::LocalArena(n) => Box::pin(n.into_future()),
        }
    }
    fn loading(&self) -> bool {
        let w = Waker::from(Arc::new(Count(AtomicUsize::new(0))));
        let mut cx = Context::from_waker(&w);
        // `ready()` resolves exactly when the loading flag is off
        let mut f = match self {
            Node::Arc(n) => n.ready(),
            Node::Arena(n) => n.ready(),
            Node::Once(n) => n.ready(),
            Node::OnceArena(n) => n.ready(),
            // a local resource has no `ready()`: a throw-away await (outside any Suspense
            // boundary) is pending exactly while the loading flag is on
            Node::Local(_) | Node::LocalArena(_) => {
                let mut a = self.awaiter();
                return a.as_mut().poll(&mut cx).is_pending();
            }
            Node::Dyn(n) => return n.n_loading(),
        };
        Pin::new(&mut f).poll(&mut cx).is_pending()
    }
}

struct Count(AtomicUsize);
impl Wake for Count {
    fn wake(self: Arc<Self>) {
        self.0.fetch_add(1, Ordering::SeqCst);
    }
    fn wake_by_ref(self: &Arc<Self>) {
        self.0.fetch_add(1, Ordering::SeqCst);
    }
}

struct Awaiter {
    fut: Option<Pin<Box<dyn Future<Output = i64>>>>,
    /// the waker handed to the latest poll (a fresh one every time)
    wakes: Arc<Count>,
    result: Option<i64>,
    /// created and polled under the owner that provides the SuspenseContext
    sus: bool,
}

fn opt(v: Option<i64>) -> Sexp {
    match v {
        None => Lst(vec![]),
        Some(x) => Lst(vec![Num(x)]),
    }
}

/// run every task that is not one of the case's visible tasks (the `Executor::tick()` tasks of a
/// local resource: they only send on a oneshot channel) until none is ready
fn run_ticks(vis: &[usize]) -> bool {
    let mut any = false;
    loop {
        let r: Vec<usize> = exec::ready().into_iter().filter(|i| !vis.contains(i)).collect();
        if r.is_empty() {
            return any;
        }
        for i in r {
            any |= exec::poll(i);
        }
    }
}

/// visible ready tasks, by their number in the case language
fn ready_vis(vis: &[usize]) -> Vec<usize> {
    let r = exec::ready();
    (0..vis.len()).filter(|j| r.contains(&vis[*j])).collect()
}

/// one poll of visible task `j`. If the poll started a load whose future awaits a tick, the tick
/// task runs at once and the task is polled again (it then reaches the fetch future proper): to
/// the history, a load of a local resource starts within one poll like every other load.
/// Schedules that put other events between a load's first poll and its tick are not explored.
fn poll_task(vis: &[usize], j: usize) {
    let mut first = true;
    loop {
        if !exec::poll(vis[j]) && first {
            return;
        }
        first = false;
        if !run_ticks(vis) {
            return;
        }
    }
}

fn run_all(vis: &[usize], pick: &[i64]) {
    let mut n = 0;
    loop {
        let r = ready_vis(vis);
        if r.is_empty() || n >= 100_000 {
            return;
        }
        let p = pick.get(n).copied().unwrap_or(0).rem_euclid(r.len() as i64) as usize;
        n += 1;
        poll_task(vis, r[p]);
    }
}

pub fn reset() {
    exec::reset();
    FUTS.with(|f| f.borrow_mut().clear());
    DEPLOG.with(|f| f.borrow_mut().clear());
}

pub fn run(c: &Sexp) -> Sexp {
    reset();
    let owner = Owner::new();
    let out = owner.with(|| run_in(c));
    exec::reset();
    FUTS.with(|f| f.borrow_mut().clear());
    drop(owner);
    out
}

// ------------------------------------------------------------------ transitions (shape 6)
/// case `(6 prog events)`: one task awaits `AsyncTransition::run(action)`, where the action is the
/// item list `prog`: `(0 kind)` creates an async derived value (kind 0 `ArcAsyncDerived::new`,
/// 1 `AsyncDerived::new`, 2 leptos_server `ArcResource::new`, 3 `Resource::new`) whose fetch future
/// is completed by the history, `(1 items)` awaits a nested `AsyncTransition::run(items)`. Node k
/// loads the value 100 + k; tasks: 0 = the awaiting task, k + 1 = node k's. Events: `(4 f)`
/// complete future f, `(5 t)` poll task t, `(6 picks)` run until idle. Observation after every
/// event: `(nodes runs ready)`: per node `(value loading)`, per started run (numbered as they
/// start) `(0)` or `(1 snapshot)` = what the nodes created inside its action looked like at the
/// moment the task awaiting that `run(..)` was resumed.
struct TState {
    nodes: Vec<Node>,
    /// per run: the snapshot taken when the awaiting code resumed
    runs: Vec<Option<Vec<(Option<i64>, bool)>>>,
    keep: Vec<Box<dyn std::any::Any>>,
}
type TS = std::rc::Rc<RefCell<TState>>;

fn t_action(items: Vec<Sexp>, st: TS) -> Pin<Box<dyn Future<Output = ()>>> {
    Box::pin(async move {
        for it in items {
            if it.at(0).num() == 0 {
                let k = st.borrow().nodes.len() as i64;
                let f = move || mk_fut(100 + k);
                let node = match it.at(1).num() {
                    1 => Node::Arena(AsyncDerived::new(f)),
                    2 | 3 => {
                        let fetcher = move |_: i64| mk_fut(100 + k);
                        if it.at(1).num() == 3 {
                            let r = Resource::new(|| 0i64, fetcher);
                            Node::Arena(*std::ops::Deref::deref(&r))
                        } else {
                            let r = ArcResource::new(|| 0i64, fetcher);
                            let n = Node::Arc(std::ops::Deref::deref(&r).clone());
                            st.borrow_mut().keep.push(Box::new(r));
                            n
                        }
                    }
                    _ => Node::Arc(ArcAsyncDerived::new(f)),
                };
                st.borrow_mut().nodes.push(node);
            } else {
                t_run(it.at(1).list().to_vec(), st.clone()).await;
            }
        }
    })
}

fn t_run(items: Vec<Sexp>, st: TS) -> Pin<Box<dyn Future<Output = ()>>> {
    Box::pin(async move {
        let (r, lo) = {
            let mut s = st.borrow_mut();
            s.runs.push(None);
            (s.runs.len() - 1, s.nodes.len())
        };
        let st2 = st.clone();
        AsyncTransition::run(move || t_action(items, st2)).await;
        // the code after `run(..).await`: what does it see?
        let nodes: Vec<Node> = st.borrow().nodes[lo..].to_vec();
        let snap = nodes.iter().map(|n| (n.get_untracked(), n.loading())).collect();
        st.borrow_mut().runs[r] = Some(snap);
    })
}

fn run_transition(c: &Sexp) -> Sexp {
    let st: TS = std::rc::Rc::new(RefCell::new(TState {
        nodes: vec![],
        runs: vec![],
        keep: vec![],
    }));
    any_spawner::Executor::spawn_local(t_run(c.at(1).list().to_vec(), st.clone()));
    assert_eq!(exec::spawned(), 1, "the awaiting task");
    let pair = |v: Option<i64>, l: bool| Lst(vec![opt(v), Sexp::bool(l)]);
    let obs = || -> Sexp {
        let nodes: Vec<Node> = st.borrow().nodes.clone();
        assert_eq!(exec::spawned(), nodes.len() + 1, "one task per node");
        let ns = nodes.iter().map(|n| pair(n.get_untracked(), n.loading())).collect();
        let rs = st
            .borrow()
            .runs
            .iter()
            .map(|r| match r {
                None => Lst(vec![Num(0)]),
                Some(s) => Lst(vec![Num(1), Lst(s.iter().map(|(v, l)| pair(*v, *l)).collect())]),
            })
            .collect();
        Lst(vec![
            Lst(ns),
            Lst(rs),
            Sexp::from_nums(exec::ready().into_iter().map(|x| x as i64)),
        ])
    };
    let complete = |i: usize| {
        let tx = FUTS.with(|f| f.borrow_mut().get_mut(i).and_then(|t| t.take()));
        if let Some(tx) = tx {
            let _ = tx.send(());
        }
    };
    let mut out = vec![obs()];
    for ev in c.at(2).list() {
        let a = ev.at(1).num();
        match ev.at(0).num() {
            4 => {
                if a >= 0 {
                    complete(a as usize)
                }
            }
            5 => {
                if a >= 0 && (a as usize) < exec::spawned() {
                    exec::poll(a as usize);
                }
            }
            6 => {
                exec::run_all(&ev.at(1).nums(), 100_000);
            }
            _ => {}
        }
        out.push(obs());
    }
    // end of the case: every future completes, the executor runs until idle
    loop {
        exec::run_all(&[], 100_000);
        let n = FUTS.with(|f| f.borrow().len());
        let mut any = false;
        for i in 0..n {
            if FUTS.with(|f| f.borrow()[i].is_some()) {
                complete(i);
                any = true;
            }
        }
        if !any {
            break;
        }
    }
    out.push(obs());
    Lst(out)
}

fn run_in(c: &Sexp) -> Sexp {
    let shape = c.at(0).num();
    if shape == 6 {
        return run_transition(c);
    }
    let wrap = c.at(1).num();
    let dep = c.at(2).num() != 0;
    let dep_memo = c.at(2).num() == 2;
    let initial = c.at(3).list().first().map(|x| x.num());
    let sigs: Vec<ArcRwSignal<i64>> = (0..3).map(|_| ArcRwSignal::new(0)).collect();
    let refetch = ArcRwSignal::new(0i64);
    let (s0, s1) = (sigs[0].clone(), sigs[1].clone());
    enum Res {
        Arc(ArcResource<i64>),
        Arena(Resource<i64>),
        Local(ArcLocalResource<i64>),
        LocalArena(LocalResource<i64>),
        Dyn(std::rc::Rc<dyn NodeT>),
    }
    let mut resource: Option<Res> = None;
    // the "Suspense boundary": an owner that provides a SuspenseContext
    let boundary = Owner::new();
    let suspense = SuspenseContext {
        tasks: ArcRwSignal::new(Default::default()),
    };
    boundary.with(|| provide_context(suspense.clone()));
    // … and, for local resources, the notifier a Suspense provides: told (once) that a
    // local-only resource was read under it
    let (local_tx, mut local_rx) = oneshot::channel::<()>();
    let local = shape == 0 && (wrap == 3 || wrap == 4);
    if local {
        boundary.with(|| provide_context(LocalResourceNotifier::from(local_tx)));
    }
    let mut read_under_boundary = false;
    let node = match shape {
        0 => {
            let rf = refetch.clone();
            let f = move || mk_fut(fetch(s0.get(), s1.get()));
            if wrap == 3 {
                // the real constructors: the fetcher's future first awaits Executor::tick()
                let r = ArcLocalResource::new(f);
                resource = Some(Res::Local(r.clone()));
                Node::Local(r)
            } else if wrap == 4 {
                let r = LocalResource::new(f);
                resource = Some(Res::LocalArena(r));
                Node::LocalArena(r)
            } else if let Some(v0) = initial {
                // the `_with_initial` constructors: the value is there at once, the first load
                // still runs (unlike a hydrated resource)
                match wrap {
                    1 => Node::Arena(AsyncDerived::new_with_initial(Some(v0), f)),
                    2 => Node::Arc(ArcAsyncDerived::new_unsync_with_initial(Some(v0), move || {
                        rf.track();
                        f()
                    })),
                    5 => Node::Dyn(std::rc::Rc::new(
                        AsyncDerived::<i64, LocalStorage>::new_unsync_with_initial(Some(v0), f),
                    )),
                    _ => Node::Arc(ArcAsyncDerived::new_with_initial(Some(v0), f)),
                }
            } else if wrap == 5 {
                // arena handles in LocalStorage / made by conversion from the Arc type
                Node::Dyn(std::rc::Rc::new(AsyncDerived::<i64, LocalStorage>::new_unsync(f)))
            } else if wrap == 6 {
                Node::Dyn(std::rc::Rc::new(AsyncDerived::<i64, LocalStorage>::from_local(
                    ArcAsyncDerived::new_unsync(f),
                )))
            } else if wrap == 7 {
                Node::Arena(AsyncDerived::from(ArcAsyncDerived::new(f)))
            } else if wrap == 1 {
                Node::Arena(AsyncDerived::new(f))
            } else if wrap == 2 {
                // what ArcLocalResource::new builds (minus the tick it awaits first)
                Node::Arc(ArcAsyncDerived::new_unsync(move || {
                    rf.track();
                    f()
                }))
            } else {
                Node::Arc(ArcAsyncDerived::new(f))
            }
        }
        4 => {
            // the real resource constructors of leptos_server
            let src = move || s0.get().div_euclid(2);
            let fetcher = move |x: i64| mk_fut(fetch(x, 0));
            macro_rules! own {
                ($r:expr) => {{
                    let r = std::rc::Rc::new($r);
                    resource = Some(Res::Dyn(r.clone()));
                    Node::Dyn(r)
                }};
            }
            match wrap {
                // wrap 0 / 1: the async derived value inside the wrapper (its Deref target)
                1 => {
                    let r = Resource::new(src, fetcher);
                    resource = Some(Res::Arena(r));
                    Node::Arena(*std::ops::Deref::deref(&r))
                }
                0 => {
                    let r = ArcResource::new(src, fetcher);
                    let n = Node::Arc(std::ops::Deref::deref(&r).clone());
                    resource = Some(Res::Arc(r));
                    n
                }
                // from here on every constructor, driven through the wrapper's own impls
                2 => own!(ArcResource::new(src, fetcher)),
                3 => own!(Resource::new(src, fetcher)),
                4 => own!(ArcResource::new_blocking(src, fetcher)),
                5 => own!(Resource::new_blocking(src, fetcher)),
                6 => own!(ArcResource::new_str(src, fetcher)),
                7 => own!(Resource::new_str(src, fetcher)),
                8 => own!(ArcResource::new_str_blocking(src, fetcher)),
                9 => own!(Resource::new_str_blocking(src, fetcher)),
                10 => own!(ArcResource::<i64, JsonSerdeCodec>::new_with_options(src, fetcher, false)),
                11 => own!(Resource::<i64, FromToStringCodec>::new_with_options(src, fetcher, true)),
                12 => own!(ArcResource::from(Resource::new(src, fetcher))),
                _ => own!(Resource::from(ArcResource::new_str(src, fetcher))),
            }
        }
        5 => {
            let fut = mk_fut(fetch(7, 7));
            let d = |n: std::rc::Rc<dyn NodeT>| Node::Dyn(n);
            match wrap {
                1 => Node::OnceArena(OnceResource::new(fut)),
                0 => Node::Once(ArcOnceResource::new(fut)),
                2 => d(std::rc::Rc::new(ArcOnceResource::new_blocking(fut))),
                3 => d(std::rc::Rc::new(OnceResource::new_blocking(fut))),
                4 => d(std::rc::Rc::new(ArcOnceResource::new_str(fut))),
                5 => d(std::rc::Rc::new(OnceResource::new_str(fut))),
                6 => d(std::rc::Rc::new(ArcOnceResource::new_str_blocking(fut))),
                7 => d(std::rc::Rc::new(OnceResource::new_str_blocking(fut))),
                8 => d(std::rc::Rc::new(ArcOnceResource::<i64, JsonSerdeCodec>::new_with_options(fut, false))),
                _ => d(std::rc::Rc::new(OnceResource::<i64, FromToStringCodec>::new_with_options(fut, true))),
            }
        }
        1 => {
            let ma = ArcMemo::new(move |_| s0.get().div_euclid(2));
            let mb = ArcMemo::new(move |_| s1.get());
            let f = move || mk_fut(fetch(ma.get(), mb.get()));
            match (wrap, initial) {
                (1, None) => Node::Arena(AsyncDerived::new(f)),
                (_, None) => Node::Arc(ArcAsyncDerived::new(f)),
                (1, v0) => Node::Arena(AsyncDerived::new_with_initial(v0, f)),
                (_, v0) => Node::Arc(ArcAsyncDerived::new_with_initial(v0, f)),
            }
        }
        2 => {
            // m3 depends on m2 and is read first
            let m2 = ArcMemo::new(move |_| s0.get() * 10);
            let m2b = m2.clone();
            let m3 = ArcMemo::new(move |_| if m2b.get() > 25 { 1 } else { 0 });
            let f = move || mk_fut(fetch(m3.get(), m2.get()));
            if wrap == 1 {
                Node::Arena(AsyncDerived::new(f))
            } else {
                Node::Arc(ArcAsyncDerived::new(f))
            }
        }
        _ => {
            // what ArcResource::new_with_options builds: a memo over (refetch counter, source),
            // tracked by hand; the fetcher reads it untracked
            let rf = refetch.clone();
            let src = ArcMemo::new(move |_| (rf.get(), s0.get().div_euclid(2)));
            let src2 = src.clone();
            let f = move || {
                let (_, x) = src2.get();
                mk_fut(fetch(x, 0))
            };
            let data = ArcAsyncDerived::new_with_manual_dependencies(initial, f, &src);
            if initial.is_some() {
                src.with_untracked(|_| ());
                src.add_subscriber(data.to_any_subscriber());
            }
            Node::Arc(data)
        }
    };
    // tasks the history can name: 0 = the node's task, 1 = the dependent's. A local resource also
    // spawns one `Executor::tick()` task per load (the first one at construction, before its
    // own task); those are run by the harness at once, see `poll_task`
    assert_eq!(exec::spawned(), if local { 2 } else { 1 }, "the node spawns one task");
    let mut vis: Vec<usize> = vec![exec::spawned() - 1];
    run_ticks(&vis);
    // the dependents live under an owner of their own, which the history can pause and resume
    // (events 10 / 11); dep = 3: an effect and a nested async derived value that reads the node
    let dep_scope = Owner::new();
    let nested_dep = c.at(2).num() == 3;
    let mut nested: Option<ArcAsyncDerived<i64>> = None;
    if dep {
        let n = node.clone();
        let s2 = sigs[2].clone();
        // dep = 2: the dependent also reads a memo over the third signal, so it can be woken
        // by a mere check and then asks the node whether it changed
        let mt = ArcMemo::new(move |_| s2.get().div_euclid(2));
        let _e = dep_scope.with(|| {
            Effect::new(move |_| {
                let v = n.get();
                if dep_memo {
                    let _ = mt.get();
                }
                DEPLOG.with(|l| l.borrow_mut().push(opt(v)));
            })
        });
        assert_eq!(exec::spawned(), vis[0] + 2, "the dependent effect spawns one task");
        vis.push(vis[0] + 1);
        if nested_dep {
            // not Send (the node may be a local one): new_unsync
            let n2 = node.clone();
            let d2 = dep_scope.with(|| {
                ArcAsyncDerived::new_unsync(move || {
                    // the nested value loads "what the node held + 1" (-1 while it holds nothing)
                    let v = n2.get();
                    mk_fut(v.map(|v| v + 1).unwrap_or(-1))
                })
            });
            assert_eq!(exec::spawned(), vis[0] + 3, "the nested async derived value spawns one task");
            vis.push(vis[0] + 2);
            nested = Some(d2);
        }
    }
    let vis = vis;
    let sync_reads = c.at(4).list().iter().any(|e| e.at(0).num() == 9);
    let mut awaiters: Vec<Awaiter> = vec![];
    let obs = |awaiters: &Vec<Awaiter>| -> Sexp {
        let aw = awaiters
            .iter()
            .map(|a| match a.result {
                Some(v) => Lst(vec![Num(1), Num(v)]),
                None => Lst(vec![Num(0), Num(a.wakes.0.load(Ordering::SeqCst) as i64)]),
            })
            .collect();
        Lst(vec![
            opt(node.get_untracked()),
            Sexp::bool(node.loading()),
            Sexp::from_nums(ready_vis(&vis).into_iter().map(|x| x as i64)),
            Lst(aw),
            Lst(DEPLOG.with(|l| std::mem::take(&mut *l.borrow_mut()))),
            Num(FUTS.with(|f| f.borrow().len()) as i64),
            Num(suspense.tasks.with_untracked(|t| t.len()) as i64),
        ]
        .into_iter()
        // dep = 3 only: what the nested async derived value holds
        .chain(nested.iter().map(|d| opt(d.get_untracked())))
        .collect())
    };
    let poll_awaiter = |a: &mut Awaiter| {
        if a.fut.is_some() {
            // a fresh waker for every poll: only the latest one matters
            a.wakes = Arc::new(Count(AtomicUsize::new(0)));
            let w = Waker::from(a.wakes.clone());
            let mut cx = Context::from_waker(&w);
            let sus = a.sus;
            let f = a.fut.as_mut().unwrap();
            let r = if sus {
                boundary.with(|| f.as_mut().poll(&mut cx))
            } else {
                f.as_mut().poll(&mut cx)
            };
            if let Poll::Ready(v) = r {
                a.result = Some(v);
                a.fut = None;
            }
        }
    };
    let complete = |i: usize| {
        let tx = FUTS.with(|f| f.borrow_mut().get_mut(i).and_then(|t| t.take()));
        if let Some(tx) = tx {
            let _ = tx.send(());
        }
    };
    let mut out = vec![obs(&awaiters)];
    for ev in c.at(4).list() {
        let a = ev.at(1).num();
        match ev.at(0).num() {
            0 => {
                if let Some(s) = sigs.get(a as usize) {
                    s.set(ev.at(2).num());
                }
            }
            1 => match &resource {
                Some(Res::Arc(r)) => r.refetch(),
                Some(Res::Arena(r)) => r.refetch(),
                Some(Res::Local(r)) => r.refetch(),
                Some(Res::LocalArena(r)) => r.refetch(),
                Some(Res::Dyn(r)) => r.n_refetch(),
                None => refetch.update(|n| *n += 1),
            },
            2 => node.set(a, ev.at(2).num()),
            3 => node.notify(),
            4 => {
                if a >= 0 {
                    complete(a as usize)
                }
            }
            5 => {
                if a >= 0 && (a as usize) < vis.len() {
                    poll_task(&vis, a as usize);
                }
            }
            6 => run_all(&vis, &ev.at(1).nums()),
            7 => {
                let sus = a != 0;
                read_under_boundary |= sus;
                // (7 sus 1): through by_ref(), which does not talk to a Suspense boundary
                let by_ref = ev.at(2).num() == 1 && !sus;
                let fut = if sus {
                    boundary.with(|| node.awaiter())
                } else {
                    node.awaiter_mode(by_ref)
                };
                awaiters.push(Awaiter {
                    fut: Some(fut),
                    wakes: Arc::new(Count(AtomicUsize::new(0))),
                    result: None,
                    sus,
                })
            }
            8 => {
                if let Some(aw) = awaiters.get_mut(a as usize) {
                    poll_awaiter(aw);
                }
            }
            10 => dep_scope.pause(),
            11 => dep_scope.resume(),
            9 => {
                // a synchronous read under the Suspense boundary: takes one of the boundary's
                // tasks and spawns a helper that gives it back once the node is ready
                read_under_boundary = true;
                let _ = boundary.with(|| node.get_untracked());
            }
            _ => {}
        }
        if sync_reads {
            // the helper tasks of synchronous reads are not part of the history: they run as soon
            // as they are ready
            run_ticks(&vis);
        }
        out.push(obs(&awaiters));
    }
    // end of the case: every future completes, the executor runs until idle, every awaiter
    // that is still pending is polled once more
    let n = FUTS.with(|f| f.borrow().len());
    for i in 0..n {
        complete(i);
    }
    loop {
        run_all(&vis, &[]);
        if sync_reads {
            run_ticks(&vis);
        }
        let n2 = FUTS.with(|f| f.borrow().len());
        let mut any = false;
        for i in 0..n2 {
            let open = FUTS.with(|f| f.borrow()[i].is_some());
            if open {
                complete(i);
                any = true;
            }
        }
        if !any {
            break;
        }
    }
    for aw in awaiters.iter_mut() {
        poll_awaiter(aw);
    }
    out.push(obs(&awaiters));
    if local {
        assert_eq!(
            local_rx.try_recv(),
            Ok(if read_under_boundary { Some(()) } else { None }),
            "the boundary's LocalResourceNotifier fires iff the resource was awaited under it"
        );
    }
    let _ = Mutex::new(());
    Lst(out)
}
