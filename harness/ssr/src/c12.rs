//! C12 — data handed from server to client arrives intact and inert.
//!
//! Drives the real `hydration_context::SsrSharedContext` (and, for the id counters, the real
//! `HydrateSharedContext`) with a scripted session and prints what the property constrains:
//! the ids handed out, what `errors()` / `get_incomplete_chunk()` answer, and every chunk the
//! `pending_data()` stream emits (as code points), for futures completing in the order the
//! case dictates. Higher-level commands create real `Resource` / `OnceResource` /
//! `SharedValue`s and real `<ErrorBoundary/>`s under an `Owner` that carries the same shared
//! context.
//!
//! This file is compiled into two binaries: `h_hyd` (harness/hyd, feature `full`: every optional
//! encoding of leptos_server, `leptos_integration_utils::build_response`) — the one `./check C12`
//! runs — and `h_ssr` (without `full`; c06.rs uses the executor and the gate futures).
//!
//! case   : (0 text)                      -> per-char Debug class, computed by real Rust
//!          (1 mode escset (cmd ...))     -> (entry ...)
//! mode   : 0 SsrSharedContext::new() | 1 ::new_islands() | 4 ::default()
//!          2 the context, owner and `<script>` wrapping of the real
//!            `leptos_integration_utils::build_response` | 3 the same with a nonce provided
//! cmd    : (0) next_id | (1 b) set_is_hydrating | (2 idsrc text) write_async
//!          (3 idsrc idsrc text) register_error | (4 idsrc) seal_errors
//!          (5 idsrc) set_incomplete_chunk | (6) pending_data | (7 k) complete future k
//!          (8) poll the stream once | (9 idsrc) errors(boundary) | (10 idsrc) get_incomplete_chunk
//!          (14 order) consume_buffers(), completing futures in `order` while it is pending
//!          (12 kind codec text [variant]) Resource(0) / OnceResource(1) / SharedValue(2) with
//!                               JsonSerdeCodec(0) / FromToStringCodec(1) / FromToBytesCodec(2: base64)
//!                               MiniserdeCodec(3) / SerdeLite<JsonSerdeCodec>(4) / RkyvCodec(5) /
//!                               an identity codec over Vec<u8> (6: arbitrary bytes, base64);
//!                               variant bits: 1 blocking, 2 the named constructor of the encoding
//!                               (new / new_str / new_miniserde / .. and their _blocking forms),
//!                               4 Arc flavour on the server, 8 arena flavour in the browser,
//!                               16 the fetcher's future is ready from the start (the script says
//!                               (7 k) right after the command), 32 the browser's context is
//!                               HydrateSharedContext::default();
//!                               logs (13 b wire): the string handed over, and whether the real
//!                               browser-side construction of the resource under a hydrating
//!                               context holding that string yields the value
//!          (15 rmode (child ..)) a real `<ErrorBoundary/>` rendered on the server: rmode 0 to_html,
//!                               1 in-order stream, 2 out-of-order stream; logs (0 id) for the
//!                               boundary, (13 ..) per resource, then (0 id) per error thrown
//!          (19 rmode which local) a real `<Suspense/>` (which 0) / `<Transition/>` (1) streamed in
//!                               order (rmode 1) / out of order (2); local 1: its children read a
//!                               LocalResource (the chunk is sent incomplete); logs (0 id) per id taken
//!          (20 idsrc text idsrc text) write_async of a future which, when the stream first polls it,
//!                               lets ANOTHER THREAD call write_async (second id / text) while that
//!                               poll_next is still running; the thread is joined after the poll
//!          (16) -> (16 b): was the waker handed to the latest poll of the stream woken since?
//!          (17) take_errors() -> (17 ((boundary id message) ..))
//!          (18) await_deferred() -> (18 0) none | (18 1) pending | (18 2) ready
//! child  : (0 text) Ok(text) | (1 text) Err(message) | (2 kind codec text variant) a resource
//!          created in the children | (3 (child ..)) a nested boundary
//! idsrc  : (0 n) the number n | (1 k) the k-th id handed out by next_id so far
use futures::Stream;
use hydration_context::{
    HydrateSharedContext, PinnedFuture, PinnedStream, SerializedDataId, SharedContext,
    SsrSharedContext,
};
use leptos_server::{
    codee::{
        binary::FromToBytesCodec,
        string::{FromToStringCodec, JsonSerdeCodec},
        Decoder, Encoder,
    },
    ArcOnceResource, ArcResource, FromEncodedStr, IntoEncodedString, OnceResource, Resource,
    SharedValue,
};
use reactive_graph::owner::Owner;
use std::{
    cell::RefCell,
    collections::VecDeque,
    future::Future,
    pin::Pin,
    rc::Rc,
    sync::{
        atomic::{AtomicBool, Ordering},
        Arc, Mutex,
    },
    task::{Context, Poll, RawWaker, RawWakerVTable, Wake, Waker},
};
use throw_error::{Error, ErrorId};
use vsexp::{Lst, Num, Sexp};

// ------------------------------------------------------------------ gates: futures the case completes
#[derive(Default)]
struct GateInner {
    value: Option<String>,
    wakers: Vec<Waker>,
}
#[derive(Clone, Default)]
pub struct Gate(Arc<Mutex<GateInner>>);
impl Gate {
    pub fn complete(&self, v: String) {
        let ws = {
            let mut g = self.0.lock().unwrap();
            if g.value.is_some() {
                return;
            }
            g.value = Some(v);
            std::mem::take(&mut g.wakers)
        };
        for w in ws {
            w.wake();
        }
    }
    pub fn is_done(&self) -> bool {
        self.0.lock().unwrap().value.is_some()
    }
}
pub struct GateFuture(pub Gate);
impl Future for GateFuture {
    type Output = String;
    fn poll(self: Pin<&mut Self>, cx: &mut Context<'_>) -> Poll<String> {
        let mut g = self.0 .0.lock().unwrap();
        match &g.value {
            Some(v) => Poll::Ready(v.clone()),
            None => {
                g.wakers.push(cx.waker().clone());
                Poll::Pending
            }
        }
    }
}

/// cmd 20: a data future that, on its first poll, has another thread register more data with
/// the same shared context while the stream's poll_next is still in progress
pub struct CrossFuture {
    gate: Gate,
    fired: bool,
    sc: Arc<dyn SharedContext + Send + Sync>,
    id2: usize,
    gate2: Gate,
    joins: Arc<Mutex<Vec<std::thread::JoinHandle<()>>>>,
}
impl Future for CrossFuture {
    type Output = String;
    fn poll(mut self: Pin<&mut Self>, cx: &mut Context<'_>) -> Poll<String> {
        if !self.fired {
            self.fired = true;
            let sc = Arc::clone(&self.sc);
            let id2 = self.id2;
            let g2 = self.gate2.clone();
            let h = std::thread::spawn(move || {
                sc.write_async(SerializedDataId::new(id2), Box::pin(GateFuture(g2)));
            });
            self.joins.lock().unwrap().push(h);
            // give the other thread time to reach write_async while this poll is running
            std::thread::sleep(std::time::Duration::from_millis(30));
        }
        let mut g = self.gate.0.lock().unwrap();
        match &g.value {
            Some(v) => Poll::Ready(v.clone()),
            None => {
                g.wakers.push(cx.waker().clone());
                Poll::Pending
            }
        }
    }
}

// ------------------------------------------------------------------ deterministic single-thread executor
type Task = Pin<Box<dyn Future<Output = ()>>>;
#[derive(Default)]
struct Exec {
    tasks: RefCell<Vec<Option<Task>>>,
    incoming: RefCell<Vec<Task>>,
    ready: Arc<Mutex<VecDeque<usize>>>,
}
struct TaskWaker {
    idx: usize,
    ready: Arc<Mutex<VecDeque<usize>>>,
}
impl Wake for TaskWaker {
    fn wake(self: Arc<Self>) {
        let mut q = self.ready.lock().unwrap();
        if !q.contains(&self.idx) {
            q.push_back(self.idx);
        }
    }
}
thread_local! {
    static EXEC: Rc<Exec> = Rc::new(Exec::default());
}
struct ExecHandle;
impl any_spawner::CustomExecutor for ExecHandle {
    fn spawn(&self, fut: any_spawner::PinnedFuture<()>) {
        EXEC.with(|e| e.incoming.borrow_mut().push(fut));
    }
    fn spawn_local(&self, fut: any_spawner::PinnedLocalFuture<()>) {
        EXEC.with(|e| e.incoming.borrow_mut().push(fut));
    }
    fn poll_local(&self) {
        run_until_idle();
    }
}
/// run every spawned / woken task, first-in first-out, until nothing is runnable
pub fn run_until_idle() {
    EXEC.with(|e| {
        for _ in 0..100_000 {
            let new: Vec<Task> = std::mem::take(&mut *e.incoming.borrow_mut());
            for t in new {
                let idx = {
                    let mut ts = e.tasks.borrow_mut();
                    ts.push(Some(t));
                    ts.len() - 1
                };
                e.ready.lock().unwrap().push_back(idx);
            }
            let next = e.ready.lock().unwrap().pop_front();
            let Some(idx) = next else {
                if e.incoming.borrow().is_empty() {
                    return;
                }
                continue;
            };
            let task = e.tasks.borrow_mut()[idx].take();
            if let Some(mut task) = task {
                let waker = Waker::from(Arc::new(TaskWaker { idx, ready: Arc::clone(&e.ready) }));
                let mut cx = Context::from_waker(&waker);
                if task.as_mut().poll(&mut cx).is_pending() {
                    e.tasks.borrow_mut()[idx] = Some(task);
                }
            }
        }
        panic!("executor did not become idle");
    })
}
pub fn reset_executor() {
    EXEC.with(|e| {
        e.tasks.borrow_mut().clear();
        e.incoming.borrow_mut().clear();
        e.ready.lock().unwrap().clear();
    })
}
/// install the harness executor (idempotent); other sub-commands call this too
pub fn ensure_executor() {
    init_executor();
}
fn init_executor() {
    thread_local! { static DONE: std::cell::Cell<bool> = const { std::cell::Cell::new(false) }; }
    if !DONE.get() {
        any_spawner::Executor::init_local_custom_executor(ExecHandle)
            .expect("install harness executor");
        DONE.set(true);
    }
}

pub fn noop_waker() -> Waker {
    fn clone(_: *const ()) -> RawWaker {
        RawWaker::new(std::ptr::null(), &VT)
    }
    fn noop(_: *const ()) {}
    static VT: RawWakerVTable = RawWakerVTable::new(clone, noop, noop, noop);
    unsafe { Waker::from_raw(RawWaker::new(std::ptr::null(), &VT)) }
}

/// a waker that records that it was woken (one per poll of the stream)
#[derive(Default)]
struct FlagWaker(AtomicBool);
impl Wake for FlagWaker {
    fn wake(self: Arc<Self>) {
        self.0.store(true, Ordering::SeqCst);
    }
}

// ------------------------------------------------------------------ the server's context, observed
/// Passes every call through to the real `SsrSharedContext` and records what `next_id` handed
/// out (and whether the context was hydrating at that moment), so that the harness knows which
/// ids code inside leptos (`ErrorBoundary`, `throw`, resources created in children) consumed.
#[derive(Debug)]
struct Spy {
    inner: Arc<SsrSharedContext>,
    calls: Mutex<Vec<(usize, bool)>>,
}
impl SharedContext for Spy {
    fn is_browser(&self) -> bool {
        self.inner.is_browser()
    }
    fn next_id(&self) -> SerializedDataId {
        let hydrating = self.inner.get_is_hydrating();
        let id = self.inner.next_id();
        self.calls.lock().unwrap().push((id.clone().into_inner(), hydrating));
        id
    }
    fn write_async(&self, id: SerializedDataId, fut: PinnedFuture<String>) {
        self.inner.write_async(id, fut)
    }
    fn read_data(&self, id: &SerializedDataId) -> Option<String> {
        self.inner.read_data(id)
    }
    fn await_data(&self, id: &SerializedDataId) -> Option<String> {
        self.inner.await_data(id)
    }
    fn pending_data(&self) -> Option<PinnedStream<String>> {
        self.inner.pending_data()
    }
    fn during_hydration(&self) -> bool {
        self.inner.during_hydration()
    }
    fn hydration_complete(&self) {
        self.inner.hydration_complete()
    }
    fn get_is_hydrating(&self) -> bool {
        self.inner.get_is_hydrating()
    }
    fn set_is_hydrating(&self, is_hydrating: bool) {
        self.inner.set_is_hydrating(is_hydrating)
    }
    fn take_errors(&self) -> Vec<(SerializedDataId, ErrorId, Error)> {
        self.inner.take_errors()
    }
    fn errors(&self, boundary_id: &SerializedDataId) -> Vec<(ErrorId, Error)> {
        self.inner.errors(boundary_id)
    }
    fn seal_errors(&self, boundary_id: &SerializedDataId) {
        self.inner.seal_errors(boundary_id)
    }
    fn register_error(&self, b: SerializedDataId, e: ErrorId, error: Error) {
        self.inner.register_error(b, e, error)
    }
    fn defer_stream(&self, wait_for: PinnedFuture<()>) {
        self.inner.defer_stream(wait_for)
    }
    fn await_deferred(&self) -> Option<PinnedFuture<()>> {
        self.inner.await_deferred()
    }
    fn set_incomplete_chunk(&self, id: SerializedDataId) {
        self.inner.set_incomplete_chunk(id)
    }
    fn get_incomplete_chunk(&self, id: &SerializedDataId) -> bool {
        self.inner.get_incomplete_chunk(id)
    }
}

// ------------------------------------------------------------------ a browser-side context without a browser
/// What `HydrateSharedContext` is in the browser, with `window.__RESOLVED_RESOURCES` replaced
/// by a map (`read_data` is the only method of the real type that needs a JavaScript engine):
/// everything else is answered by a real `HydrateSharedContext`.
#[derive(Debug)]
struct BrowserContext {
    real: HydrateSharedContext,
    resolved: std::collections::BTreeMap<usize, String>,
}
impl SharedContext for BrowserContext {
    fn is_browser(&self) -> bool {
        self.real.is_browser()
    }
    fn next_id(&self) -> SerializedDataId {
        self.real.next_id()
    }
    fn write_async(&self, id: SerializedDataId, fut: PinnedFuture<String>) {
        self.real.write_async(id, fut)
    }
    fn read_data(&self, id: &SerializedDataId) -> Option<String> {
        self.resolved.get(&id.clone().into_inner()).cloned()
    }
    fn await_data(&self, _id: &SerializedDataId) -> Option<String> {
        None
    }
    fn pending_data(&self) -> Option<PinnedStream<String>> {
        self.real.pending_data()
    }
    fn during_hydration(&self) -> bool {
        self.real.during_hydration()
    }
    fn hydration_complete(&self) {
        self.real.hydration_complete()
    }
    fn get_is_hydrating(&self) -> bool {
        self.real.get_is_hydrating()
    }
    fn set_is_hydrating(&self, is_hydrating: bool) {
        self.real.set_is_hydrating(is_hydrating)
    }
    fn take_errors(&self) -> Vec<(SerializedDataId, ErrorId, Error)> {
        vec![]
    }
    fn errors(&self, _boundary_id: &SerializedDataId) -> Vec<(ErrorId, Error)> {
        vec![]
    }
    fn seal_errors(&self, b: &SerializedDataId) {
        self.real.seal_errors(b)
    }
    fn register_error(&self, b: SerializedDataId, e: ErrorId, error: Error) {
        self.real.register_error(b, e, error)
    }
    fn defer_stream(&self, wait_for: PinnedFuture<()>) {
        self.real.defer_stream(wait_for)
    }
    fn await_deferred(&self) -> Option<PinnedFuture<()>> {
        self.real.await_deferred()
    }
    fn set_incomplete_chunk(&self, id: SerializedDataId) {
        self.real.set_incomplete_chunk(id)
    }
    fn get_incomplete_chunk(&self, _id: &SerializedDataId) -> bool {
        false
    }
}

// ------------------------------------------------------------------ values, encodings, constructors
/// the value a case string stands for
pub trait Val: Clone + PartialEq + Send + Sync + 'static {
    fn of(s: &str) -> Self;
}
impl Val for String {
    fn of(s: &str) -> Self {
        s.to_string()
    }
}
/// arbitrary bytes: every code point of the case string taken modulo 256
impl Val for Vec<u8> {
    fn of(s: &str) -> Self {
        s.chars().map(|c| c as u32 as u8).collect()
    }
}

/// An encoding with `Encoded = Vec<u8>` that hands the bytes over as they are (what rkyv,
/// bitcode, msgpack .. produce is arbitrary bytes, not UTF-8).
pub struct RawBytes;
impl Encoder<Vec<u8>> for RawBytes {
    type Error = ();
    type Encoded = Vec<u8>;
    fn encode(val: &Vec<u8>) -> Result<Vec<u8>, ()> {
        Ok(val.clone())
    }
}
impl Decoder<Vec<u8>> for RawBytes {
    type Error = ();
    type Encoded = [u8];
    fn decode(val: &[u8]) -> Result<Vec<u8>, ()> {
        Ok(val.to_vec())
    }
}

fn fetch<T: Val>(g: Gate) -> impl Future<Output = T> + Send + 'static {
    async move { T::of(&GateFuture(g).await) }
}

/// The constructors leptos_server names after an encoding (`new`, `new_str`, `new_rkyv`, ..,
/// each with a `_blocking` form); `None`: the encoding has only `new_with_options` /
/// `new_with_encoding`.
trait Named<T: Val>: Sized + 'static {
    const HAS_NAMED: bool = false;
    fn arc_res(_blocking: bool, _g: Gate) -> Option<ArcResource<T, Self>> {
        None
    }
    fn res(_blocking: bool, _g: Gate) -> Option<Resource<T, Self>> {
        None
    }
    fn arc_once(_blocking: bool, _g: Gate) -> Option<ArcOnceResource<T, Self>> {
        None
    }
    fn once(_blocking: bool, _g: Gate) -> Option<OnceResource<T, Self>> {
        None
    }
    fn shared(_v: Box<dyn FnOnce() -> T>) -> Option<SharedValue<T, Self>> {
        None
    }
}
macro_rules! named {
    ($ser:ty, $new:ident, $new_blocking:ident, $sv:ident) => {
        impl Named<String> for $ser {
            const HAS_NAMED: bool = true;
            fn arc_res(blocking: bool, g: Gate) -> Option<ArcResource<String, Self>> {
                Some(if blocking {
                    ArcResource::$new_blocking(|| (), move |_| fetch::<String>(g.clone()))
                } else {
                    ArcResource::$new(|| (), move |_| fetch::<String>(g.clone()))
                })
            }
            fn res(blocking: bool, g: Gate) -> Option<Resource<String, Self>> {
                Some(if blocking {
                    Resource::$new_blocking(|| (), move |_| fetch::<String>(g.clone()))
                } else {
                    Resource::$new(|| (), move |_| fetch::<String>(g.clone()))
                })
            }
            fn arc_once(blocking: bool, g: Gate) -> Option<ArcOnceResource<String, Self>> {
                Some(if blocking {
                    ArcOnceResource::$new_blocking(fetch::<String>(g))
                } else {
                    ArcOnceResource::$new(fetch::<String>(g))
                })
            }
            fn once(blocking: bool, g: Gate) -> Option<OnceResource<String, Self>> {
                Some(if blocking {
                    OnceResource::$new_blocking(fetch::<String>(g))
                } else {
                    OnceResource::$new(fetch::<String>(g))
                })
            }
            fn shared(v: Box<dyn FnOnce() -> String>) -> Option<SharedValue<String, Self>> {
                Some(SharedValue::$sv(v))
            }
        }
    };
}
named!(JsonSerdeCodec, new, new_blocking, new);
named!(FromToStringCodec, new_str, new_str_blocking, new_str);
impl Named<String> for FromToBytesCodec {}
impl Named<Vec<u8>> for RawBytes {}
#[cfg(feature = "full")]
mod optional_encodings {
    use super::*;
    pub use leptos_server::codee::{binary::RkyvCodec, string::MiniserdeCodec, SerdeLite};
    named!(MiniserdeCodec, new_miniserde, new_miniserde_blocking, new_miniserde);
    named!(SerdeLite<JsonSerdeCodec>, new_serde_lite, new_serde_lite_blocking, new_serde_lite);
    named!(RkyvCodec, new_rkyv, new_rkyv_blocking, new_rkyv);
}
#[cfg(feature = "full")]
use optional_encodings::*;

const V_BLOCKING: i64 = 1;
const V_NAMED: i64 = 2;
const V_ARC_SERVER: i64 = 4;
const V_ARENA_BROWSER: i64 = 8;
const V_READY: i64 = 16;
const V_BROWSER_DEFAULT: i64 = 32;

type Kept = Box<dyn std::any::Any>;

/// creates the resource `kind` with the constructor `variant` selects; the caller runs this
/// under the owner it wants
fn construct<T, Ser>(kind: i64, variant: i64, arc: bool, g: Gate, value: T) -> Kept
where
    T: Val,
    Ser: Named<T> + Encoder<T> + Decoder<T> + 'static,
    <Ser as Encoder<T>>::Error: std::fmt::Debug,
    <Ser as Decoder<T>>::Error: std::fmt::Debug,
    <<Ser as Decoder<T>>::Encoded as FromEncodedStr>::DecodingError: std::fmt::Debug,
    <Ser as Encoder<T>>::Encoded: IntoEncodedString,
    <Ser as Decoder<T>>::Encoded: FromEncodedStr,
{
    let blocking = variant & V_BLOCKING != 0;
    let named = variant & V_NAMED != 0;
    match (kind, arc) {
        (2, _) => {
            let init: Box<dyn FnOnce() -> T> = Box::new(move || value);
            if named && Ser::HAS_NAMED {
                Box::new(Ser::shared(init).expect("named SharedValue constructor")) as Kept
            } else {
                Box::new(SharedValue::<T, Ser>::new_with_encoding(init)) as Kept
            }
        }
        (0, true) => {
            let r = named.then(|| Ser::arc_res(blocking, g.clone())).flatten().unwrap_or_else(|| {
                ArcResource::<T, Ser>::new_with_options(|| (), move |_| fetch::<T>(g.clone()), blocking)
            });
            Box::new(r) as Kept
        }
        (0, false) => {
            let r = named.then(|| Ser::res(blocking, g.clone())).flatten().unwrap_or_else(|| {
                Resource::<T, Ser>::new_with_options(|| (), move |_| fetch::<T>(g.clone()), blocking)
            });
            Box::new(r) as Kept
        }
        (_, true) => {
            let r = named
                .then(|| Ser::arc_once(blocking, g.clone()))
                .flatten()
                .unwrap_or_else(|| ArcOnceResource::<T, Ser>::new_with_options(fetch::<T>(g), blocking));
            Box::new(r) as Kept
        }
        (_, false) => {
            let r = named
                .then(|| Ser::once(blocking, g.clone()))
                .flatten()
                .unwrap_or_else(|| OnceResource::<T, Ser>::new_with_options(fetch::<T>(g), blocking));
            Box::new(r) as Kept
        }
    }
}

const MARK: &str = "\u{1}computed again in the browser\u{1}";

/// The real browser-side construction of a Resource / OnceResource / SharedValue with codec
/// `Ser`, under an Owner whose shared context hands out `id` next and holds `wire` under it:
/// the value it hydrates with (`None`: it found nothing it could decode).
fn hydrate_in_browser<T, Ser>(kind: i64, variant: i64, id: usize, wire: &str) -> Option<T>
where
    T: Val,
    Ser: Named<T> + Encoder<T> + Decoder<T> + 'static,
    <Ser as Encoder<T>>::Error: std::fmt::Debug,
    <Ser as Decoder<T>>::Error: std::fmt::Debug,
    <<Ser as Decoder<T>>::Encoded as FromEncodedStr>::DecodingError: std::fmt::Debug,
    <Ser as Encoder<T>>::Encoded: IntoEncodedString,
    <Ser as Decoder<T>>::Encoded: FromEncodedStr,
{
    use reactive_graph::traits::GetUntracked;
    // what leptos::mount::hydrate_body constructs in the browser (or an application through
    // `Default`), `id` calls later
    let real = if variant & V_BROWSER_DEFAULT != 0 {
        HydrateSharedContext::default()
    } else {
        HydrateSharedContext::new()
    };
    for _ in 0..id {
        real.next_id();
    }
    let cx = BrowserContext { real, resolved: [(id, wire.to_string())].into_iter().collect() };
    let owner = Owner::new_root(Some(Arc::new(cx) as Arc<dyn SharedContext + Send + Sync>));
    let arc = variant & V_ARENA_BROWSER == 0;
    let out = owner.with(|| {
        let kept = construct::<T, Ser>(
            kind,
            variant & (V_BLOCKING | V_NAMED),
            arc,
            Gate::default(),
            T::of(MARK),
        );
        // resources are read through the inner async value: their own read warns on stderr
        // about reads outside <Suspense/>
        match (kind, arc) {
            (2, _) => {
                let v = kept.downcast::<SharedValue<T, Ser>>().expect("SharedValue").into_inner();
                (v != T::of(MARK)).then_some(v)
            }
            (0, true) => {
                let r = kept.downcast::<ArcResource<T, Ser>>().expect("ArcResource");
                std::ops::Deref::deref(&*r).get_untracked()
            }
            (0, false) => {
                let r = kept.downcast::<Resource<T, Ser>>().expect("Resource");
                std::ops::Deref::deref(&*r).get_untracked()
            }
            (_, true) => kept
                .downcast::<ArcOnceResource<T, Ser>>()
                .expect("ArcOnceResource")
                .get_untracked(),
            (_, false) => kept
                .downcast::<OnceResource<T, Ser>>()
                .expect("OnceResource")
                .get_untracked(),
        }
    });
    run_until_idle();
    drop(owner);
    out
}

// ------------------------------------------------------------------ helpers
#[derive(Debug, Clone)]
pub struct Msg(pub String);
impl std::fmt::Display for Msg {
    fn fmt(&self, f: &mut std::fmt::Formatter<'_>) -> std::fmt::Result {
        f.write_str(&self.0)
    }
}
impl std::error::Error for Msg {}

fn text(s: &Sexp) -> String {
    s.list()
        .iter()
        .map(|c| char::from_u32(c.num() as u32).expect("case strings are scalar values"))
        .collect()
}
fn cps(s: &str) -> Sexp {
    Lst(s.chars().map(|c| Num(c as i64)).collect())
}
fn dec(n: usize) -> Sexp {
    cps(&n.to_string())
}

/// op 0: how `impl Debug for str` treats each character of `s`, asked of the real formatter:
/// 0 = written as is, 1 = `\u{..}`, 2 = a named escape (`\0 \t \r \n \\ \"`)
fn debug_classes(s: &str) -> Sexp {
    Lst(s
        .chars()
        .map(|c| {
            let lit = format!("{:?}", c.to_string());
            let inner = &lit[1..lit.len() - 1];
            let class = if inner.chars().count() == 1 {
                0
            } else if inner.starts_with("\\u{") {
                1
            } else {
                2
            };
            Lst(vec![Num(c as i64), Num(class)])
        })
        .collect())
}

// ------------------------------------------------------------------ real <ErrorBoundary/>s
/// what the children of a boundary are made of (everything `Send`: the children closure of a
/// component has to be)
enum Child {
    Ok(String),
    Err(String),
    /// creates the resource (and parks it in `KEEP`) when the children are built
    Res(Box<dyn FnOnce() + Send>),
    Nested(Vec<Child>),
}
thread_local! {
    static KEEP: RefCell<Vec<Kept>> = const { RefCell::new(Vec::new()) };
}
mod boundary {
    use super::{Child, Msg};
    use leptos::prelude::*;

    fn build_children(children: Vec<Child>) -> Vec<AnyView> {
        children
            .into_iter()
            .map(|c| match c {
                Child::Ok(t) => Ok::<String, Msg>(t).into_any(),
                Child::Err(m) => Err::<String, Msg>(Msg(m)).into_any(),
                Child::Res(make) => {
                    make();
                    ().into_any()
                }
                Child::Nested(ch) => boundary_view(ch).into_any(),
            })
            .collect()
    }
    fn boundary_view(children: Vec<Child>) -> impl IntoView {
        view! { <ErrorBoundary fallback=|_errors| "fallback">{build_children(children)}</ErrorBoundary> }
    }
    /// a real `<Suspense/>` (or `<Transition/>`) streamed on the server; with `local` its
    /// children read a `LocalResource`, which never loads on the server: the component then
    /// sends its fallback and tells the browser so (`set_incomplete_chunk` under its own id)
    pub fn render_suspense(transition: bool, local: bool, rmode: i64) {
        let children = move || {
            if local {
                let res = LocalResource::new(|| async { 1u32 });
                (move || res.get().map(|v| v.to_string())).into_any()
            } else {
                "loaded".into_any()
            }
        };
        let view = if transition {
            view! { <Transition fallback=|| "fallback">{children()}</Transition> }.into_any()
        } else {
            view! { <Suspense fallback=|| "fallback">{children()}</Suspense> }.into_any()
        };
        match rmode {
            1 => drop(view.to_html_stream_in_order()),
            _ => drop(view.to_html_stream_out_of_order()),
        }
    }

    /// constructs the boundary (and, inside it, its children) and renders it on the server
    pub fn render(children: Vec<Child>, rmode: i64) {
        let view = boundary_view(children).into_view();
        match rmode {
            0 => drop(view.to_html()),
            1 => drop(view.to_html_stream_in_order()),
            _ => drop(view.to_html_stream_out_of_order()),
        }
    }
}

type HtmlStream = Pin<Box<dyn Stream<Item = String> + Send>>;

struct Session {
    sc: Arc<dyn SharedContext + Send + Sync>,
    ssr: Option<Arc<SsrSharedContext>>,
    spy: Option<Arc<Spy>>,
    response: Option<Pin<Box<dyn Future<Output = HtmlStream> + Send>>>,
    client: HydrateSharedContext,
    islands: bool,
    owner: Owner,
    ids: Vec<usize>,
    client_ids: Vec<usize>,
    gates: Vec<Gate>,
    payloads: Vec<String>,
    stream: Option<HtmlStream>,
    ended: bool,
    last_waker: Option<Arc<FlagWaker>>,
    log: Vec<Sexp>,
    keep: Vec<Kept>,
    joins: Arc<Mutex<Vec<std::thread::JoinHandle<()>>>>,
}

/// a resource command, prepared: what to log, and how to create it under the current owner
struct Prepared {
    entry: Sexp,
    make: Box<dyn FnOnce() -> Kept + Send>,
}

impl Session {
    fn idsrc(&self, s: &Sexp) -> usize {
        match s.at(0).num() {
            1 => self.ids.get(s.at(1).num() as usize).copied().unwrap_or(0),
            _ => s.at(1).num() as usize,
        }
    }
    fn new_gate(&mut self, payload: String) -> Gate {
        let g = Gate::default();
        self.gates.push(g.clone());
        self.payloads.push(payload);
        g
    }
    fn poll_once(&mut self) {
        if self.ended {
            self.log.push(Lst(vec![Num(8), Num(2)]));
            return;
        }
        let Some(stream) = self.stream.as_mut() else {
            self.log.push(Lst(vec![Num(8), Num(3)]));
            return;
        };
        // a fresh waker for every poll: the one that has to be woken is the latest
        let flag = Arc::new(FlagWaker::default());
        self.last_waker = Some(Arc::clone(&flag));
        let waker = Waker::from(flag);
        let mut cx = Context::from_waker(&waker);
        let polled = stream.as_mut().poll_next(&mut cx);
        // cmd 20: a registration made from another thread during this poll is complete now
        let hs: Vec<_> = std::mem::take(&mut *self.joins.lock().unwrap());
        for h in hs {
            h.join().expect("the registering thread panicked");
        }
        match polled {
            Poll::Ready(Some(chunk)) => self.log.push(Lst(vec![Num(8), Num(0), cps(&chunk)])),
            Poll::Pending => self.log.push(Lst(vec![Num(8), Num(1)])),
            Poll::Ready(None) => {
                self.ended = true;
                self.log.push(Lst(vec![Num(8), Num(2)]));
            }
        }
    }
    fn start_stream(&mut self) {
        if self.stream.is_some() {
            return;
        }
        if let Some(mut response) = self.response.take() {
            // build_response: the future runs the app and calls pending_data() itself
            let waker = noop_waker();
            let mut cx = Context::from_waker(&waker);
            match response.as_mut().poll(&mut cx) {
                Poll::Ready(stream) => self.stream = Some(stream),
                Poll::Pending => panic!("build_response did not hand over its stream at once"),
            }
        } else {
            self.stream = self.sc.pending_data().map(|s| s as HtmlStream);
        }
    }
    fn complete(&mut self, k: usize) {
        if let Some(g) = self.gates.get(k) {
            g.complete(self.payloads[k].clone());
        }
    }

    /// cmd 12 with the codec `Ser` over values `T`: the string the real server-side encoding
    /// hands over (`Ser::encode` -> `IntoEncodedString`), what the real browser-side
    /// construction of the same resource makes of exactly that string (under an arbitrary id),
    /// and the closure that creates the real Resource / OnceResource / SharedValue
    fn prepare<T, Ser>(&mut self, kind: i64, variant: i64, payload: String) -> Prepared
    where
        T: Val,
        Ser: Named<T> + Encoder<T> + Decoder<T> + 'static,
        <Ser as Encoder<T>>::Error: std::fmt::Debug,
        <Ser as Decoder<T>>::Error: std::fmt::Debug,
        <<Ser as Decoder<T>>::Encoded as FromEncodedStr>::DecodingError: std::fmt::Debug,
        <Ser as Encoder<T>>::Encoded: IntoEncodedString,
        <Ser as Decoder<T>>::Encoded: FromEncodedStr,
    {
        let value = T::of(&payload);
        let wire = Ser::encode(&value).unwrap().into_encoded_string();
        let back = hydrate_in_browser::<T, Ser>(kind, variant, 3, &wire);
        let entry = Lst(vec![Num(13), Sexp::bool(back.as_ref() == Some(&value)), cps(&wire)]);
        let gate = if kind == 2 { Gate::default() } else { self.new_gate(payload.clone()) };
        if variant & V_READY != 0 {
            // the fetcher's future is ready the first time anything polls it
            gate.complete(payload);
        }
        let arc = variant & V_ARC_SERVER != 0;
        Prepared {
            entry,
            make: Box::new(move || construct::<T, Ser>(kind, variant, arc, gate, value)),
        }
    }
    fn prepare_codec(&mut self, kind: i64, codec: i64, variant: i64, payload: String) -> Prepared {
        match codec {
            0 => self.prepare::<String, JsonSerdeCodec>(kind, variant, payload),
            1 => self.prepare::<String, FromToStringCodec>(kind, variant, payload),
            2 => self.prepare::<String, FromToBytesCodec>(kind, variant, payload),
            #[cfg(feature = "full")]
            3 => self.prepare::<String, MiniserdeCodec>(kind, variant, payload),
            #[cfg(feature = "full")]
            4 => self.prepare::<String, SerdeLite<JsonSerdeCodec>>(kind, variant, payload),
            #[cfg(feature = "full")]
            5 => self.prepare::<String, RkyvCodec>(kind, variant, payload),
            6 => self.prepare::<Vec<u8>, RawBytes>(kind, variant, payload),
            other => panic!("encoding {other} is not built into this binary"),
        }
    }
    /// the browser runs the same program; in islands mode only its hydrated parts
    fn browser_repeats(&mut self, hydrating: bool) {
        if !self.islands || hydrating {
            self.client_ids.push(self.client.next_id().into_inner());
        }
    }

    /// cmd 14: `SsrSharedContext::consume_buffers()`, the other way data leaves the context.
    /// The future is polled; whenever it is pending the next unfinished future of `order`
    /// (then the lowest-numbered one) is completed.
    fn consume(&mut self, order: &Sexp) {
        let ssr = Arc::clone(self.ssr.as_ref().expect("consume_buffers needs mode 0 / 1 / 4"));
        let mut fut: Pin<Box<dyn Future<Output = Vec<(SerializedDataId, String)>>>> =
            Box::pin(async move { ssr.consume_buffers().await });
        let mut order: VecDeque<usize> = order.list().iter().map(|k| k.num() as usize).collect();
        let waker = noop_waker();
        let mut cx = Context::from_waker(&waker);
        let mut guard = 0;
        let data = loop {
            guard += 1;
            if guard > 10_000 {
                panic!("consume_buffers did not finish");
            }
            if let Poll::Ready(data) = fut.as_mut().poll(&mut cx) {
                break data;
            }
            let mut next = None;
            while let Some(k) = order.pop_front() {
                if k < self.gates.len() && !self.gates[k].is_done() {
                    next = Some(k);
                    break;
                }
            }
            let next = next.or_else(|| (0..self.gates.len()).find(|k| !self.gates[*k].is_done()));
            match next {
                Some(k) => {
                    self.log.push(Lst(vec![Num(7), Num(k as i64)]));
                    self.complete(k);
                    run_until_idle();
                }
                None => panic!("consume_buffers pending although every future completed"),
            }
        };
        self.log.push(Lst(vec![
            Num(14),
            Lst(data
                .into_iter()
                .map(|(id, d)| Lst(vec![dec(id.into_inner()), cps(&d)]))
                .collect()),
        ]));
    }

    /// cmd 15: a real `<ErrorBoundary/>` whose children throw, create resources and nest
    /// further boundaries, rendered on the server. Which ids leptos consumed (in which order,
    /// hydrating or not) is read off the observing context afterwards and attributed to the
    /// parts of the case in the order the component contract fixes: construction (boundary,
    /// then its children, depth first), then rendering (errors, depth first).
    fn error_boundary(&mut self, rmode: i64, children: &Sexp) {
        let spy = Arc::clone(self.spy.as_ref().expect("<ErrorBoundary/> needs mode 0 / 1 / 4"));
        let first = spy.calls.lock().unwrap().len();
        enum Step {
            Boundary,
            Resource(Sexp),
            Error,
        }
        fn parse(s: &mut Session, children: &Sexp, construct: &mut Vec<Step>, render: &mut Vec<Step>) -> Vec<Child> {
            // the boundary takes its id before its children are built
            construct.push(Step::Boundary);
            let mut out = vec![];
            for c in children.list() {
                match c.at(0).num() {
                    0 => out.push(Child::Ok(text(c.at(1)))),
                    1 => {
                        render.push(Step::Error);
                        out.push(Child::Err(text(c.at(1))));
                    }
                    2 => {
                        let p = s.prepare_codec(c.at(1).num(), c.at(2).num(), c.at(4).num(), text(c.at(3)));
                        construct.push(Step::Resource(p.entry));
                        let make = p.make;
                        out.push(Child::Res(Box::new(move || {
                            let kept = make();
                            KEEP.with(|k| k.borrow_mut().push(kept));
                        })));
                    }
                    _ => {
                        // a nested boundary is constructed where it stands; its errors are
                        // thrown when the rendering walk reaches it
                        let nested = parse(s, c.at(1), construct, render);
                        out.push(Child::Nested(nested));
                    }
                }
            }
            out
        }
        let mut construct = vec![];
        let mut render = vec![];
        let tree = parse(self, children, &mut construct, &mut render);
        let owner = self.owner.clone();
        owner.with(|| boundary::render(tree, rmode));
        self.keep.extend(KEEP.with(|k| std::mem::take(&mut *k.borrow_mut())));

        let calls: Vec<(usize, bool)> = spy.calls.lock().unwrap()[first..].to_vec();
        let steps: Vec<Step> = construct.into_iter().chain(render).collect();
        if calls.len() != steps.len() {
            // not what the component contract says: make it visible
            self.log.push(Lst(vec![Num(95), Num(steps.len() as i64), Num(calls.len() as i64)]));
        }
        for (step, (id, hydrating)) in steps.into_iter().zip(calls) {
            match step {
                Step::Boundary | Step::Error => {
                    self.ids.push(id);
                    self.log.push(Lst(vec![Num(0), dec(id)]));
                }
                Step::Resource(entry) => self.log.push(entry),
            }
            self.browser_repeats(hydrating);
        }
    }

    /// cmd 19: a real `<Suspense/>` / `<Transition/>`; the ids it takes are read off the
    /// observing context like those of a boundary
    fn suspense(&mut self, rmode: i64, transition: bool, local: bool) {
        let spy = Arc::clone(self.spy.as_ref().expect("<Suspense/> needs mode 0 / 1 / 4"));
        let first = spy.calls.lock().unwrap().len();
        let owner = self.owner.clone();
        owner.with(|| boundary::render_suspense(transition, local, rmode));
        let calls: Vec<(usize, bool)> = spy.calls.lock().unwrap()[first..].to_vec();
        for (id, hydrating) in calls {
            self.ids.push(id);
            self.log.push(Lst(vec![Num(0), dec(id)]));
            self.browser_repeats(hydrating);
        }
    }

    fn cmd(&mut self, c: &Sexp) {
        match c.at(0).num() {
            0 => {
                let hydrating = self.sc.get_is_hydrating();
                let id = self.sc.next_id().into_inner();
                self.ids.push(id);
                self.log.push(Lst(vec![Num(0), dec(id)]));
                self.browser_repeats(hydrating);
            }
            1 => self.sc.set_is_hydrating(c.at(1).num() != 0),
            2 => {
                let id = self.idsrc(c.at(1));
                let g = self.new_gate(text(c.at(2)));
                self.sc
                    .write_async(SerializedDataId::new(id), Box::pin(GateFuture(g)));
            }
            20 => {
                let id = self.idsrc(c.at(1));
                let g = self.new_gate(text(c.at(2)));
                let id2 = self.idsrc(c.at(3));
                let g2 = self.new_gate(text(c.at(4)));
                let fut = CrossFuture {
                    gate: g,
                    fired: false,
                    sc: Arc::clone(&self.sc),
                    id2,
                    gate2: g2,
                    joins: Arc::clone(&self.joins),
                };
                self.sc.write_async(SerializedDataId::new(id), Box::pin(fut));
            }
            3 => {
                let b = self.idsrc(c.at(1));
                let e = self.idsrc(c.at(2));
                self.sc.register_error(
                    SerializedDataId::new(b),
                    ErrorId::from(e),
                    Error::from(Msg(text(c.at(3)))),
                );
            }
            4 => self.sc.seal_errors(&SerializedDataId::new(self.idsrc(c.at(1)))),
            5 => self
                .sc
                .set_incomplete_chunk(SerializedDataId::new(self.idsrc(c.at(1)))),
            6 => self.start_stream(),
            7 => self.complete(c.at(1).num() as usize),
            8 => self.poll_once(),
            9 => {
                let b = SerializedDataId::new(self.idsrc(c.at(1)));
                let es = self.sc.errors(&b);
                self.log.push(Lst(vec![
                    Num(9),
                    Lst(es
                        .iter()
                        .map(|(id, e)| Lst(vec![cps(&id.to_string()), cps(&e.to_string())]))
                        .collect()),
                ]));
            }
            10 => {
                let b = SerializedDataId::new(self.idsrc(c.at(1)));
                self.log
                    .push(Lst(vec![Num(10), Sexp::bool(self.sc.get_incomplete_chunk(&b))]));
            }
            12 => {
                let p = self.prepare_codec(c.at(1).num(), c.at(2).num(), c.at(4).num(), text(c.at(3)));
                self.log.push(p.entry);
                let hydrating = self.sc.get_is_hydrating();
                self.browser_repeats(hydrating);
                let owner = self.owner.clone();
                let kept = owner.with(p.make);
                self.keep.push(kept);
            }
            14 => self.consume(c.at(1)),
            15 => self.error_boundary(c.at(1).num(), c.at(2)),
            19 => self.suspense(c.at(1).num(), c.at(2).num() != 0, c.at(3).num() != 0),
            16 => {
                let woken = self
                    .last_waker
                    .as_ref()
                    .map(|w| w.0.load(Ordering::SeqCst))
                    .unwrap_or(false);
                self.log.push(Lst(vec![Num(16), Sexp::bool(woken)]));
            }
            17 => {
                let es = self.sc.take_errors();
                self.log.push(Lst(vec![
                    Num(17),
                    Lst(es
                        .into_iter()
                        .map(|(b, id, e)| {
                            Lst(vec![dec(b.into_inner()), cps(&id.to_string()), cps(&e.to_string())])
                        })
                        .collect()),
                ]));
            }
            18 => {
                let state = match self.sc.await_deferred() {
                    None => 0,
                    Some(mut fut) => {
                        let waker = noop_waker();
                        let mut cx = Context::from_waker(&waker);
                        match fut.as_mut().poll(&mut cx) {
                            Poll::Pending => {
                                // not lost: a blocking resource is still waited for
                                self.sc.defer_stream(fut);
                                1
                            }
                            Poll::Ready(()) => 2,
                        }
                    }
                };
                self.log.push(Lst(vec![Num(18), Num(state)]));
            }
            _ => {}
        }
        run_until_idle();
    }
}

#[cfg(feature = "full")]
fn response_session(nonce: bool) -> (Owner, Pin<Box<dyn Future<Output = HtmlStream> + Send>>) {
    use leptos_integration_utils::{BoxedFnOnce, PinnedFuture as RFuture, PinnedStream as RStream};
    // the smallest possible integration: no application HTML, the hydration scripts only
    fn stream_builder(
        _app: (),
        chunks: BoxedFnOnce<RStream<String>>,
        _supports_ooo: bool,
    ) -> RFuture<RStream<String>> {
        Box::pin(async move { chunks() })
    }
    let additional_context: Box<dyn FnOnce() + Send> = if nonce {
        Box::new(leptos::nonce::provide_nonce)
    } else {
        Box::new(|| ())
    };
    leptos_integration_utils::build_response(|| (), additional_context, stream_builder, false)
}

fn session(c: &Sexp) -> Sexp {
    init_executor();
    reset_executor();
    let mode = c.at(1).num();
    let (sc, ssr, spy, response, owner): (
        Arc<dyn SharedContext + Send + Sync>,
        Option<Arc<SsrSharedContext>>,
        Option<Arc<Spy>>,
        Option<Pin<Box<dyn Future<Output = HtmlStream> + Send>>>,
        Owner,
    ) = match mode {
        #[cfg(feature = "full")]
        2 | 3 => {
            let (owner, response) = response_session(mode == 3);
            let sc = owner.shared_context().expect("build_response provides a shared context");
            (sc, None, None, Some(response), owner)
        }
        _ => {
            let ssr: Arc<SsrSharedContext> = Arc::new(match mode {
                0 => SsrSharedContext::new(),
                1 => SsrSharedContext::new_islands(),
                4 => SsrSharedContext::default(),
                other => panic!("mode {other} is not built into this binary"),
            });
            let spy = Arc::new(Spy { inner: Arc::clone(&ssr), calls: Mutex::new(vec![]) });
            let sc: Arc<dyn SharedContext + Send + Sync> = spy.clone();
            let owner = Owner::new_root(Some(Arc::clone(&sc)));
            (sc, Some(ssr), Some(spy), None, owner)
        }
    };
    // a context that does not hydrate from the start is an islands page: what
    // leptos::mount::{hydrate_body, hydrate_islands} construct in the browser
    let islands = !sc.get_is_hydrating();
    let client = if islands { HydrateSharedContext::new_islands() } else { HydrateSharedContext::new() };
    let mut s = Session {
        sc,
        ssr,
        spy,
        response,
        client,
        islands,
        owner,
        ids: vec![],
        client_ids: vec![],
        gates: vec![],
        payloads: vec![],
        stream: None,
        ended: false,
        last_waker: None,
        log: vec![],
        keep: vec![],
        joins: Arc::new(Mutex::new(vec![])),
    };
    for cmd in c.at(3).list() {
        s.cmd(cmd);
    }
    // drain: start the stream if the script did not, then poll to the end, completing the
    // lowest-numbered unfinished future whenever the stream is pending
    s.start_stream();
    let mut guard = 0;
    while !s.ended {
        guard += 1;
        if guard > 10_000 {
            panic!("stream did not end");
        }
        let before = s.log.len();
        s.poll_once();
        let pending = matches!(s.log[before].at(1).num(), 1);
        if pending {
            match (0..s.gates.len()).find(|k| !s.gates[*k].is_done()) {
                Some(k) => {
                    s.log.push(Lst(vec![Num(7), Num(k as i64)]));
                    s.complete(k);
                    run_until_idle();
                }
                None => panic!("stream pending although every future completed"),
            }
        }
    }
    s.log
        .push(Lst(vec![Num(11), Lst(s.client_ids.iter().map(|i| dec(*i)).collect())]));
    let out = Lst(std::mem::take(&mut s.log));
    drop(s);
    reset_executor();
    out
}

pub fn run(c: &Sexp) -> Sexp {
    match c.at(0).num() {
        0 => debug_classes(&text(c.at(1))),
        1 => session(c),
        _ => Lst(vec![]),
    }
}
