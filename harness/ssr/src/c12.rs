//! C12 — data handed from server to client arrives intact and inert.
//!
//! Drives the real `hydration_context::SsrSharedContext` (and, for the id counters, the real
//! `HydrateSharedContext`) with a scripted session and prints what the property constrains:
//! the ids handed out, what `errors()` / `get_incomplete_chunk()` answer, and every chunk the
//! `pending_data()` stream emits (as code points), for futures completing in the order the
//! case dictates. Higher-level commands create real `Resource` / `OnceResource` /
//! `SharedValue`s under an `Owner` that carries the same shared context.
//!
//! case   : (0 text)                      -> per-char Debug class, computed by real Rust
//!          (1 mode escset (cmd ...))     -> (entry ...)
//! cmd    : (0) next_id | (1 b) set_is_hydrating | (2 idsrc text) write_async
//!          (3 idsrc idsrc text) register_error | (4 idsrc) seal_errors
//!          (5 idsrc) set_incomplete_chunk | (6) pending_data | (7 k) complete future k
//!          (8) poll the stream once | (9 idsrc) errors(boundary) | (10 idsrc) get_incomplete_chunk
//!          (14 order) consume_buffers(), completing futures in `order` while it is pending
//!          (12 kind codec text) Resource(0) / OnceResource(1) / SharedValue(2) with
//!                               JsonSerdeCodec(0) / FromToStringCodec(1) / FromToBytesCodec(2: base64);
//!                               logs (13 b wire): the string handed over, and whether the real
//!                               browser-side construction of the resource under a hydrating
//!                               context holding that string yields the value
//! idsrc  : (0 n) the number n | (1 k) the k-th id handed out by next_id so far
use futures::{Stream, StreamExt};
use hydration_context::{
    HydrateSharedContext, PinnedFuture, PinnedStream, SerializedDataId, SharedContext,
    SsrSharedContext,
};
use leptos_server::{
    codee::{
        binary::FromToBytesCodec,
        string::{FromToStringCodec, JsonSerdeCodec},
        Decoder, Encoder,
    },
    FromEncodedStr, IntoEncodedString, OnceResource, Resource, SharedValue,
};
use reactive_graph::owner::Owner;
use std::{
    cell::RefCell,
    collections::VecDeque,
    future::Future,
    pin::Pin,
    rc::Rc,
    sync::{Arc, Mutex},
    task::{Context, Poll, RawWaker, RawWakerVTable, Wake, Waker},
};
use throw_error::{Error, ErrorId};
use vsexp::{Lst, Num, Sexp};

// ------------------------------------------------------------------ gates: futures the case completes
#[derive(Default)]
struct GateInner {
    value: Option<String>,
    wakers: Vec<Waker>,
}
#[derive(Clone, Default)]
pub struct Gate(Arc<Mutex<GateInner>>);
impl Gate {
    pub fn complete(&self, v: String) {
        let ws = {
            let mut g = self.0.lock().unwrap();
            if g.value.is_some() {
                return;
            }
            g.value = Some(v);
            std::mem::take(&mut g.wakers)
        };
        for w in ws {
            w.wake();
        }
    }
    pub fn is_done(&self) -> bool {
        self.0.lock().unwrap().value.is_some()
    }
}
pub struct GateFuture(pub Gate);
impl Future for GateFuture {
    type Output = String;
    fn poll(self: Pin<&mut Self>, cx: &mut Context<'_>) -> Poll<String> {
        let mut g = self.0 .0.lock().unwrap();
        match &g.value {
            Some(v) => Poll::Ready(v.clone()),
            None => {
                g.wakers.push(cx.waker().clone());
                Poll::Pending
            }
        }
    }
}

// ------------------------------------------------------------------ deterministic single-thread executor
type Task = Pin<Box<dyn Future<Output = ()>>>;
#[derive(Default)]
struct Exec {
    tasks: RefCell<Vec<Option<Task>>>,
    incoming: RefCell<Vec<Task>>,
    ready: Arc<Mutex<VecDeque<usize>>>,
}
struct TaskWaker {
    idx: usize,
    ready: Arc<Mutex<VecDeque<usize>>>,
}
impl Wake for TaskWaker {
    fn wake(self: Arc<Self>) {
        let mut q = self.ready.lock().unwrap();
        if !q.contains(&self.idx) {
            q.push_back(self.idx);
        }
    }
}
thread_local! {
    static EXEC: Rc<Exec> = Rc::new(Exec::default());
}
struct ExecHandle;
impl any_spawner::CustomExecutor for ExecHandle {
    fn spawn(&self, fut: any_spawner::PinnedFuture<()>) {
        EXEC.with(|e| e.incoming.borrow_mut().push(fut));
    }
    fn spawn_local(&self, fut: any_spawner::PinnedLocalFuture<()>) {
        EXEC.with(|e| e.incoming.borrow_mut().push(fut));
    }
    fn poll_local(&self) {
        run_until_idle();
    }
}
/// run every spawned / woken task, first-in first-out, until nothing is runnable
pub fn run_until_idle() {
    EXEC.with(|e| {
        for _ in 0..100_000 {
            let new: Vec<Task> = std::mem::take(&mut *e.incoming.borrow_mut());
            for t in new {
                let idx = {
                    let mut ts = e.tasks.borrow_mut();
                    ts.push(Some(t));
                    ts.len() - 1
                };
                e.ready.lock().unwrap().push_back(idx);
            }
            let next = e.ready.lock().unwrap().pop_front();
            let Some(idx) = next else {
                if e.incoming.borrow().is_empty() {
                    return;
                }
                continue;
            };
            let task = e.tasks.borrow_mut()[idx].take();
            if let Some(mut task) = task {
                let waker = Waker::from(Arc::new(TaskWaker { idx, ready: Arc::clone(&e.ready) }));
                let mut cx = Context::from_waker(&waker);
                if task.as_mut().poll(&mut cx).is_pending() {
                    e.tasks.borrow_mut()[idx] = Some(task);
                }
            }
        }
        panic!("executor did not become idle");
    })
}
pub fn reset_executor() {
    EXEC.with(|e| {
        e.tasks.borrow_mut().clear();
        e.incoming.borrow_mut().clear();
        e.ready.lock().unwrap().clear();
    })
}
/// install the harness executor (idempotent); other sub-commands call this too
pub fn ensure_executor() {
    init_executor();
}
fn init_executor() {
    thread_local! { static DONE: std::cell::Cell<bool> = const { std::cell::Cell::new(false) }; }
    if !DONE.get() {
        any_spawner::Executor::init_local_custom_executor(ExecHandle)
            .expect("install harness executor");
        DONE.set(true);
    }
}

pub fn noop_waker() -> Waker {
    fn clone(_: *const ()) -> RawWaker {
        RawWaker::new(std::ptr::null(), &VT)
    }
    fn noop(_: *const ()) {}
    static VT: RawWakerVTable = RawWakerVTable::new(clone, noop, noop, noop);
    unsafe { Waker::from_raw(RawWaker::new(std::ptr::null(), &VT)) }
}

// ------------------------------------------------------------------ a browser-side context without a browser
/// What `HydrateSharedContext` is in the browser, with `window.__RESOLVED_RESOURCES` replaced
/// by a map: hydrating, ids counted up from `first_id`, `read_data` answers from the map.
#[derive(Debug)]
struct BrowserContext {
    id: std::sync::atomic::AtomicUsize,
    resolved: std::collections::BTreeMap<usize, String>,
}
impl SharedContext for BrowserContext {
    fn is_browser(&self) -> bool {
        true
    }
    fn next_id(&self) -> SerializedDataId {
        SerializedDataId::new(self.id.fetch_add(1, std::sync::atomic::Ordering::Relaxed))
    }
    fn write_async(&self, _id: SerializedDataId, _fut: PinnedFuture<String>) {}
    fn read_data(&self, id: &SerializedDataId) -> Option<String> {
        self.resolved.get(&id.clone().into_inner()).cloned()
    }
    fn await_data(&self, _id: &SerializedDataId) -> Option<String> {
        None
    }
    fn pending_data(&self) -> Option<PinnedStream<String>> {
        None
    }
    fn during_hydration(&self) -> bool {
        true
    }
    fn hydration_complete(&self) {}
    fn get_is_hydrating(&self) -> bool {
        true
    }
    fn set_is_hydrating(&self, _is_hydrating: bool) {}
    fn take_errors(&self) -> Vec<(SerializedDataId, ErrorId, Error)> {
        vec![]
    }
    fn errors(&self, _boundary_id: &SerializedDataId) -> Vec<(ErrorId, Error)> {
        vec![]
    }
    fn seal_errors(&self, _boundary_id: &SerializedDataId) {}
    fn register_error(&self, _b: SerializedDataId, _e: ErrorId, _error: Error) {}
    fn defer_stream(&self, _wait_for: PinnedFuture<()>) {}
    fn await_deferred(&self) -> Option<PinnedFuture<()>> {
        None
    }
    fn set_incomplete_chunk(&self, _id: SerializedDataId) {}
    fn get_incomplete_chunk(&self, _id: &SerializedDataId) -> bool {
        false
    }
}

/// The real browser-side construction of a Resource / OnceResource / SharedValue with codec
/// `Ser`, under an Owner whose shared context hands out `id` next and holds `wire` under it:
/// the value it hydrates with (`None`: it found nothing it could decode).
fn hydrate_in_browser<Ser>(kind: i64, id: usize, wire: &str) -> Option<String>
where
    Ser: Encoder<String> + Decoder<String> + 'static,
    <Ser as Encoder<String>>::Error: std::fmt::Debug,
    <Ser as Decoder<String>>::Error: std::fmt::Debug,
    <<Ser as Decoder<String>>::Encoded as FromEncodedStr>::DecodingError: std::fmt::Debug,
    <Ser as Encoder<String>>::Encoded: IntoEncodedString,
    <Ser as Decoder<String>>::Encoded: FromEncodedStr,
{
    use reactive_graph::traits::GetUntracked;
    let cx = BrowserContext {
        id: std::sync::atomic::AtomicUsize::new(id),
        resolved: [(id, wire.to_string())].into_iter().collect(),
    };
    let owner = Owner::new_root(Some(Arc::new(cx) as Arc<dyn SharedContext + Send + Sync>));
    let out = owner.with(|| match kind {
        2 => {
            const MARK: &str = "\u{1}computed again in the browser\u{1}";
            let v = SharedValue::<String, Ser>::new_with_encoding(|| MARK.to_string()).into_inner();
            (v != MARK).then_some(v)
        }
        0 => {
            // read through the inner async value: ArcResource's own read warns on stderr
            // about reads outside <Suspense/>
            let res = leptos_server::ArcResource::<String, Ser>::new_with_options(
                || (),
                |_| GateFuture(Gate::default()),
                false,
            );
            std::ops::Deref::deref(&res).get_untracked()
        }
        _ => leptos_server::ArcOnceResource::<String, Ser>::new_with_options(
            GateFuture(Gate::default()),
            false,
        )
        .get_untracked(),
    });
    run_until_idle();
    drop(owner);
    out
}

// ------------------------------------------------------------------ helpers
#[derive(Debug, Clone)]
struct Msg(String);
impl std::fmt::Display for Msg {
    fn fmt(&self, f: &mut std::fmt::Formatter<'_>) -> std::fmt::Result {
        f.write_str(&self.0)
    }
}
impl std::error::Error for Msg {}

fn text(s: &Sexp) -> String {
    s.list()
        .iter()
        .map(|c| char::from_u32(c.num() as u32).expect("case strings are scalar values"))
        .collect()
}
fn cps(s: &str) -> Sexp {
    Lst(s.chars().map(|c| Num(c as i64)).collect())
}
fn dec(n: usize) -> Sexp {
    cps(&n.to_string())
}

/// op 0: how `impl Debug for str` treats each character of `s`, asked of the real formatter:
/// 0 = written as is, 1 = `\u{..}`, 2 = a named escape (`\0 \t \r \n \\ \"`)
fn debug_classes(s: &str) -> Sexp {
    Lst(s
        .chars()
        .map(|c| {
            let lit = format!("{:?}", c.to_string());
            let inner = &lit[1..lit.len() - 1];
            let class = if inner.chars().count() == 1 {
                0
            } else if inner.starts_with("\\u{") {
                1
            } else {
                2
            };
            Lst(vec![Num(c as i64), Num(class)])
        })
        .collect())
}

struct Session {
    sc: Arc<dyn SharedContext + Send + Sync>,
    ssr: Arc<SsrSharedContext>,
    client: HydrateSharedContext,
    islands: bool,
    owner: Owner,
    ids: Vec<usize>,
    client_ids: Vec<usize>,
    gates: Vec<Gate>,
    payloads: Vec<String>,
    stream: Option<PinnedStream<String>>,
    ended: bool,
    log: Vec<Sexp>,
    keep: Vec<Box<dyn std::any::Any>>,
}

impl Session {
    fn idsrc(&self, s: &Sexp) -> usize {
        match s.at(0).num() {
            1 => self.ids.get(s.at(1).num() as usize).copied().unwrap_or(0),
            _ => s.at(1).num() as usize,
        }
    }
    fn new_gate(&mut self, payload: String) -> Gate {
        let g = Gate::default();
        self.gates.push(g.clone());
        self.payloads.push(payload);
        g
    }
    fn poll_once(&mut self) {
        if self.ended {
            self.log.push(Lst(vec![Num(8), Num(2)]));
            return;
        }
        let Some(stream) = self.stream.as_mut() else {
            self.log.push(Lst(vec![Num(8), Num(3)]));
            return;
        };
        let waker = noop_waker();
        let mut cx = Context::from_waker(&waker);
        match stream.as_mut().poll_next(&mut cx) {
            Poll::Ready(Some(chunk)) => self.log.push(Lst(vec![Num(8), Num(0), cps(&chunk)])),
            Poll::Pending => self.log.push(Lst(vec![Num(8), Num(1)])),
            Poll::Ready(None) => {
                self.ended = true;
                self.log.push(Lst(vec![Num(8), Num(2)]));
            }
        }
    }
    fn start_stream(&mut self) {
        if self.stream.is_none() {
            self.stream = self.sc.pending_data();
        }
    }
    fn complete(&mut self, k: usize) {
        if let Some(g) = self.gates.get(k) {
            g.complete(self.payloads[k].clone());
        }
    }

    /// cmd 12 with the codec `Ser`: first the pure pair check (the real server-side encoding
    /// handed to the real client-side decoding: `Ser::encode` -> `IntoEncodedString` ->
    /// `FromEncodedStr` -> `Ser::decode`), then the real Resource / OnceResource / SharedValue
    fn resource<Ser>(&mut self, kind: i64, payload: String)
    where
        Ser: Encoder<String> + Decoder<String> + 'static,
        <Ser as Encoder<String>>::Error: std::fmt::Debug,
        <Ser as Decoder<String>>::Error: std::fmt::Debug,
        <<Ser as Decoder<String>>::Encoded as FromEncodedStr>::DecodingError: std::fmt::Debug,
        <Ser as Encoder<String>>::Encoded: IntoEncodedString,
        <Ser as Decoder<String>>::Encoded: FromEncodedStr,
    {
        // the string the server hands over, and what the real browser-side construction of the
        // same resource makes of exactly that string (under an arbitrary id)
        let wire = Ser::encode(&payload).unwrap().into_encoded_string();
        let back = hydrate_in_browser::<Ser>(kind, 3, &wire);
        self.log.push(Lst(vec![
            Num(13),
            Sexp::bool(back.as_ref() == Some(&payload)),
            cps(&wire),
        ]));

        let hydrating = self.sc.get_is_hydrating();
        if !self.islands || hydrating {
            self.client_ids.push(self.client.next_id().into_inner());
        }
        let owner = self.owner.clone();
        type Kept = Box<dyn std::any::Any>;
        let kept: Kept = if kind == 2 {
            owner.with(|| {
                Box::new(SharedValue::<String, Ser>::new_with_encoding(move || payload)) as Kept
            })
        } else {
            let g = self.new_gate(payload);
            owner.with(|| match kind {
                0 => Box::new(Resource::<String, Ser>::new_with_options(
                    || (),
                    move |_| GateFuture(g.clone()),
                    false,
                )) as Kept,
                _ => Box::new(OnceResource::<String, Ser>::new_with_options(GateFuture(g), false))
                    as Kept,
            })
        };
        self.keep.push(kept);
    }

    /// cmd 14: `SsrSharedContext::consume_buffers()`, the other way data leaves the context.
    /// The future is polled; whenever it is pending the next unfinished future of `order`
    /// (then the lowest-numbered one) is completed.
    fn consume(&mut self, order: &Sexp) {
        let ssr = Arc::clone(&self.ssr);
        let mut fut: Pin<Box<dyn Future<Output = Vec<(SerializedDataId, String)>>>> =
            Box::pin(async move { ssr.consume_buffers().await });
        let mut order: VecDeque<usize> = order.list().iter().map(|k| k.num() as usize).collect();
        let waker = noop_waker();
        let mut cx = Context::from_waker(&waker);
        let mut guard = 0;
        let data = loop {
            guard += 1;
            if guard > 10_000 {
                panic!("consume_buffers did not finish");
            }
            if let Poll::Ready(data) = fut.as_mut().poll(&mut cx) {
                break data;
            }
            let mut next = None;
            while let Some(k) = order.pop_front() {
                if k < self.gates.len() && !self.gates[k].is_done() {
                    next = Some(k);
                    break;
                }
            }
            let next = next.or_else(|| (0..self.gates.len()).find(|k| !self.gates[*k].is_done()));
            match next {
                Some(k) => {
                    self.log.push(Lst(vec![Num(7), Num(k as i64)]));
                    self.complete(k);
                    run_until_idle();
                }
                None => panic!("consume_buffers pending although every future completed"),
            }
        };
        self.log.push(Lst(vec![
            Num(14),
            Lst(data
                .into_iter()
                .map(|(id, d)| Lst(vec![dec(id.into_inner()), cps(&d)]))
                .collect()),
        ]));
    }

    fn cmd(&mut self, c: &Sexp) {
        match c.at(0).num() {
            0 => {
                let hydrating = self.sc.get_is_hydrating();
                let id = self.sc.next_id().into_inner();
                self.ids.push(id);
                self.log.push(Lst(vec![Num(0), dec(id)]));
                // the browser runs the same program; in islands mode only its hydrated parts
                if !self.islands || hydrating {
                    self.client_ids.push(self.client.next_id().into_inner());
                }
            }
            1 => self.sc.set_is_hydrating(c.at(1).num() != 0),
            2 => {
                let id = self.idsrc(c.at(1));
                let g = self.new_gate(text(c.at(2)));
                self.sc
                    .write_async(SerializedDataId::new(id), Box::pin(GateFuture(g)));
            }
            3 => {
                let b = self.idsrc(c.at(1));
                let e = self.idsrc(c.at(2));
                self.sc.register_error(
                    SerializedDataId::new(b),
                    ErrorId::from(e),
                    Error::from(Msg(text(c.at(3)))),
                );
            }
            4 => self.sc.seal_errors(&SerializedDataId::new(self.idsrc(c.at(1)))),
            5 => self
                .sc
                .set_incomplete_chunk(SerializedDataId::new(self.idsrc(c.at(1)))),
            6 => self.start_stream(),
            7 => self.complete(c.at(1).num() as usize),
            8 => self.poll_once(),
            9 => {
                let b = SerializedDataId::new(self.idsrc(c.at(1)));
                let es = self.sc.errors(&b);
                self.log.push(Lst(vec![
                    Num(9),
                    Lst(es
                        .iter()
                        .map(|(id, e)| Lst(vec![cps(&id.to_string()), cps(&e.to_string())]))
                        .collect()),
                ]));
            }
            10 => {
                let b = SerializedDataId::new(self.idsrc(c.at(1)));
                self.log
                    .push(Lst(vec![Num(10), Sexp::bool(self.sc.get_incomplete_chunk(&b))]));
            }
            12 => {
                let kind = c.at(1).num();
                let payload = text(c.at(3));
                match c.at(2).num() {
                    0 => self.resource::<JsonSerdeCodec>(kind, payload),
                    1 => self.resource::<FromToStringCodec>(kind, payload),
                    _ => self.resource::<FromToBytesCodec>(kind, payload),
                }
            }
            14 => self.consume(c.at(1)),
            _ => {}
        }
        run_until_idle();
    }
}

fn session(c: &Sexp) -> Sexp {
    init_executor();
    reset_executor();
    let islands = c.at(1).num() != 0;
    let ssr: Arc<SsrSharedContext> = if islands {
        Arc::new(SsrSharedContext::new_islands())
    } else {
        Arc::new(SsrSharedContext::new())
    };
    let sc: Arc<dyn SharedContext + Send + Sync> = ssr.clone();
    // what leptos::mount::{hydrate_body, hydrate_islands} construct in the browser
    let client = HydrateSharedContext::new();
    if islands {
        client.set_is_hydrating(false);
    }
    let owner = Owner::new_root(Some(Arc::clone(&sc)));
    let mut s = Session {
        sc,
        ssr,
        client,
        islands,
        owner,
        ids: vec![],
        client_ids: vec![],
        gates: vec![],
        payloads: vec![],
        stream: None,
        ended: false,
        log: vec![],
        keep: vec![],
    };
    for cmd in c.at(3).list() {
        s.cmd(cmd);
    }
    // drain: start the stream if the script did not, then poll to the end, completing the
    // lowest-numbered unfinished future whenever the stream is pending
    s.start_stream();
    let mut guard = 0;
    while !s.ended {
        guard += 1;
        if guard > 10_000 {
            panic!("stream did not end");
        }
        let before = s.log.len();
        s.poll_once();
        let pending = matches!(s.log[before].at(1).num(), 1);
        if pending {
            match (0..s.gates.len()).find(|k| !s.gates[*k].is_done()) {
                Some(k) => {
                    s.log.push(Lst(vec![Num(7), Num(k as i64)]));
                    s.complete(k);
                    run_until_idle();
                }
                None => panic!("stream pending although every future completed"),
            }
        }
    }
    s.log
        .push(Lst(vec![Num(11), Lst(s.client_ids.iter().map(|i| dec(*i)).collect())]));
    let out = Lst(std::mem::take(&mut s.log));
    drop(s);
    reset_executor();
    out
}

pub fn run(c: &Sexp) -> Sexp {
    match c.at(0).num() {
        0 => debug_classes(&text(c.at(1))),
        1 => session(c),
        _ => Lst(vec![]),
    }
}
