//! Harness for the server-rendering properties. `h_ssr <sub-command>` reads cases on stdin
//! (one sexp per line) and prints one observation per line. One module per property.
mod c06;
mod c12;

fn main() {
    let sub = std::env::args().nth(1).unwrap_or_default();
    match sub.as_str() {
        "c06" => vsexp::drive(c06::run),
        "c12" => vsexp::drive(c12::run),
        other => {
            eprintln!("h_ssr: unknown sub-command {other:?}");
            std::process::exit(2);
        }
    }
}
