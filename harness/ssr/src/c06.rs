//! C06 — server-rendered HTML cannot be altered by the data it contains.
//!
//! Renders views through the real tachys / leptos / leptos_meta server-rendering paths with
//! case-supplied strings in every string-valued position and prints the exact output bytes.
//!
//! case : (1 view)                         builder-API view, `RenderHtml::to_html()`
//!        (2 k)                            k-th fixed macro-inlined (`view!`) view with hostile literals
//!        (3 title metas link html body view shell)
//!                                         document: leptos_meta components + the real
//!                                         ServerMetaContextOutput::inject_meta_context over a shell
//!        (4 k s)                          k-th `view!` template with the dynamic string s in its slot(s)
//!        (5 mode view schedule)           the same view streamed: mode 0 to_html_stream_in_order,
//!                                         1 to_html_stream_out_of_order; schedule: k >= 0 completes
//!                                         future k, -1 polls the stream once; then the stream is
//!                                         polled to its end (lowest pending future completed
//!                                         whenever it is pending); output: all chunks concatenated
//!        (6 mode view schedule)           a whole document: leptos_meta components anywhere in the
//!                                         body view (also below Suspend boundaries), the shell
//!                                         <html><head><meta charset/><MetaTags/></head><body>..
//!                                         streamed in order (mode 0) / out of order (mode 1) through
//!                                         the real inject_meta_context under the schedule; output:
//!                                         (document neutral-document): the second rendering is of the
//!                                         same case with every data string replaced by letters
//!        (9 mode keytype rows)            a keyed list (one <li> per row, the row string is key and text)
//!                                         rendered with branch markers (islands router): mode 0
//!                                         to_html_branching, 1 / 2 in-order / out-of-order branching
//!                                         streams; the keys are written into <!--bo-item-KEY-->
//!        (5 ..) modes 2 / 3               in-order / out-of-order stream with branch markers
//!        (11 mode label view)             an island: <leptos-island data-component data-props> with the
//!                                         props {"label": label} serialised by serde_json (what #[island]
//!                                         does), children (span, <leptos-children> view); mode as (9 ..)
//!        (10 form position s)             the view! literal attribute form `form` in the position `position`
//!        (8 child position s)             the view! child form `child` in the position `position`
//!                                         (macro-inlined literals: static_grid)
//! view : (6 kind variant (strings..) rep) a leptos_meta component (renders nothing in place):
//!                                         kind 0 Title 1 Meta 2 Link 3 Stylesheet 4 Script 5 Style
//!                                         6 Html 7 Body 8 fixed component with hostile literal props;
//!                                         prop i takes strings[i mod len] in representation rep + i
//!        (0 bytes) String child | (1 cp) char child | (3 n) i64 child | (4) unit
//!        (5 k view)  Suspend::new(async { future k; view })
//!        (2 tag attrs children)  tag: index into TAGS
//!        (9 svgtag attrs children)  an element of tachys::svg (svg g style script title text a desc): foreign
//!                        content, in which style / script / title are ordinary elements
//!        (7 k v)  a primitive child (prim(): bool, integers of every width, floats, IpAddr, NonZero)
//!        (8 attrs view)  view.add_any_attr(attrs): attributes handed to a type-erased view from outside
//!                        (the `extra_attrs` path of to_html_with_buf)
//! attr : (7 name k v) a primitive attribute value | (8 snippet ty) inner_html (raw by contract: fixed
//!        well-formed snippets) |
//!        (0 name value ty) | (1 name bool ty) | (2 class ty) | (3 class-name bool ty) | (4 style ty)
//!        (5 prop value ty keyty) | (6 value ty) typed `id`; ty selects the Rust type that carries the
//!        string (String, &str, Arc<str>, Cow, Oco, Option<..>, closures, signals: see with_*_value)
//!        text children: (0 bytes ty)
use futures::StreamExt;
use leptos::prelude::*;
use leptos_meta::*;
use tachys::{
    html::{
        attribute::{any_attribute::{AnyAttribute, IntoAnyAttribute}, custom::custom_attribute, id},
        class::class,
        element::*,
        style::style,
    },
    view::{
        any_view::{AnyView, IntoAny},
        add_attr::AddAnyAttr,
        RenderHtml,
    },
};
use oco_ref::Oco;
use reactive_graph::{computed::ArcMemo, signal::ArcRwSignal};
use std::{borrow::Cow, sync::Arc};
use vsexp::{Lst, Num, Sexp};

pub const TAGS: [&str; 10] =
    ["div", "span", "section", "input", "br", "img", "textarea", "title", "script", "style"];

fn text(s: &Sexp) -> String {
    s.string().expect("case strings are valid UTF-8 by construction")
}

fn leak(s: String) -> &'static str {
    Box::leak(s.into_boxed_str())
}

/// a string attribute value as one of the types that implement `AttributeValue`
/// (tachys/src/html/attribute/value.rs, oco.rs, reactive_graph/mod.rs)
macro_rules! with_attr_value {
    ($ty:expr, $v:expr, |$x:ident| $body:expr) => {{
        let v: String = $v;
        match $ty {
            1 => { let $x = leak(v); $body }
            2 => { let $x: Arc<str> = Arc::from(v); $body }
            3 => { let $x: Oco<'static, str> = Oco::from(v); $body }
            4 => { let $x = Some(v); $body }
            5 => { let $x = move || v.clone(); $body }
            6 => { let $x = move || Oco::<'static, str>::from(v.clone()); $body }
            7 => { let $x = move || Some(v.clone()); $body }
            8 => { let $x: &'static String = Box::leak(Box::new(v)); $body }
            9 => { let $x = ArcRwSignal::new(v); $body }
            10 => { let $x = ArcMemo::new(move |_| v.clone()); $body }
            11 => { let $x = Some(leak(v)); $body }
            // every representation of Oco (Oco::from(String) above is Owned)
            12 => { let $x: Oco<'static, str> = Oco::Borrowed(leak(v)); $body }
            13 => { let $x: Oco<'static, str> = Oco::Counted(Arc::from(v)); $body }
            14 => { let $x: Option<Oco<'static, str>> = Some(Oco::Borrowed(leak(v))); $body }
            15 => { let $x: Option<Oco<'static, str>> = Some(Oco::Counted(Arc::from(v))); $body }
            16 => { let $x: Option<Oco<'static, str>> = Some(Oco::Owned(v)); $body }
            17 => { let l = leak(v); let $x = move || Oco::<'static, str>::Borrowed(l); $body }
            18 => { let a: Arc<str> = Arc::from(v); let $x = move || Oco::<'static, str>::Counted(a.clone()); $body }
            19 => { let $x: Option<Arc<str>> = Some(Arc::from(v)); $body }
            20 => { let l = leak(v); let $x = move || l; $body }
            21 => { let a: Arc<str> = Arc::from(v); let $x = move || a.clone(); $body }
            22 => { let $x = ArcRwSignal::new(Oco::<'static, str>::Borrowed(leak(v))); $body }
            23 => { let l = leak(v); let $x = move || Some(Oco::<'static, str>::Borrowed(l)); $body }
            // every signal type of reactive_impl! (tachys/src/reactive_graph/mod.rs)
            24 => { let $x = RwSignal::new(v); $body }
            25 => { let $x = RwSignal::new(v).read_only(); $body }
            26 => { let $x = Memo::new(move |_| v.clone()); $body }
            27 => { let $x = Signal::derive(move || v.clone()); $body }
            28 => { let $x = ArcRwSignal::new(v).read_only(); $body }
            29 => { let $x = ArcSignal::derive(move || v.clone()); $body }
            30 => { let $x = Signal::stored(v); $body }
            _ => { let $x = v; $body }
        }
    }};
}
pub const N_ATTR_TYPES: i64 = 31;

/// a class string as one of the types that implement `IntoClass` (html/class.rs, oco.rs,
/// reactive_graph/class.rs)
macro_rules! with_class_value {
    ($ty:expr, $v:expr, |$x:ident| $body:expr) => {{
        let v: String = $v;
        match $ty {
            1 => { let $x = leak(v); $body }
            2 => { let $x: Arc<str> = Arc::from(v); $body }
            3 => { let $x: Oco<'static, str> = Oco::from(v); $body }
            4 => { let $x: Cow<'static, str> = Cow::Owned(v); $body }
            5 => { let $x = Some(v); $body }
            6 => { let $x = move || v.clone(); $body }
            7 => { let $x = move || Oco::<'static, str>::from(v.clone()); $body }
            8 => { let $x = ArcRwSignal::new(v); $body }
            9 => { let $x = move || Some(v.clone()); $body }
            10 => { let $x: Cow<'static, str> = Cow::Borrowed(leak(v)); $body }
            11 => { let $x: Oco<'static, str> = Oco::Borrowed(leak(v)); $body }
            12 => { let $x: Oco<'static, str> = Oco::Counted(Arc::from(v)); $body }
            13 => { let $x: Option<Oco<'static, str>> = Some(Oco::Borrowed(leak(v))); $body }
            14 => { let l = leak(v); let $x = move || Oco::<'static, str>::Borrowed(l); $body }
            15 => { let a: Arc<str> = Arc::from(v); let $x = move || Oco::<'static, str>::Counted(a.clone()); $body }
            16 => { let l = leak(v); let $x = move || l; $body }
            17 => { let $x = Some(leak(v)); $body }
            18 => { let $x: Option<Arc<str>> = Some(Arc::from(v)); $body }
            19 => { let a: Arc<str> = Arc::from(v); let $x = move || a.clone(); $body }
            20 => { let l = leak(v); let $x = move || Cow::<'static, str>::Borrowed(l); $body }
            21 => { let $x: Option<Cow<'static, str>> = Some(Cow::Borrowed(leak(v))); $body }
            22 => { let $x = RwSignal::new(v); $body }
            23 => { let $x = RwSignal::new(v).read_only(); $body }
            24 => { let $x = Memo::new(move |_| v.clone()); $body }
            25 => { let $x = Signal::derive(move || v.clone()); $body }
            26 => { let $x = ArcRwSignal::new(v).read_only(); $body }
            27 => { let $x = ArcSignal::derive(move || v.clone()); $body }
            28 => { let $x = ArcMemo::new(move |_| v.clone()); $body }
            _ => { let $x = v; $body }
        }
    }};
}
pub const N_CLASS_TYPES: i64 = 29;

/// a whole style string as one of the types that implement `IntoStyle` (html/style.rs,
/// oco.rs, reactive_graph/style.rs)
macro_rules! with_style_value {
    ($ty:expr, $v:expr, |$x:ident| $body:expr) => {{
        let v: String = $v;
        match $ty {
            1 => { let $x = leak(v); $body }
            2 => { let $x: Arc<str> = Arc::from(v); $body }
            3 => { let $x: Oco<'static, str> = Oco::from(v); $body }
            4 => { let $x = Some(v); $body }
            5 => { let $x = move || v.clone(); $body }
            6 => { let $x = move || Oco::<'static, str>::from(v.clone()); $body }
            7 => { let $x = ArcRwSignal::new(v); $body }
            8 => { let $x = move || Some(v.clone()); $body }
            9 => { let $x = Some(Oco::<'static, str>::from(v)); $body }
            10 => { let $x: Oco<'static, str> = Oco::Borrowed(leak(v)); $body }
            11 => { let $x: Oco<'static, str> = Oco::Counted(Arc::from(v)); $body }
            12 => { let $x: Option<Oco<'static, str>> = Some(Oco::Borrowed(leak(v))); $body }
            13 => { let l = leak(v); let $x = move || Oco::<'static, str>::Borrowed(l); $body }
            14 => { let a: Arc<str> = Arc::from(v); let $x = move || Oco::<'static, str>::Counted(a.clone()); $body }
            15 => { let l = leak(v); let $x = move || l; $body }
            16 => { let $x = Some(leak(v)); $body }
            17 => { let $x: Option<Arc<str>> = Some(Arc::from(v)); $body }
            18 => { let a: Arc<str> = Arc::from(v); let $x = move || a.clone(); $body }
            19 => { let $x = RwSignal::new(v); $body }
            20 => { let $x = RwSignal::new(v).read_only(); $body }
            21 => { let $x = Memo::new(move |_| v.clone()); $body }
            22 => { let $x = Signal::derive(move || v.clone()); $body }
            23 => { let $x = ArcRwSignal::new(v).read_only(); $body }
            24 => { let $x = ArcSignal::derive(move || v.clone()); $body }
            25 => { let $x = ArcMemo::new(move |_| v.clone()); $body }
            _ => { let $x = v; $body }
        }
    }};
}
pub const N_STYLE_TYPES: i64 = 26;

/// a style property value as one of the types that implement `IntoStyleValue`
macro_rules! with_style_prop_value {
    ($ty:expr, $v:expr, |$x:ident| $body:expr) => {{
        let v: String = $v;
        match $ty {
            1 => { let $x = leak(v); $body }
            2 => { let $x: Arc<str> = Arc::from(v); $body }
            3 => { let $x: Oco<'static, str> = Oco::from(v); $body }
            4 => { let $x = Some(v); $body }
            5 => { let $x = move || v.clone(); $body }
            6 => { let $x = move || Oco::<'static, str>::from(v.clone()); $body }
            7 => { let $x = ArcRwSignal::new(v); $body }
            8 => { let $x = Some(leak(v)); $body }
            9 => { let $x: Oco<'static, str> = Oco::Borrowed(leak(v)); $body }
            10 => { let $x: Oco<'static, str> = Oco::Counted(Arc::from(v)); $body }
            11 => { let $x: Option<Oco<'static, str>> = Some(Oco::Borrowed(leak(v))); $body }
            12 => { let l = leak(v); let $x = move || Oco::<'static, str>::Borrowed(l); $body }
            13 => { let l = leak(v); let $x = move || l; $body }
            14 => { let $x: Option<Arc<str>> = Some(Arc::from(v)); $body }
            15 => { let a: Arc<str> = Arc::from(v); let $x = move || a.clone(); $body }
            16 => { let $x = RwSignal::new(v); $body }
            17 => { let $x = Memo::new(move |_| v.clone()); $body }
            18 => { let $x = Signal::derive(move || v.clone()); $body }
            19 => { let $x = ArcSignal::derive(move || v.clone()); $body }
            20 => { let $x = ArcMemo::new(move |_| v.clone()); $body }
            _ => { let $x = v; $body }
        }
    }};
}
pub const N_PROP_TYPES: i64 = 21;

/// the f32 / f64 values of the cases (gen/c06.py FLOATS gives their Display)
const FLOATS: [f64; 8] = [0.5, 1.0, -2.25, f64::NAN, f64::INFINITY, f64::NEG_INFINITY, 1e21, -0.0];

/// a primitive (render_primitive! of view/primitives.rs and html/attribute/value.rs) as child or
/// attribute value
macro_rules! with_prim {
    ($k:expr, $n:expr, |$x:ident| $body:expr, |$c:ident| $cbody:expr) => {{
        use std::net::{IpAddr, Ipv4Addr, Ipv6Addr, SocketAddr};
        use std::num::*;
        let n: i64 = $n;
        match $k {
            0 => { let $x = n as u8; $body }
            1 => { let $x = n as u16; $body }
            2 => { let $x = n as u32; $body }
            3 => { let $x = n as u64; $body }
            4 => { let $x = (n as u64 as u128) << 64 | 7; $body }
            5 => { let $x = n as usize; $body }
            6 => { let $x = n as i8; $body }
            7 => { let $x = n as i16; $body }
            8 => { let $x = n as i32; $body }
            9 => { let $x = (n as i128) << 64; $body }
            10 => { let $x = n as isize; $body }
            11 => { let $x = FLOATS[(n as usize) % 8] as f32; $body }
            12 => { let $x = FLOATS[(n as usize) % 8]; $body }
            13 => { let $x: IpAddr = if n % 2 == 0 { IpAddr::V4(Ipv4Addr::new(127, 0, 0, 1)) } else { IpAddr::V6(Ipv6Addr::LOCALHOST) }; $body }
            14 => { let $x: SocketAddr = SocketAddr::new(IpAddr::V6(Ipv6Addr::LOCALHOST), n as u16); $body }
            15 => { let $x = NonZeroU32::new((n as u32) | 1).unwrap(); $body }
            16 => { let $x = NonZeroI64::new(n | 1).unwrap(); $body }
            17 => { let $x = Ipv4Addr::new(10, 0, 0, n as u8); $body }
            18 => { let $c = n != 0; $cbody }
            _ => { let $x = char::from_u32(n as u32).expect("scalar value"); $body }
        }
    }};
}

/// inner_html is raw by contract: fixed well-formed snippets (gen/c06.py SNIPPETS)
const SNIPPETS: [&str; 6] = [
    "<b>x</b>",
    "a &amp; b",
    "<i title=\"q&quot;\">y</i><br>",
    "",
    "<ul><li>1</li><li>2</li></ul>",
    "&lt;not a tag&gt;",
];

fn attrs(s: &Sexp) -> Vec<AnyAttribute> {
    use tachys::html::element::inner_html;
    s.list()
        .iter()
        .map(|a| match a.at(0).num() {
            7 => {
                let key = text(a.at(1));
                with_prim!(a.at(2).num(), a.at(3).num(), |v| custom_attribute(key, v).into_any_attr(),
                    |b| custom_attribute(key, b.to_string()).into_any_attr())
            }
            8 => {
                let v = SNIPPETS[(a.at(1).num() as usize) % SNIPPETS.len()];
                match a.at(2).num() {
                    1 => inner_html(v.to_string()).into_any_attr(),
                    2 => inner_html(Arc::<str>::from(v)).into_any_attr(),
                    3 => inner_html(Some(v.to_string())).into_any_attr(),
                    4 => inner_html(move || v.to_string()).into_any_attr(),
                    5 => inner_html(ArcRwSignal::new(v.to_string())).into_any_attr(),
                    _ => inner_html(v).into_any_attr(),
                }
            }
            0 => {
                let key = text(a.at(1));
                with_attr_value!(a.at(3).num(), text(a.at(2)), |v| custom_attribute(key, v).into_any_attr())
            }
            1 => match a.at(3).num() {
                1 => {
                    let on = a.at(2).num() != 0;
                    custom_attribute(text(a.at(1)), move || on).into_any_attr()
                }
                _ => custom_attribute(text(a.at(1)), a.at(2).num() != 0).into_any_attr(),
            },
            2 => with_class_value!(a.at(2).num(), text(a.at(1)), |v| class(v).into_any_attr()),
            3 => {
                let name = leak(text(a.at(1)));
                let on = a.at(2).num() != 0;
                match a.at(3).num() {
                    1 => class((name, move || on)).into_any_attr(),
                    2 => class((name, ArcRwSignal::new(on))).into_any_attr(),
                    // tuple_class_reactive!
                    3 => class((name, RwSignal::new(on))).into_any_attr(),
                    4 => class((name, Memo::new(move |_| on))).into_any_attr(),
                    5 => class((name, Signal::derive(move || on))).into_any_attr(),
                    6 => class((name, ArcMemo::new(move |_| on))).into_any_attr(),
                    7 => class((name, RwSignal::new(on).read_only())).into_any_attr(),
                    _ => class((name, on)).into_any_attr(),
                }
            }
            4 => with_style_value!(a.at(2).num(), text(a.at(1)), |v| style(v).into_any_attr()),
            5 => {
                let name = text(a.at(1));
                match a.at(4).num() {
                    1 => {
                        let name = leak(name);
                        with_style_prop_value!(a.at(3).num(), text(a.at(2)), |v| style((name, v)).into_any_attr())
                    }
                    2 => {
                        let name: Arc<str> = Arc::from(name);
                        with_style_prop_value!(a.at(3).num(), text(a.at(2)), |v| style((name, v)).into_any_attr())
                    }
                    _ => with_style_prop_value!(a.at(3).num(), text(a.at(2)), |v| style((name, v)).into_any_attr()),
                }
            }
            _ => with_attr_value!(a.at(2).num(), text(a.at(1)), |v| id(v).into_any_attr()),
        })
        .collect()
}

/// a text child as one of the types that implement `RenderHtml` for text
/// (view/strings.rs, oco.rs, reactive closures, Option)
fn text_child(ty: i64, v: String) -> AnyView {
    match ty {
        1 => leak(v).into_any(),
        2 => Arc::<str>::from(v).into_any(),
        3 => Cow::<'static, str>::Owned(v).into_any(),
        4 => Oco::<'static, str>::from(v).into_any(),
        5 => (move || v.clone()).into_any(),
        6 => Some(v).into_any(),
        7 => (move || Oco::<'static, str>::from(v.clone())).into_any(),
        8 => ArcRwSignal::new(v).into_any(),
        9 => Oco::<'static, str>::Borrowed(leak(v)).into_any(),
        10 => Oco::<'static, str>::Counted(Arc::from(v)).into_any(),
        11 => Cow::<'static, str>::Borrowed(leak(v)).into_any(),
        12 => {
            let l = leak(v);
            (move || Oco::<'static, str>::Borrowed(l)).into_any()
        }
        13 => {
            let l = leak(v);
            (move || l).into_any()
        }
        14 => {
            let a: Arc<str> = Arc::from(v);
            (move || a.clone()).into_any()
        }
        15 => Some(leak(v)).into_any(),
        16 => Some(Oco::<'static, str>::Borrowed(leak(v))).into_any(),
        17 => {
            let l = leak(v);
            (move || Cow::<'static, str>::Borrowed(l)).into_any()
        }
        18 => ArcRwSignal::new(Oco::<'static, str>::Borrowed(leak(v))).into_any(),
        19 => RwSignal::new(v).into_any(),
        20 => RwSignal::new(v).read_only().into_any(),
        21 => Memo::new(move |_| v.clone()).into_any(),
        22 => Signal::derive(move || v.clone()).into_any(),
        23 => ArcRwSignal::new(v).read_only().into_any(),
        24 => ArcSignal::derive(move || v.clone()).into_any(),
        25 => ArcMemo::new(move |_| v.clone()).into_any(),
        26 => Signal::stored(v).into_any(),
        _ => v.into_any(),
    }
}
pub const N_TEXT_TYPES: i64 = 27;

fn seq(mut v: Vec<AnyView>) -> AnyView {
    let first = v.remove(0);
    if v.is_empty() {
        first
    } else {
        (first, seq(v)).into_any()
    }
}

macro_rules! container {
    ($ctor:ident, $at:expr, $kids:expr) => {{
        let el = $ctor().add_any_attr($at);
        if $kids.is_empty() {
            el.into_any()
        } else {
            el.child(seq($kids)).into_any()
        }
    }};
}

thread_local! {
    static GATES: std::cell::RefCell<Vec<crate::c12::Gate>> = const { std::cell::RefCell::new(Vec::new()) };
}
fn gate(k: usize) -> crate::c12::Gate {
    GATES.with(|g| {
        let mut g = g.borrow_mut();
        while g.len() <= k {
            g.push(crate::c12::Gate::default());
        }
        g[k].clone()
    })
}

pub fn view(v: &Sexp) -> AnyView {
    match v.at(0).num() {
        5 => {
            let g = gate(v.at(1).num() as usize);
            let inner = v.at(2).clone();
            tachys::reactive_graph::Suspend::new(async move {
                crate::c12::GateFuture(g).await;
                view(&inner)
            })
            .into_any()
        }
        6 => meta_node(v),
        9 => {
            let at = attrs(v.at(2));
            let kids: Vec<AnyView> = v.at(3).list().iter().map(view).collect();
            match v.at(1).num() {
                0 => container!(svg_svg, at, kids),
                1 => container!(svg_g, at, kids),
                2 => container!(svg_style, at, kids),
                3 => container!(svg_script, at, kids),
                4 => container!(svg_title, at, kids),
                5 => container!(svg_text, at, kids),
                6 => container!(svg_a, at, kids),
                _ => container!(svg_desc, at, kids),
            }
        }
        7 => with_prim!(v.at(1).num(), v.at(2).num(), |x| x.into_any(), |b| b.into_any()),
        8 => view(v.at(2)).add_any_attr(attrs(v.at(1))).into_any(),
        0 => text_child(v.at(2).num(), text(v.at(1))),
        1 => char::from_u32(v.at(1).num() as u32)
            .expect("scalar value")
            .into_any(),
        3 => v.at(1).num().into_any(),
        4 => ().into_any(),
        _ => {
            let at = attrs(v.at(2));
            let kids: Vec<AnyView> = v.at(3).list().iter().map(view).collect();
            match v.at(1).num() {
                0 => container!(div, at, kids),
                1 => container!(span, at, kids),
                2 => container!(section, at, kids),
                3 => input().add_any_attr(at).into_any(),
                4 => br().add_any_attr(at).into_any(),
                5 => img().add_any_attr(at).into_any(),
                6 => container!(textarea, at, kids),
                7 => container!(title, at, kids),
                8 => container!(script, at, kids),
                _ => container!(style_el, at, kids),
            }
        }
    }
}

fn svg_svg() -> tachys::html::element::HtmlElement<tachys::svg::Svg, (), ()> { tachys::svg::svg() }
fn svg_g() -> tachys::html::element::HtmlElement<tachys::svg::G, (), ()> { tachys::svg::g() }
fn svg_style() -> tachys::html::element::HtmlElement<tachys::svg::Style, (), ()> { tachys::svg::style() }
fn svg_script() -> tachys::html::element::HtmlElement<tachys::svg::Script, (), ()> { tachys::svg::script() }
fn svg_title() -> tachys::html::element::HtmlElement<tachys::svg::Title, (), ()> { tachys::svg::title() }
fn svg_text() -> tachys::html::element::HtmlElement<tachys::svg::Text, (), ()> { tachys::svg::text() }
fn svg_a() -> tachys::html::element::HtmlElement<tachys::svg::A, (), ()> { tachys::svg::a() }
fn svg_desc() -> tachys::html::element::HtmlElement<tachys::svg::Desc, (), ()> { tachys::svg::desc() }

fn style_el() -> tachys::html::element::HtmlElement<tachys::html::element::Style, (), ()> {
    tachys::html::element::style()
}

// ------------------------------------------------------------------ macro-inlined literals
fn static_view(k: i64) -> String {
    match k {
        0 => view! { <div id="a\"b" title="<x>&amp;'">"x<y&z>\"'"</div> }.to_html(),
        1 => view! { <span class="c1 \"c2\" <c3>" data-x="</span><img src=x onerror=alert(1)>">"</span><script>alert(1)</script>"</span> }.to_html(),
        2 => view! { <div><span>"a"</span>"<!--"<span>"-->"</span>"]]>"</div> }.to_html(),
        3 => view! { <textarea placeholder="\"><script>">"</textarea><img src=x>"</textarea> }.to_html(),
        4 => view! { <title>"</title><script>alert(1)</script>"</title> }.to_html(),
        5 => view! { <div style="color:red;\"onmouseover=alert(1)">"&lt;&amp;&#60;"</div> }.to_html(),
        6 => view! { <input value="a\"b<c>&d" placeholder="'x'"/> }.to_html(),
        7 => view! { <section><div id="`=`">"`<`"</div><br/><span>"\u{0}\u{2028}\u{1F600}"</span></section> }.to_html(),
        // nested elements are inlined by the macro at compile time (the inert path)
        8 => view! { <div><p>"</p><img src=x onerror=alert(1)>"</p><span title="\"><script>alert(1)</script>">"</span><script>alert(2)</script>"</span></div> }.to_html(),
        9 => view! { <section><div class="a\" onclick=\"alert(1)" data-x="&quot;&amp;">"&lt;b&gt;&amp;amp;<b>x</b>"</div><textarea>"</textarea><img src=x>"</textarea></section> }.to_html(),
        10 => view! { <div><span>"<!--"</span><span>"--><script>alert(1)</script>"</span><input value="'\"><svg onload=alert(1)>"/></div> }.to_html(),
        11 => view! { <ul><li><a href="javascript:alert('x')\"<>">"<a href=x>"</a></li><li id="</li></ul><p>">"</li></ul>"</li></ul> }.to_html(),
        // unquoted text (rstml raw text: the tokens as they are written, spacing not preserved)
        13 => view! { <div>a & b &amp; c</div> }.to_html(),
        14 => view! { <div><p>a & b &amp; c "q" 'r' d</p><span>&lt;b&gt; &#60; x</span></div> }.to_html(),
        // literal text in svg subtrees: root of the view!, and nested in a static (macro-inlined) subtree
        15 => view! { <svg><style>"a<b{}</style><c>&lt;"</style><script>"1<2&amp;"</script><title>"</title><b>"</title><text>"<tspan>&gt;"</text></svg> }.to_html(),
        16 => view! { <section><div class="w"><svg><style>"a<b{}</style><c>&lt;"</style><script>"1<2&amp;"</script><title>"</title><b>"</title><text>"<tspan>&gt;"</text></svg></div><p>"x"</p></section> }.to_html(),
        17 => view! { <div><p><svg><g><style>"x</g><img src=x onerror=alert(1)>"</style></g><desc>"<![CDATA[<b>]]>"</desc></svg></p></div> }.to_html(),
        // the scope class of `view! { class = ..., }`: on every element, inert or not
        _ => view! { class = "g\" onclick=\"alert(1)", <div><p>"static child"</p><span class="own">"x"</span>{1}</div> }.to_html(),
    }
}

// ------------------------------------------------------------------ view! child forms x positions
/// the positions a child can have in a `view!`: root of the invocation (builder path), nested in
/// an otherwise static subtree (macro-inlined at compile time), next to a dynamic attribute /
/// sibling (not inlined), inside text-only elements
macro_rules! grid_positions {
    ($p:expr, $s:ident; $($c:tt)*) => {
        match $p {
            0 => view! { <div>$($c)*</div> }.to_html(),
            1 => view! { <div><span>$($c)*</span></div> }.to_html(),
            2 => view! { <section><div><p>$($c)*</p></div><br/></section> }.to_html(),
            3 => view! { <div><span class="c" title="t">$($c)*</span></div> }.to_html(),
            4 => { let d = $s.clone(); view! { <div><span title=d>$($c)*</span></div> }.to_html() }
            5 => { let d = $s.clone(); view! { <div><span>$($c)*{d}</span></div> }.to_html() }
            6 => view! { <div><textarea>$($c)*</textarea></div> }.to_html(),
            7 => view! { <textarea>$($c)*</textarea> }.to_html(),
            8 => view! { <div><script>$($c)*</script></div> }.to_html(),
            9 => view! { <div><style>$($c)*</style></div> }.to_html(),
            10 => view! { <div><b>"x"</b>$($c)*<i>"y"</i></div> }.to_html(),
            _ => view! { <ul><li>$($c)*</li><li>"two"</li></ul> }.to_html(),
        }
    };
}
pub const N_GRID_POSITIONS: i64 = 12;
pub const N_GRID_CHILDREN: i64 = 23;
const GRID_L0: &str = "<b>x</b>&amp;\"'";

/// every syntactic form of a text-like child with hostile literal text (gen/c06.py: GRID_CHILDREN)
fn static_grid(child: i64, p: i64, s: String) -> String {
    match child {
        0 => grid_positions!(p, s; "<b>x</b>&amp;\"'"),
        1 => grid_positions!(p, s; {"<b>x</b>&amp;\"'"}),
        2 => grid_positions!(p, s; {{"<b>x</b>&amp;\"'"}}),
        3 => grid_positions!(p, s; {("<b>x</b>&amp;\"'")}),
        4 => grid_positions!(p, s; {String::from("<b>x</b>&amp;\"'")}),
        5 => grid_positions!(p, s; {GRID_L0}),
        6 => grid_positions!(p, s; "</textarea></style><img src=x onerror=alert(1)>"),
        7 => grid_positions!(p, s; {"</textarea></style><img src=x onerror=alert(1)>"}),
        8 => grid_positions!(p, s; {{"</textarea></style><img src=x onerror=alert(1)>"}}),
        9 => grid_positions!(p, s; {"</textarea></style><img src=x onerror=alert(1)>".to_string()}),
        10 => grid_positions!(p, s; "</span></div><script>alert(1)</script>"),
        11 => grid_positions!(p, s; {"</span></div><script>alert(1)</script>"}),
        12 => grid_positions!(p, s; {'<'}),
        13 => grid_positions!(p, s; {'&'}),
        14 => grid_positions!(p, s; {1}),
        15 => grid_positions!(p, s; {"<!-- --> ]]> &lt;"}),
        16 => grid_positions!(p, s; "<!-- --> ]]> &lt;"),
        17 => grid_positions!(p, s; {concat!("<i>", "&lt;")}),
        18 => grid_positions!(p, s; "a<" {"<b>"}),
        19 => grid_positions!(p, s; {"<b>"} {"</b>"}),
        20 => grid_positions!(p, s; {move || "<b>x</b>&amp;\"'"}),
        21 => grid_positions!(p, s; {Some("<b>x</b>&amp;\"'")}),
        _ => grid_positions!(p, s; "<b>x</b>&amp;\"'" {"</textarea></style><img src=x onerror=alert(1)>"} "<!-- --> ]]> &lt;"),
    }
}

/// the same for attributes: every syntactic form of a literal attribute value x positions
macro_rules! attr_positions {
    ($p:expr, $s:ident; $($a:tt)*) => {
        match $p {
            0 => view! { <div $($a)*>"x"</div> }.to_html(),
            1 => view! { <div><span $($a)*>"x"</span></div> }.to_html(),
            2 => view! { <section><div><p $($a)*>"x"</p></div><br/></section> }.to_html(),
            3 => { let d = $s.clone(); view! { <div><span $($a)*>{d}</span></div> }.to_html() }
            4 => view! { <div><input $($a)*/></div> }.to_html(),
            5 => view! { <div><textarea $($a)*>"x"</textarea></div> }.to_html(),
            _ => { let d = $s.clone(); view! { <div><span $($a)* lang=d>"x"</span></div> }.to_html() }
        }
    };
}
pub const N_ATTR_GRID_POSITIONS: i64 = 7;
pub const N_ATTR_GRID_FORMS: i64 = 15;
const GRID_A0: &str = "a\"b<c>&amp;'";

fn attr_grid(form: i64, p: i64, s: String) -> String {
    match form {
        0 => attr_positions!(p, s; title="a\"b<c>&amp;'"),
        1 => attr_positions!(p, s; title={"a\"b<c>&amp;'"}),
        2 => attr_positions!(p, s; title=("a\"b<c>&amp;'")),
        3 => attr_positions!(p, s; title=GRID_A0),
        4 => attr_positions!(p, s; title={String::from("a\"b<c>&amp;'")}),
        5 => attr_positions!(p, s; title=concat!("a\"b<c>", "&amp;'")),
        6 => attr_positions!(p, s; class="\"><img src=x onerror=alert(1)>"),
        7 => attr_positions!(p, s; class={"\"><img src=x onerror=alert(1)>"}),
        8 => attr_positions!(p, s; style="\"><img src=x onerror=alert(1)>"),
        9 => attr_positions!(p, s; style={"\"><img src=x onerror=alert(1)>"}),
        10 => attr_positions!(p, s; id="\"><img src=x onerror=alert(1)>"),
        11 => attr_positions!(p, s; id={"\"><img src=x onerror=alert(1)>"}),
        12 => attr_positions!(p, s; data-x="a\"b<c>&amp;'"),
        13 => attr_positions!(p, s; data-x={"a\"b<c>&amp;'"}),
        _ => attr_positions!(p, s; title="a\"b<c>&amp;'" class="\"><img src=x onerror=alert(1)>" id={"\"><img src=x onerror=alert(1)>"}),
    }
}

#[component]
fn Wrapper(children: Children) -> impl IntoView {
    view! { <section lang="en">{children()}</section> }
}

// ------------------------------------------------------------------ view! with dynamic slots
fn template_view(k: i64, s: String) -> String {
    match k {
        0 => view! { <div>{s}</div> }.to_html(),
        1 => {
            let t = s.clone();
            view! { <div title=s>"lit"{t}"lit"</div> }.to_html()
        }
        2 => view! { <span class=s>"x"</span> }.to_html(),
        3 => view! { <span style=s>"x"</span> }.to_html(),
        4 => {
            let t = s.clone();
            view! { <a href=s><b>{t}</b></a> }.to_html()
        }
        5 => view! { <input value=s/> }.to_html(),
        6 => view! { <p>{Some(s)}</p> }.to_html(),
        7 => {
            let t = s.clone();
            view! { <ul><li id=s>{t}</li><li>"two"</li></ul> }.to_html()
        }
        8 => view! { <textarea>{s}</textarea> }.to_html(),
        9 => view! { <div class:active=true class=s></div> }.to_html(),
        10 => view! { <my-element data-payload=s>"slot"</my-element> }.to_html(),
        11 => view! { <title>{s}</title> }.to_html(),
        12 => view! { <p>{move || s.clone()}</p> }.to_html(),
        // the other attribute forms of the macro: style:prop, (name, value) tuples, class arrays
        14 => view! { <span style:color=s>"x"</span> }.to_html(),
        15 => view! { <span style=("background", s)>"x"</span> }.to_html(),
        16 => view! { <div class=("t\"<x", true) class:plain=true class=(["a&b", "c\"d"], true) class=("off", false) class=s></div> }.to_html(),
        // attr: on a component is handed to the root element of what it renders (add_any_attr)
        17 => {
            let t = s.clone();
            let u = s.clone();
            view! { <Wrapper attr:title=s attr:class=t attr:data-w=u>"x"</Wrapper> }.to_html()
        }
        // spread
        18 => {
            let t = s.clone();
            let attrs = view! { <{..} title=s data-k=t/> };
            view! { <div {..attrs}>"x"</div> }.to_html()
        }
        // svg subtrees in view!: dynamic children of style / script / title / text / a / desc
        20 => view! { <svg><style>{s}</style></svg> }.to_html(),
        21 => {
            let (t, u, w) = (s.clone(), s.clone(), s.clone());
            view! { <div><svg viewBox="0 0 1 1"><script>{s}</script><title>{t}</title><text x="1">{u}</text><style>"a{}"{w}</style></svg></div> }.to_html()
        }
        22 => {
            let (t, u) = (s.clone(), s.clone());
            view! { <svg><a href=s><text>{t}</text></a><desc>{u}</desc><g class="c"><text>"k"</text></g></svg> }.to_html()
        }
        // MathML: <style> / <script> below <math> are foreign elements too (open finding F-C06-j)
        23 => {
            let t = s.clone();
            view! { <math><style>{s}</style><mi>{t}</mi></math> }.to_html()
        }
        // a fragment at the root of the view!
        19 => view! { "a<b" {s} <p>"x"</p> }.to_html(),
        _ => {
            // scope class given by an expression; the nested elements take the macro's inert path
            let cls: &'static str = Box::leak(s.into_boxed_str());
            view! { class = cls, <div><p>"static child"</p><span class="own">"x"</span>{1}</div> }.to_html()
        }
    }
}

// ------------------------------------------------------------------ document with leptos_meta
fn opt(s: &Sexp) -> Option<String> {
    s.list().first().map(text)
}

fn document(c: &Sexp) -> String {
    let title = opt(c.at(1));
    let metas: Vec<(String, String)> =
        c.at(2).list().iter().map(|m| (text(m.at(0)), text(m.at(1)))).collect();
    let link = opt(c.at(3));
    let html_lang = opt(c.at(4));
    let body_class = opt(c.at(5));
    let body_view = c.at(6).clone();

    let owner = Owner::new();
    owner.with(|| {
        let (cx, output) = ServerMetaContext::new();
        provide_context(cx);
        provide_meta_context();
        // the components render nothing in place: they register with the ServerMetaContext
        let mut parts: Vec<AnyView> = vec![];
        if let Some(t) = title {
            parts.push(view! { <Title text=t/> }.into_any());
        }
        for (n, c) in metas {
            parts.push(view! { <Meta name=n content=c/> }.into_any());
        }
        if let Some(h) = link {
            parts.push(view! { <Link rel="canonical" href=h/> }.into_any());
        }
        if let Some(l) = html_lang {
            parts.push(view! { <Html attr:lang=l/> }.into_any());
        }
        if let Some(b) = body_class {
            parts.push(view! { <Body attr:class=b/> }.into_any());
        }
        parts.push(view(&body_view));
        let body = seq(parts).to_html();
        // the application shell: c.at(7) = (no-marker static-title split)
        let shell_cfg = c.at(7);
        let marker = if shell_cfg.at(0).num() != 0 { "" } else { "<!--HEAD-->" };
        let static_title = "<title>My App</title>";
        let (t_before, t_after) = match shell_cfg.at(1).num() {
            1 => (static_title, ""),
            2 => ("", static_title),
            _ => ("", ""),
        };
        let shell = format!(
            "<!DOCTYPE html><html><head><meta charset=\"utf-8\">{t_before}{marker}{t_after}</head><body>{body}</body></html>"
        );
        // the first chunk ends somewhere inside the body (per mille of its length), the
        // rest of the document arrives in a second chunk
        let permille = shell_cfg.at(2).num().clamp(0, 1000) as usize;
        let body_start = shell.find("<body>").unwrap() + "<body>".len();
        let mut cut = body_start + (shell.len() - body_start) * permille / 1000;
        while !shell.is_char_boundary(cut) {
            cut += 1;
        }
        let (first, second) = if permille == 0 {
            (shell.clone(), String::new())
        } else {
            (shell[..cut].to_string(), shell[cut..].to_string())
        };
        let stream = futures::stream::iter(vec![first, second, "<!--tail-->".to_string()]);
        let fut = async move {
            let s = output.inject_meta_context(stream).await;
            s.collect::<Vec<String>>().await.concat()
        };
        futures::executor::block_on(fut)
    })
}

type BoxedStream = std::pin::Pin<Box<dyn futures::Stream<Item = String>>>;

/// polls `make()`'s stream under the schedule (k >= 0 completes future k, -1 polls once), then
/// to its end, completing the lowest pending future whenever the stream is pending
fn drive_stream(sched: &Sexp, make: impl FnOnce() -> BoxedStream) -> String {
    use crate::c12::{noop_waker, reset_executor, run_until_idle};
    use std::task::{Context, Poll};
    reset_executor();
    GATES.with(|g| g.borrow_mut().clear());
    let owner = Owner::new();
    let out = owner.with(|| {
        let mut stream = make();
        let waker = noop_waker();
        let mut cx = Context::from_waker(&waker);
        let mut out = String::new();
        let mut ended = false;
        let mut poll = |out: &mut String, ended: &mut bool| -> bool {
            if *ended {
                return false;
            }
            run_until_idle();
            match stream.as_mut().poll_next(&mut cx) {
                Poll::Ready(Some(chunk)) => {
                    out.push_str(&chunk);
                    false
                }
                Poll::Ready(None) => {
                    *ended = true;
                    false
                }
                Poll::Pending => true,
            }
        };
        for step in sched.list() {
            let k = step.num();
            if k < 0 {
                poll(&mut out, &mut ended);
            } else {
                gate(k as usize).complete(String::new());
                run_until_idle();
            }
        }
        let mut guard = 0;
        while !ended {
            guard += 1;
            if guard > 10_000 {
                panic!("stream did not end");
            }
            if poll(&mut out, &mut ended) {
                let n = GATES.with(|g| g.borrow().len());
                match (0..n).find(|k| !gate(*k).is_done()) {
                    Some(k) => {
                        gate(k).complete(String::new());
                        run_until_idle();
                    }
                    None => panic!("stream pending although every future completed"),
                }
            }
        }
        out
    });
    reset_executor();
    out
}

fn streamed(c: &Sexp) -> String {
    drive_stream(c.at(3), || {
        let v = view(c.at(2));
        match c.at(1).num() {
            0 => Box::pin(v.to_html_stream_in_order()),
            1 => Box::pin(v.to_html_stream_out_of_order()),
            2 => Box::pin(v.to_html_stream_in_order_branching()),
            _ => Box::pin(v.to_html_stream_out_of_order_branching()),
        }
    })
}

/// (11 mode label view)
fn island(c: &Sexp) -> String {
    use tachys::html::islands::{Island, IslandChildren};
    let label = text(c.at(2));
    let props = serde_json::to_string(&serde_json::json!({ "label": label })).expect("json");
    let inner = (span().child(label), IslandChildren::new(view(c.at(3))));
    // modes 3..5: an island without props (no data-props attribute)
    let props = if c.at(1).num() >= 3 { String::new() } else { props };
    let v = (Island::new("Counter", inner).with_props(props), p().child("after"));
    match c.at(1).num() % 3 {
        0 => v.to_html(),
        1 => futures::executor::block_on(v.to_html_stream_in_order().collect::<String>()),
        _ => futures::executor::block_on(v.to_html_stream_out_of_order().collect::<String>()),
    }
}

/// (9 mode keytype rows): tachys' keyed list with the keys in the branch comments
fn keyed_list(c: &Sexp) -> String {
    use tachys::view::keyed::keyed;
    let rows: Vec<String> = c.at(3).list().iter().map(text).collect();
    let mode = c.at(1).num();
    macro_rules! render {
        ($v:expr) => {{
            let v = $v;
            match mode {
                0 => v.to_html_branching(),
                1 => futures::executor::block_on(v.to_html_stream_in_order_branching().collect::<String>()),
                _ => futures::executor::block_on(v.to_html_stream_out_of_order_branching().collect::<String>()),
            }
        }};
    }
    match c.at(2).num() {
        // a string key
        0 => render!((
            ul().child(keyed(rows, |r: &String| r.clone(), |_, r: String| (|_: usize| (), li().child(r)))),
            p().child("after")
        )),
        // a structured key
        1 => render!((
            ul().child(keyed(
                rows.into_iter().enumerate().collect::<Vec<_>>(),
                |r: &(usize, String)| (r.1.clone(), r.0),
                |_, r: (usize, String)| (|_: usize| (), li().child(r.1))
            )),
            p().child("after")
        )),
        // leptos' <For/>
        _ => {
            let owner = Owner::new();
            owner.with(|| {
                render!(view! {
                    <ul>
                        <For each=move || rows.clone() key=|r: &String| r.clone() children=|r: String| view! { <li>{r}</li> }/>
                    </ul>
                    <p>"after"</p>
                })
            })
        }
    }
}

// ------------------------------------------------------------------ streamed document with leptos_meta
fn oco(rep: i64, s: String) -> Oco<'static, str> {
    match rep.rem_euclid(3) {
        1 => Oco::Borrowed(leak(s)),  // what `prop="literal"` / a &'static str gives
        2 => Oco::Counted(Arc::from(s)),
        _ => Oco::Owned(s),           // what a String gives
    }
}

fn tprop(rep: i64, s: String) -> leptos::text_prop::TextProp {
    match rep.rem_euclid(6) {
        1 => leak(s).into(),
        2 => Oco::<'static, str>::Borrowed(leak(s)).into(),
        3 => Oco::<'static, str>::Owned(s).into(),
        4 => (move || s.clone()).into(),
        5 => Arc::<str>::from(s).into(),
        _ => s.into(),
    }
}

/// (6 kind variant strings rep)
fn meta_node(v: &Sexp) -> AnyView {
    let strs: Vec<String> = v.at(3).list().iter().map(text).collect();
    let rep = v.at(4).num();
    let st = |i: usize| if strs.is_empty() { String::new() } else { strs[i % strs.len()].clone() };
    let o = |i: usize| oco(rep + i as i64, st(i));
    let t = |i: usize| tprop(rep + i as i64, st(i));
    match (v.at(1).num(), v.at(2).num()) {
        (0, 1) => {
            let pre = st(1);
            view! { <Title text=t(0) formatter=move |t: String| format!("{pre}{t}")/> }.into_any()
        }
        (0, 2) => {
            let pre = st(1);
            view! { <Title formatter=move |t: String| format!("{pre}{t}")/> }.into_any()
        }
        (0, _) => view! { <Title text=t(0)/> }.into_any(),
        (1, 0) => view! { <Meta name=t(0) content=t(1)/> }.into_any(),
        (1, 1) => view! { <Meta property=t(0) content=t(1)/> }.into_any(),
        (1, 2) => view! { <Meta http_equiv=t(0) content=t(1)/> }.into_any(),
        (1, 3) => view! { <Meta charset=t(0)/> }.into_any(),
        (1, _) => view! { <Meta itemprop=t(0) content=t(1) name=t(2)/> }.into_any(),
        (2, 0) => view! { <Link rel=o(0) href=o(1)/> }.into_any(),
        (2, 1) => view! { <Link id=o(0) rel=o(1) href=o(2) title=o(3)/> }.into_any(),
        (2, _) => view! {
            <Link id=o(0) as_=o(1) crossorigin=o(2) fetchpriority=o(3) href=o(4) hreflang=o(5) imagesizes=o(6)
                imagesrcset=o(7) integrity=o(8) media=o(9) referrerpolicy=o(10) rel=o(11) sizes=o(12) title=o(13)
                type_=o(14) blocking=o(15)/>
        }
        .into_any(),
        (3, 0) => view! { <Stylesheet href=st(0)/> }.into_any(),
        (3, _) => view! { <Stylesheet href=st(0) id=st(1)/> }.into_any(),
        (4, 0) => view! { <Script src=o(0) id=o(1)/> }.into_any(),
        (4, 1) => {
            let code = st(1);
            view! { <Script id=o(0)>{code}</Script> }.into_any()
        }
        (4, _) => view! {
            <Script id=o(0) async_=o(1) crossorigin=o(2) defer=o(3) fetchpriority=o(4) integrity=o(5) nomodule=o(6)
                nonce=o(7) referrerpolicy=o(8) src=o(9) type_=o(10) blocking=o(11)/>
        }
        .into_any(),
        (5, 0) => {
            let css = st(0);
            view! { <Style>{css}</Style> }.into_any()
        }
        (5, _) => {
            let css = st(5);
            view! { <Style id=o(0) media=o(1) nonce=o(2) title=o(3) blocking=o(4)>{css}</Style> }.into_any()
        }
        (6, 0) => view! { <Html attr:lang=o(0)/> }.into_any(),
        (6, _) => view! { <Html attr:lang=o(0) attr:dir=o(1)/> }.into_any(),
        (7, 0) => view! { <Body attr:class=o(0)/> }.into_any(),
        (7, _) => view! { <Body attr:class=o(0) attr:id=o(1)/> }.into_any(),
        // hostile literals as props: `prop="lit"` is a &'static str
        (8, 0) => view! { <Link rel="canonical" href="/s?q=1&lt=2\"><img src=x onerror=alert(1)>"/> }.into_any(),
        (8, 1) => view! { <Meta name="desc\"ription" content="a\"><script>alert(1)</script>&amp;"/> }.into_any(),
        (8, 2) => view! { <Stylesheet href="/a.css?x=\"&quot;<" id="s\"id"/> }.into_any(),
        (8, 3) => view! { <Script src="/a.js?\"><b>" id="&lt;"/> }.into_any(),
        (8, 4) => view! { <Title text="</title><script>alert(1)</script>&amp;"/> }.into_any(),
        (8, 5) => view! { <Link id="l\"1" rel="pre\"load" href="&#x3c;x" title="<t>&gt;'"/> }.into_any(),
        (8, 6) => view! { <Style id="st\"yle" media="screen\" onload=\"alert(1)">"b{color:red}"</Style> }.into_any(),
        _ => view! { <Meta property="og:title" content="&quot; onclick=&quot;\" x=\""/> }.into_any(),
    }
}

/// every data string of a view replaced by a word of letters and digits: equal strings by the same
/// word, different strings by different words, the empty string by itself
fn neutral(v: &Sexp, seen: &mut Vec<String>) -> Sexp {
    fn word(s: &Sexp, seen: &mut Vec<String>) -> Sexp {
        let s = text(s);
        if s.is_empty() {
            return Lst(vec![]);
        }
        let k = match seen.iter().position(|x| *x == s) {
            Some(k) => k,
            None => {
                seen.push(s);
                seen.len() - 1
            }
        };
        Sexp::from_str(&format!("w{k}"))
    }
    let l = v.list();
    match v.at(0).num() {
        0 => {
            let mut o = vec![Num(0), word(v.at(1), seen)];
            o.extend(l.iter().skip(2).cloned());
            Lst(o)
        }
        1 => Lst(vec![Num(1), Num(99)]),
        5 => Lst(vec![Num(5), v.at(1).clone(), neutral(v.at(2), seen)]),
        6 => {
            if v.at(1).num() == 8 {
                return v.clone();
            }
            let strs: Vec<Sexp> = v.at(3).list().iter().map(|x| word(x, seen)).collect();
            Lst(vec![Num(6), v.at(1).clone(), v.at(2).clone(), Lst(strs), v.at(4).clone()])
        }
        2 => {
            let at: Vec<Sexp> = v
                .at(2)
                .list()
                .iter()
                .map(|a| {
                    let mut o: Vec<Sexp> = a.list().to_vec();
                    match a.at(0).num() {
                        0 | 5 => o[2] = word(a.at(2), seen),
                        2 | 3 | 4 | 6 => o[1] = word(a.at(1), seen),
                        _ => {}
                    }
                    Lst(o)
                })
                .collect();
            let kids: Vec<Sexp> = v.at(3).list().iter().map(|k| neutral(k, seen)).collect();
            Lst(vec![Num(2), v.at(1).clone(), Lst(at), Lst(kids)])
        }
        _ => v.clone(),
    }
}

fn meta_app(mode: i64, body: &Sexp, sched: &Sexp) -> String {
    drive_stream(sched, || {
        let (cx, output) = ServerMetaContext::new();
        provide_context(cx);
        provide_meta_context();
        let body = view(body);
        let app = view! {
            <!DOCTYPE html>
            <html>
                <head><meta charset="utf-8"/><MetaTags/></head>
                <body>{body}</body>
            </html>
        };
        let stream: std::pin::Pin<Box<dyn futures::Stream<Item = String> + Send>> = if mode == 0 {
            Box::pin(app.to_html_stream_in_order())
        } else {
            Box::pin(app.to_html_stream_out_of_order())
        };
        Box::pin(futures::stream::once(output.inject_meta_context(stream)).flatten())
    })
}

fn meta_document(c: &Sexp) -> Sexp {
    let a = meta_app(c.at(1).num(), c.at(2), c.at(3));
    let b = meta_app(c.at(1).num(), &neutral(c.at(2), &mut Vec::new()), c.at(3));
    Lst(vec![Sexp::from_str(&a), Sexp::from_str(&b)])
}

pub fn run(c: &Sexp) -> Sexp {
    crate::c12::ensure_executor();
    if c.at(0).num() == 6 {
        return meta_document(c);
    }
    let out = match c.at(0).num() {
        1 => Owner::new().with(|| view(c.at(1)).to_html()),
        2 => static_view(c.at(1).num()),
        3 => document(c),
        4 => template_view(c.at(1).num(), text(c.at(2))),
        5 => streamed(c),
        8 => static_grid(c.at(1).num(), c.at(2).num(), text(c.at(3))),
        9 => keyed_list(c),
        11 => island(c),
        10 => attr_grid(c.at(1).num(), c.at(2).num(), text(c.at(3))),
        _ => String::new(),
    };
    Sexp::from_str(&out)
}
