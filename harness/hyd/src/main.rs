//! Harness for C12 (hydration data). `h_hyd c12` reads cases on stdin (one sexp per line) and
//! prints one observation per line. The module is shared with h_ssr (see Cargo.toml).
mod c12;

fn main() {
    let sub = std::env::args().nth(1).unwrap_or_default();
    match sub.as_str() {
        "c12" => vsexp::drive(c12::run),
        other => {
            eprintln!("h_hyd: unknown sub-command {other:?}");
            std::process::exit(2);
        }
    }
}
