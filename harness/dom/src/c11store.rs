//! `h_dom c11` mode 14: the real leptos `<For each=move || store.group().rows() key=|row| row.id().get() …>`
//! over a KEYED FIELD of a `#[derive(Store)]` struct (`#[store(key: i64 = |r| r.id)] rows: Vec<Row>`), mounted
//! with `leptos::mount::mount_to_renderer` on the native DOM.  What `<For>` iterates is
//! `reactive_stores::KeyedSubfield::into_iter` (reactive_stores/src/keyed.rs), its rows are `AtKeyed`
//! subfields; every row renders a field of ITS item through that subfield
//! (`move || row.label().get()`), and owns a `StoredValue` and an `on_cleanup` logger.
//!
//! case `(14 npre npost (l0 l1 … ln) (op0 op1 … opn))`, `op = via + 10 * bump`:
//! `l0` is the collection the store is created with; every further list replaces it, keeping the data
//! (`label`) of the items whose key stays and starting new items at `label = 0`, through
//!   via 0 `*store.group().rows().write() = new`      (the keyed field's own guard)
//!       1 `store.group().write().rows = new`         (the parent of the keyed field)
//!       2 `store.write().group.rows = new`           (the root)
//!       3 `store.set(Data { .. })`                   (the root, whole value)
//!       4 `store.group().rows().set(new)`            (the keyed field)
//!       5 `store.group().update(|g| g.rows = new)`   (the parent)
//!       6 a BATCHED update: `rows().update_untracked(|r| *r = new)` (nobody is notified), then every retained row
//!         writes `label += 1` through its own `AtKeyed` handle and the harness takes that 1 away again from the item
//!         of the row's key (found by id, untracked), then `rows().notify()`: nothing changes if every handle
//!         resolves to the item of its key while the key map has not been refreshed by an iteration yet; a handle
//!         that reads another item's label is reported as dead
//! After every list (and a tick of the executor) the `label` of every rendered row's item is
//! incremented and the executor ticked again, through
//!   bump 0 the row's own `AtKeyed` handle: `row.label().update(|n| *n += 1)`
//!        1 the keyed field: `store.group().rows().write()` (all items in one guard)
//!        2 the root: `store.write()` (all items in one guard)
//! `via` of `op0` selects the variant of the whole case instead: 0 `Store<Data>` (arena handle, keyed field one level
//! below the root); 1 `ArcStore<Data>` (reference-counted handle, cloned into every closure); 2 `Store<Data>` iterated
//! BACKWARDS (`each = store.group().rows().into_iter().rev()`, i.e. `DoubleEndedIterator::next_back`; the lists of
//! the case are the rendered order, the collection holds them reversed); 3 `Store<Flat>`: the keyed field is a field
//! of the ROOT (via 1 / 5 then write through the root as well).
//!
//! observation: exactly that of mode 11 (src/c11for.rs), one entry per list `(A log flags B)`: a row `<li>`
//! shows `key.gen.label`; `count` = the label it shows; `flags` = per rendered key
//! `(key gen handle_dead stored_value_disposed)`, `handle_dead` = the row's `AtKeyed` handle no longer
//! resolves to an item.  Since an item's label is 0 when its row is built and is incremented once per
//! entry, a row that shows its own item's data shows the number of entries since it was built.
use crate::c11for::{tick, visible, AnyHandle};
use any_spawner::Executor;
use leptos::{html::li, mount::mount_to_renderer, prelude::*};
use reactive_stores::{ArcStore, Store, StoreFieldIterator};
use std::{cell::RefCell, collections::HashMap};
use tachys::renderer::dom::Dom;
use vsexp::{Lst, Sexp};

#[derive(Debug, Clone, Store)]
struct Data {
    tag: i64,
    group: Group,
}

#[derive(Debug, Clone, Store)]
struct Group {
    n: i64,
    #[store(key: i64 = |r| r.id)]
    rows: Vec<Row>,
}

#[derive(Debug, Clone, Store)]
struct Row {
    id: i64,
    label: i64,
}

thread_local! {
    static LOG: RefCell<Vec<Sexp>> = RefCell::new(vec![]);
    static GEN: RefCell<i64> = RefCell::new(0);
    /// key -> (gen, stored value, bump-through-the-handle, handle-is-dead)
    static ROWS: RefCell<HashMap<i64, (i64, StoredValue<i64>, std::rc::Rc<dyn Fn()>, std::rc::Rc<dyn Fn() -> bool>, std::rc::Rc<dyn Fn() -> Option<i64>>)>> =
        RefCell::new(HashMap::new());
    /// rows whose handle read another item's label during a batched update
    static STALE: RefCell<Vec<i64>> = RefCell::new(vec![]);
}

#[derive(Debug, Clone, Store)]
struct Flat {
    n: i64,
    #[store(key: i64 = |r| r.id)]
    rows: Vec<Row>,
}

/// the whole case for one kind of store handle.  `($rows)(handle)` = the keyed field; `$rev`: iterate backwards;
/// `$w1 / $w2 / $w3 / $w5` = the writes through parent / root / set / parent update (given the handle and the new rows);
/// `$bump_root` = all labels + 1 through the root's guard
macro_rules! store_case {
    ($c:expr, $new_store:expr, $rows:expr, $rev:expr, $w1:expr, $w2:expr, $w3:expr, $w5:expr, $bump_root:expr) => {{
        let c: &Sexp = $c;
        let (npre, npost) = (c.at(1).num() as usize, c.at(2).num() as usize);
        let rev: bool = $rev;
        let lists: Vec<Vec<i64>> = c.at(3).list().iter().map(|l| l.nums()).collect();
        let ops: Vec<i64> = c.at(4).nums();
        let stored = |l: &Vec<i64>| -> Vec<i64> { if rev { l.iter().rev().copied().collect() } else { l.clone() } };
        let root = Owner::new();
        let out = root.with(|| {
            let parent = Dom::create_element("ul", None);
            let store = ($new_store)(stored(&lists[0]).iter().map(|k| Row { id: *k, label: 0 }).collect::<Vec<Row>>());
            let pre: Vec<String> = (0..npre).map(|i| format!("PRE{i}")).collect();
            let post: Vec<String> = (0..npost).map(|i| format!("POST{i}")).collect();
            macro_rules! row_view { () => { move |row| {
                let k = Clone::clone(&row).id().get_untracked();
                let g = GEN.with(|g| {
                    let v = *g.borrow();
                    *g.borrow_mut() += 1;
                    v
                });
                let stored = StoredValue::new(k);
                let r1 = Clone::clone(&row);
                let bump: std::rc::Rc<dyn Fn()> = std::rc::Rc::new(move || {
                    if let Some(mut w) = Clone::clone(&r1).label().try_write() {
                        *w += 1;
                    }
                });
                let r2 = Clone::clone(&row);
                let dead: std::rc::Rc<dyn Fn() -> bool> =
                    std::rc::Rc::new(move || Clone::clone(&r2).label().try_get_untracked().is_none());
                let r3 = Clone::clone(&row);
                let read: std::rc::Rc<dyn Fn() -> Option<i64>> =
                    std::rc::Rc::new(move || Clone::clone(&r3).label().try_get_untracked());
                ROWS.with(|r| r.borrow_mut().insert(k, (g, stored, bump, dead, read)));
                LOG.with(|l| l.borrow_mut().push(Sexp::from_nums([3, k, g])));
                on_cleanup(move || LOG.with(|l| l.borrow_mut().push(Sexp::from_nums([4, k, g]))));
                li().child(move || format!("{k}.{g}.{}", Clone::clone(&row).label().get()))
            } } }
            let s_each = Clone::clone(&store);
            let handle = if rev {
                mount_to_renderer(&parent, move || {
                    view! {
                        {pre}
                        <For each={move || ($rows)(Clone::clone(&s_each)).into_iter().rev().collect::<Vec<_>>()}
                            key={|row| Clone::clone(row).id().get()} children={row_view!()} />
                        {post}
                    }
                })
                .into_any_handle()
            } else {
                mount_to_renderer(&parent, move || {
                    view! {
                        {pre}
                        <For each={move || ($rows)(Clone::clone(&s_each))} key={|row| Clone::clone(row).id().get()} children={row_view!()} />
                        {post}
                    }
                })
                .into_any_handle()
            };
            let mut out = vec![];
            let mut before: Vec<u64> = vec![];
            for (s, l) in lists.iter().enumerate() {
                let op = ops.get(s).copied().unwrap_or(0);
                if s > 0 {
                    // the new collection: items whose key stays keep their data
                    let old: HashMap<i64, i64> =
                        ($rows)(Clone::clone(&store)).read_untracked().iter().map(|r| (r.id, r.label)).collect();
                    let new: Vec<Row> =
                        stored(l).iter().map(|k| Row { id: *k, label: old.get(k).copied().unwrap_or(0) }).collect();
                    match op % 10 {
                        6 => {
                            let retained: Vec<i64> = l.iter().copied().filter(|k| old.contains_key(k)).collect();
                            ($rows)(Clone::clone(&store)).update_untracked(|r| *r = new);
                            for k in &retained {
                                let (_, _, bump, _, _) = ROWS.with(|r| r.borrow()[k].clone());
                                let reads = ROWS.with(|r| r.borrow()[k].4.clone())();
                                if reads != Some(old[k]) {
                                    STALE.with(|x| x.borrow_mut().push(*k));
                                }
                                bump();
                                ($rows)(Clone::clone(&store)).update_untracked(|r| {
                                    if let Some(row) = r.iter_mut().find(|row| row.id == *k) {
                                        row.label -= 1;
                                    }
                                });
                            }
                            ($rows)(Clone::clone(&store)).notify();
                        }
                        0 => *($rows)(Clone::clone(&store)).write() = new,
                        1 => ($w1)(Clone::clone(&store), new),
                        2 => ($w2)(Clone::clone(&store), new),
                        3 => ($w3)(Clone::clone(&store), new),
                        4 => ($rows)(Clone::clone(&store)).set(new),
                        _ => ($w5)(Clone::clone(&store), new),
                    }
                }
                tick();
                let (a, ids_a) = visible(&parent, &before, false);
                let log = Lst(LOG.with(|x| std::mem::take(&mut *x.borrow_mut())));
                let mut flags = vec![];
                let mut bumps = vec![];
                for k in l {
                    let (g, stored, bump, dead, _) = ROWS.with(|r| r.borrow()[k].clone());
                    let vd = stored.try_get_value().is_none();
                    let stale = STALE.with(|x| x.borrow().contains(k));
                    flags.push(Sexp::from_nums([*k, g, (dead() || stale) as i64, vd as i64]));
                    bumps.push(bump);
                }
                match (op / 10) % 10 {
                    0 => bumps.iter().for_each(|b| b()),
                    1 => ($rows)(Clone::clone(&store)).write().iter_mut().for_each(|r| r.label += 1),
                    _ => ($bump_root)(Clone::clone(&store)),
                }
                STALE.with(|x| x.borrow_mut().clear());
                tick();
                let (b, ids_b) = visible(&parent, &ids_a, false);
                before = ids_b;
                out.push(Lst(vec![a, log, Lst(flags), b]));
            }
            drop(handle);
            Lst(out)
        });
        drop(root);
        out
    }};
}

pub fn run(c: &Sexp) -> Sexp {
    let _ = Executor::init_futures_executor();
    LOG.with(|l| l.borrow_mut().clear());
    GEN.with(|g| *g.borrow_mut() = 0);
    ROWS.with(|r| r.borrow_mut().clear());
    STALE.with(|x| x.borrow_mut().clear());
    let data = |rows: Vec<Row>| Data { tag: 0, group: Group { n: 0, rows } };
    let variant = c.at(4).list().first().map(|o| o.num() % 10).unwrap_or(0);
    let out = match variant {
        1 => store_case!(
            c,
            |rows| ArcStore::new(data(rows)),
            |s: ArcStore<Data>| s.group().rows(),
            false,
            |s: ArcStore<Data>, new| s.group().write().rows = new,
            |s: ArcStore<Data>, new| s.write().group.rows = new,
            |s: ArcStore<Data>, new| {
                let mut d = s.get_untracked();
                d.group.rows = new;
                s.set(d)
            },
            |s: ArcStore<Data>, new| s.group().update(|g| g.rows = new),
            |s: ArcStore<Data>| s.write().group.rows.iter_mut().for_each(|r| r.label += 1)
        ),
        3 => store_case!(
            c,
            |rows| Store::new(Flat { n: 0, rows }),
            |s: Store<Flat>| s.rows(),
            false,
            |s: Store<Flat>, new| s.write().rows = new,
            |s: Store<Flat>, new| s.write().rows = new,
            |s: Store<Flat>, new| s.set(Flat { n: 1, rows: new }),
            |s: Store<Flat>, new| s.update(|f| f.rows = new),
            |s: Store<Flat>| s.write().rows.iter_mut().for_each(|r| r.label += 1)
        ),
        v => store_case!(
            c,
            |rows| Store::new(data(rows)),
            |s: Store<Data>| s.group().rows(),
            v == 2,
            |s: Store<Data>, new| s.group().write().rows = new,
            |s: Store<Data>, new| s.write().group.rows = new,
            |s: Store<Data>, new| {
                let mut d = s.get_untracked();
                d.group.rows = new;
                s.set(d)
            },
            |s: Store<Data>, new| s.group().update(|g| g.rows = new),
            |s: Store<Data>| s.write().group.rows.iter_mut().for_each(|r| r.label += 1)
        ),
    };
    ROWS.with(|r| r.borrow_mut().clear());
    tick();
    out
}
