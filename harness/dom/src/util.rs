//! Helpers shared by the sub-commands.
use tachys::renderer::dom::{self as ndom, Dom, Element, Kind, Node};
use vsexp::{Lst, Num, Sexp};

/// A fresh `<div>` holding text siblings `pre…` then `post…`; returns the parent and the
/// first `post` node (the marker to mount before), if any.
pub fn parent_with_siblings(pre: usize, post: usize) -> (Element, Option<Node>) {
    let parent = Dom::create_element("div", None);
    for i in 0..pre {
        let t = Dom::create_text_node(&format!("PRE{i}"));
        Dom::insert_node(&parent, &t, None);
    }
    let mut marker = None;
    for i in 0..post {
        let t = Dom::create_text_node(&format!("POST{i}"));
        Dom::insert_node(&parent, &t, None);
        if i == 0 {
            marker = Some(t.0.clone());
        }
    }
    (parent, marker)
}

/// Children of `parent` without comment nodes (placeholders/markers are not part of the
/// rendered output), serialised.
pub fn visible(parent: &Node) -> String {
    parent
        .children()
        .iter()
        .filter(|c| c.kind() != Kind::Comment)
        .map(|c| strip_comments(&c.serialize()))
        .collect()
}

/// Removes `<!--…-->` from a serialisation.
pub fn strip_comments(s: &str) -> String {
    let mut out = String::new();
    let mut rest = s;
    while let Some(i) = rest.find("<!--") {
        out.push_str(&rest[..i]);
        match rest[i..].find("-->") {
            Some(j) => rest = &rest[i + j + 3..],
            None => {
                rest = "";
            }
        }
    }
    out.push_str(rest);
    out
}

pub fn ids(nodes: &[Node]) -> Sexp {
    Lst(nodes.iter().map(|n| Num(n.id() as i64)).collect())
}

/// A minimal HTML parser for `set_html_parser`: elements with double-quoted attributes,
/// text, comments (`<!>` and `<!--x-->`), void elements; no entities except `&amp; &lt; &gt; &quot;`.
pub fn parse_html(html: &str) -> Vec<Node> {
    const VOID: &[&str] = &["area", "base", "br", "col", "embed", "hr", "img", "input", "link", "meta", "source", "track", "wbr"];
    fn unescape(s: &str) -> String {
        s.replace("&lt;", "<").replace("&gt;", ">").replace("&quot;", "\"").replace("&#39;", "'").replace("&amp;", "&")
    }
    let root = Dom::create_fragment();
    let mut stack: Vec<Element> = vec![root.clone()];
    let b = html.as_bytes();
    let mut i = 0;
    while i < b.len() {
        let top = stack.last().unwrap().clone();
        if b[i] == b'<' {
            if html[i..].starts_with("<!--") {
                let end = html[i + 4..].find("-->").map(|e| i + 4 + e).unwrap_or(b.len());
                let c = Dom::create_comment(&html[i + 4..end]);
                Dom::insert_node(&top, &c, None);
                i = (end + 3).min(b.len());
            } else if html[i..].starts_with("<!") {
                let end = html[i..].find('>').map(|e| i + e).unwrap_or(b.len());
                let c = Dom::create_comment("");
                Dom::insert_node(&top, &c, None);
                i = end + 1;
            } else if html[i..].starts_with("</") {
                let end = html[i..].find('>').map(|e| i + e).unwrap_or(b.len());
                let name = html[i + 2..end].trim();
                if let Some(pos) = stack.iter().rposition(|e| e.tag().as_deref() == Some(name)) {
                    stack.truncate(pos);
                }
                i = end + 1;
            } else {
                let mut j = i + 1;
                while j < b.len() && !(b[j] as char).is_ascii_whitespace() && b[j] != b'>' && b[j] != b'/' {
                    j += 1;
                }
                let tag = &html[i + 1..j];
                let el = Dom::create_element(tag, None);
                loop {
                    while j < b.len() && ((b[j] as char).is_ascii_whitespace() || b[j] == b'/') {
                        j += 1;
                    }
                    if j >= b.len() || b[j] == b'>' {
                        break;
                    }
                    let ks = j;
                    while j < b.len() && b[j] != b'=' && b[j] != b'>' && !(b[j] as char).is_ascii_whitespace() && b[j] != b'/' {
                        j += 1;
                    }
                    let key = &html[ks..j];
                    let mut val = String::new();
                    if j < b.len() && b[j] == b'=' {
                        j += 1;
                        if j < b.len() && (b[j] == b'"' || b[j] == b'\'') {
                            let q = b[j];
                            let vs = j + 1;
                            j = vs;
                            while j < b.len() && b[j] != q {
                                j += 1;
                            }
                            val = unescape(&html[vs..j]);
                            j += 1;
                        } else {
                            let vs = j;
                            while j < b.len() && b[j] != b'>' && !(b[j] as char).is_ascii_whitespace() {
                                j += 1;
                            }
                            val = unescape(&html[vs..j]);
                        }
                    }
                    Dom::set_attribute(&el, key, &val);
                }
                i = j + 1;
                Dom::insert_node(&top, &el, None);
                if !VOID.contains(&tag) {
                    stack.push(el);
                }
            }
        } else {
            let end = html[i..].find('<').map(|e| i + e).unwrap_or(b.len());
            let t = Dom::create_text_node(&unescape(&html[i..end]));
            Dom::insert_node(&top, &t, None);
            i = end;
        }
    }
    root.children()
}

pub fn install_parser() {
    ndom::set_html_parser(parse_html);
}
