//! `h_dom c03`, view code 30: STATICALLY TYPED view templates.
//!
//! Everywhere else in `c03.rs` every child position is an `AnyView`, and `into_any()` first converts a
//! view into its owned form (`&str` -> `String`, `Cow` -> `String`, a class given as `&str` -> `Arc<str>` …):
//! the `Render` / `AttributeValue` / `IntoClass` / `IntoStyle` / `InnerHtmlValue` impls of the borrowed and
//! of most typed forms are never rebuilt there.  Here a case names one of the templates below and a
//! parameter vector per step: `v = (30 template erase (p0 p1 …))`; the template maps the parameters to a
//! concrete typed view, which is built, mounted between the siblings, rebuilt with the view of every
//! further parameter vector — all steps of a case use the same template — and unmounted, exactly like
//! `c03::run_case`; every step is also rendered from scratch.  `erase = 1` wraps the same typed view in
//! `into_any()` (the owned / cloneable forms of every part).
//!
//! observation: as in `c03.rs`, but an element is
//! `(3 tag ((name value)…) ((css-property value)…) ((dom-property value)…) (children…) old)` with ALL its
//! attributes (sorted by name), inline styles and properties.
//!
//! Not compared with the Coq model (which has `AnyView` at every position): judged by the oracle only.
use crate::c03::{Boom, INERT};
use crate::util::parent_with_siblings;
use either_of::{Either, EitherOf3, EitherOf4, EitherOf7};
use std::{borrow::Cow, cell::RefCell, collections::HashMap, collections::HashSet, rc::Rc, sync::Arc};
use tachys::{
    html::{
        attribute::{
            custom::CustomAttribute,
            global::{ClassAttribute, GlobalAttributes, PropAttribute, StyleAttribute},
        },
        element::{
            br, custom, div, img, input, li, p as p_el, span, ul, ElementChild, InnerHtmlAttribute,
        },
        InertElement,
    },
    renderer::dom::{Kind, Node},
    view::{
        any_view::IntoAny, either::EitherKeepAlive, iterators::StaticVec, keyed::keyed, template::ViewTemplate, Mountable,
        Render,
    },
};
use vsexp::{Lst, Num, Sexp};

const TEXTS: [&str; 5] = ["", "a", "b", "cc", "<x>"];
const CLASSES: [&str; 6] = ["", "a", "b", "a b", "on", "a on"];
const COLORS: [&str; 3] = ["red", "blue", "green"];
const STYLES: [&str; 3] = ["color: red", "color: blue; margin: 0", ""];
const HTMLS: [&str; 4] = ["", "<b>x</b>", "plain", "<i>y</i><i>z</i>"];

fn at(p: &[i64], i: usize) -> i64 {
    p.get(i).copied().unwrap_or(0).max(0)
}
fn t(p: &[i64], i: usize) -> &'static str {
    TEXTS[at(p, i) as usize % 5]
}
fn s(p: &[i64], i: usize) -> String {
    t(p, i).to_string()
}
thread_local! {
    static ARCS: RefCell<HashMap<&'static str, Arc<str>>> = RefCell::new(HashMap::new());
    static RCS: RefCell<HashMap<&'static str, Rc<str>>> = RefCell::new(HashMap::new());
    static STRINGS: RefCell<HashMap<&'static str, &'static String>> = RefCell::new(HashMap::new());
}
/// the same pointer for the same text when the parameter is < 5, a new allocation otherwise
fn arc_of(text: &'static str, shared: bool) -> Arc<str> {
    if shared {
        ARCS.with(|a| a.borrow_mut().entry(text).or_insert_with(|| Arc::from(text)).clone())
    } else {
        Arc::from(text)
    }
}
fn arc(p: &[i64], i: usize) -> Arc<str> {
    arc_of(t(p, i), at(p, i) < 5)
}
fn rc(p: &[i64], i: usize) -> Rc<str> {
    if at(p, i) < 5 {
        RCS.with(|a| a.borrow_mut().entry(t(p, i)).or_insert_with(|| Rc::from(t(p, i))).clone())
    } else {
        Rc::from(t(p, i))
    }
}
fn cow(p: &[i64], i: usize) -> Cow<'static, str> {
    if at(p, i) < 5 {
        Cow::Borrowed(t(p, i))
    } else {
        Cow::Owned(s(p, i))
    }
}
fn sref(text: &'static str) -> &'static String {
    STRINGS.with(|a| *a.borrow_mut().entry(text).or_insert_with(|| Box::leak(Box::new(text.to_string()))))
}
/// `&str` values that are PREFIXES OF ONE BUFFER: successive values of a position start at the same address and
/// differ only in length (a pointer-equality shortcut in a rebuild is wrong for them)
const BUF: &str = "hello world<x>";
const CBUF: &str = "a b on c";
const SBUF: &str = "color: red; margin: 0";
fn pre(p: &[i64], i: usize) -> &'static str {
    &BUF[..[0, 1, 5, 11, 14, 5][at(p, i) as usize % 6]]
}
fn cpre(p: &[i64], i: usize) -> &'static str {
    &CBUF[..[0, 1, 3, 6, 8][at(p, i) as usize % 5]]
}
fn spre(p: &[i64], i: usize) -> &'static str {
    &SBUF[..[0, 10, 21][at(p, i) as usize % 3]]
}
fn some(p: &[i64], i: usize) -> bool {
    at(p, i) % 3 != 0
}
fn b(p: &[i64], i: usize) -> bool {
    at(p, i) % 2 == 1
}
fn n(p: &[i64], i: usize) -> i64 {
    at(p, i) % 10
}
fn cls(p: &[i64], i: usize) -> &'static str {
    CLASSES[at(p, i) as usize % 6]
}
fn col(p: &[i64], i: usize) -> &'static str {
    COLORS[at(p, i) as usize % 3]
}
fn sty(p: &[i64], i: usize) -> &'static str {
    STYLES[at(p, i) as usize % 3]
}
fn html(p: &[i64], i: usize) -> &'static str {
    HTMLS[at(p, i) as usize % 4]
}
fn strings(p: &[i64]) -> Vec<String> {
    (0..at(p, 0) as usize % 4).map(|j| s(p, 1 + j)).collect()
}
fn keys(p: &[i64]) -> Vec<(i64, String)> {
    let mut out: Vec<(i64, String)> = vec![];
    for j in 0..4 {
        let k = at(p, j) % 5;
        if at(p, j) < 9 && !out.iter().any(|x| x.0 == k) {
            out.push((k, format!("k{k}")));
        }
    }
    out
}

// ------------------------------------------------------------------------------------- serialisation
fn collect_ids(n: &Node, out: &mut HashSet<u64>) {
    out.insert(n.id());
    for c in n.children() {
        collect_ids(&c, out);
    }
}

fn pairs(mut l: Vec<(String, String)>) -> Sexp {
    l.sort();
    Lst(l.iter().map(|(k, v)| Lst(vec![Sexp::from_str(k), Sexp::from_str(v)])).collect())
}

fn ser(n: &Node, old: &HashSet<u64>) -> Sexp {
    let o = Num(old.contains(&n.id()) as i64);
    match n.kind() {
        Kind::Text => Lst(vec![Num(0), Sexp::from_str(&n.data()), o]),
        Kind::Comment => Lst(vec![Num(1), o]),
        Kind::Fragment => Lst(vec![Num(9), o]),
        Kind::Element { tag, ns } => {
            let tag = match ns {
                Some(ns) => format!("{ns}|{tag}"),
                None => tag,
            };
            let mut attrs = n.attributes();
            if let Some(h) = n.0.borrow().inner_html.clone() {
                attrs.push(("\u{1}inner_html".into(), h));
            }
            Lst(vec![
                Num(3),
                Sexp::from_str(&tag),
                pairs(attrs),
                pairs(n.styles()),
                pairs(n.properties()),
                Lst(n.children().iter().map(|c| ser(c, old)).collect()),
                o,
            ])
        }
    }
}

fn children(parent: &Node, old: &HashSet<u64>) -> Sexp {
    Lst(parent.children().iter().map(|c| ser(c, old)).collect())
}

fn go<V: Render>(c: &Sexp, params: &[Vec<i64>], mk: impl Fn(&[i64]) -> V) -> Sexp {
    let (npre, npost) = (c.at(0).num() as usize, c.at(1).num() as usize);
    let (parent, marker) = parent_with_siblings(npre, npost);
    let mut old = HashSet::new();
    collect_ids(&parent, &mut old);
    let mut out = vec![];
    let mut state = mk(&params[0]).build();
    state.mount(&parent, marker.as_ref());
    out.push(children(&parent, &old));
    for p in &params[1..] {
        old.clear();
        collect_ids(&parent, &mut old);
        mk(p).rebuild(&mut state);
        let after = children(&parent, &old);
        let (fresh_parent, fresh_marker) = parent_with_siblings(npre, npost);
        let mut fresh_old = HashSet::new();
        collect_ids(&fresh_parent, &mut fresh_old);
        let mut fresh = mk(p).build();
        fresh.mount(&fresh_parent, fresh_marker.as_ref());
        out.push(Lst(vec![after, children(&fresh_parent, &fresh_old)]));
    }
    old.clear();
    collect_ids(&parent, &mut old);
    state.unmount();
    out.push(children(&parent, &old));
    Lst(out)
}

macro_rules! templates {
    ($c:expr, $params:expr, $tpl:expr, $erase:expr;
     both { $( $id:literal => $mk:expr, )* }
     typed { $( $id2:literal => $mk2:expr, )* }) => {
        match $tpl {
            $( $id => if $erase { go($c, $params, |p: &[i64]| ($mk)(p).into_any()) } else { go($c, $params, $mk) }, )*
            $( $id2 => go($c, $params, $mk2), )*
            other => Lst(vec![Num(-1), Num(other)]),
        }
    };
}

pub fn run_case(c: &Sexp) -> Sexp {
    crate::util::install_parser();
    let v0 = c.at(2);
    let (tpl, erase) = (v0.at(1).num(), v0.at(2).num() != 0);
    let mut params = vec![v0.at(3).nums()];
    for v in c.at(3).list() {
        params.push(v.at(3).nums());
    }
    let params = &params[..];
    type E3 = EitherOf3<&'static str, String, Option<String>>;
    type E4 = EitherOf4<String, &'static str, (String, String), Vec<String>>;
    type E7 = EitherOf7<String, String, String, &'static str, &'static str, Option<String>, (String,)>;
    templates!(c, params, tpl, erase;
    both {
        // ------------------------------------------------------------------ texts
        0 => |p: &[i64]| t(p, 0),
        1 => |p: &[i64]| s(p, 0),
        2 => |p: &[i64]| arc(p, 0),
        3 => |p: &[i64]| cow(p, 0),
        // ------------------------------------------------------------------ tuples
        5 => |p: &[i64]| (t(p, 0), s(p, 1)),
        6 => |p: &[i64]| (s(p, 0),),
        7 => |p: &[i64]| (t(p, 0), s(p, 1), arc(p, 2), cow(p, 3), n(p, 4) as i32),
        8 => |p: &[i64]| (t(p, 0), s(p, 1), t(p, 2), s(p, 3), t(p, 4), s(p, 5), t(p, 0), s(p, 1), t(p, 2), s(p, 3), t(p, 4), s(p, 5), n(p, 0) as u8),
        // ------------------------------------------------------------------ Option
        9 => |p: &[i64]| some(p, 0).then(|| t(p, 1)),
        10 => |p: &[i64]| some(p, 0).then(|| s(p, 1)),
        11 => |p: &[i64]| some(p, 0).then(|| (s(p, 1), t(p, 2))),
        // ------------------------------------------------------------------ Vec / arrays
        12 => |p: &[i64]| strings(p),
        13 => |p: &[i64]| (0..at(p, 0) as usize % 4).map(|j| t(p, 1 + j)).collect::<Vec<_>>(),
        14 => |p: &[i64]| (0..at(p, 0) as usize % 4).map(|j| some(p, 1 + j).then(|| s(p, 1 + j))).collect::<Vec<_>>(),
        15 => |p: &[i64]| (0..at(p, 0) as usize % 4).map(|j| (s(p, 1 + j), some(p, 2 + j).then(|| t(p, 2 + j)))).collect::<Vec<_>>(),
        16 => |p: &[i64]| [s(p, 0), s(p, 1)],
        17 => |p: &[i64]| [t(p, 0), t(p, 1), t(p, 2)],
        // ------------------------------------------------------------------ Either*
        18 => |p: &[i64]| if b(p, 0) { Either::Right(s(p, 2)) } else { Either::Left(t(p, 1)) },
        19 => |p: &[i64]| if b(p, 0) { Either::Right(strings(&p[1..])) } else { Either::Left((s(p, 1), s(p, 2))) },
        20 => |p: &[i64]| match at(p, 0) % 3 { 0 => E3::A(t(p, 1)), 1 => E3::B(s(p, 2)), _ => E3::C(some(p, 3).then(|| s(p, 3))) },
        21 => |p: &[i64]| match at(p, 0) % 4 { 0 => E4::A(s(p, 1)), 1 => E4::B(t(p, 1)), 2 => E4::C((s(p, 1), s(p, 2))), _ => E4::D(strings(&p[1..])) },
        22 => |p: &[i64]| match at(p, 0) % 7 { 0 => E7::A(s(p, 1)), 1 => E7::B(s(p, 1)), 2 => E7::C(s(p, 1)), 3 => E7::D(t(p, 1)), 4 => E7::E(t(p, 1)), 5 => E7::F(some(p, 1).then(|| s(p, 2))), _ => E7::G((s(p, 1),)) },
        // ------------------------------------------------------------------ Result, StaticVec, keyed, EitherKeepAlive
        23 => |p: &[i64]| if some(p, 0) { Ok(s(p, 1)) } else { Err(Boom) },
        24 => |p: &[i64]| if some(p, 0) { Ok((s(p, 1), t(p, 2))) } else { Err(Boom) },
        25 => |p: &[i64]| StaticVec::from((0..1 + at(p, 0) as usize % 3).map(|j| s(p, 1 + j)).collect::<Vec<_>>()),
        26 => |p: &[i64]| keyed(keys(p), |kv: &(i64, String)| kv.0, |_: usize, kv: (i64, String)| (|_: usize| {}, kv.1)),
        27 => |p: &[i64]| EitherKeepAlive { a: Some(s(p, 1)), b: Some((s(p, 2), t(p, 3))), show_b: b(p, 0) },
        28 => |p: &[i64]| some(p, 0).then(|| strings(&p[1..])),
        29 => |p: &[i64]| (strings(p), some(p, 4).then(|| s(p, 4)), t(p, 5)),
        30 => |p: &[i64]| InertElement::new(INERT[at(p, 0) as usize % INERT.len()]),
        31 => |_p: &[i64]| (),
        32 => |p: &[i64]| (0..at(p, 0) as usize % 4).map(|j| if b(p, 1 + j) { Either::Right((s(p, 1 + j), s(p, 2 + j))) } else { Either::Left(s(p, 1 + j)) }).collect::<Vec<_>>(),
        33 => |p: &[i64]| keyed(keys(p), |kv: &(i64, String)| kv.0, |_: usize, kv: (i64, String)| (|_: usize| {}, (kv.1.clone(), span().child(kv.1)))),
        34 => |p: &[i64]| if some(p, 0) { Ok(strings(&p[1..])) } else { Err(Boom) },
        // ------------------------------------------------------------------ &str prefixes of one buffer
        36 => |p: &[i64]| pre(p, 0),
        37 => |p: &[i64]| (pre(p, 0), s(p, 1), pre(p, 2)),
        38 => |p: &[i64]| some(p, 0).then(|| pre(p, 1)),
        39 => |p: &[i64]| (0..at(p, 0) as usize % 4).map(|j| pre(p, 1 + j)).collect::<Vec<_>>(),
        40 => |p: &[i64]| Cow::Borrowed(pre(p, 0)),
        41 => |p: &[i64]| [pre(p, 0), pre(p, 1)],
        42 => |p: &[i64]| if b(p, 0) { Either::Right(s(p, 2)) } else { Either::Left(pre(p, 1)) },
        // ------------------------------------------------------------------ primitives
        100 => |p: &[i64]| n(p, 0) as u8,
        101 => |p: &[i64]| n(p, 0) as u16,
        102 => |p: &[i64]| n(p, 0) as u32,
        103 => |p: &[i64]| n(p, 0) as u64,
        104 => |p: &[i64]| n(p, 0) as u128,
        105 => |p: &[i64]| n(p, 0) as usize,
        106 => |p: &[i64]| -(n(p, 0) as i8),
        107 => |p: &[i64]| -(n(p, 0) as i16),
        108 => |p: &[i64]| -(n(p, 0) as i32),
        109 => |p: &[i64]| -n(p, 0),
        110 => |p: &[i64]| -(n(p, 0) as i128),
        111 => |p: &[i64]| -(n(p, 0) as isize),
        112 => |p: &[i64]| n(p, 0) as f32 + 0.5,
        113 => |p: &[i64]| n(p, 0) as f64 + 0.25,
        114 => |p: &[i64]| char::from(b'a' + n(p, 0) as u8),
        115 => |p: &[i64]| b(p, 0),
        116 => |p: &[i64]| std::net::Ipv4Addr::new(127, 0, 0, n(p, 0) as u8),
        117 => |p: &[i64]| std::net::IpAddr::V4(std::net::Ipv4Addr::new(10, 0, 0, n(p, 0) as u8)),
        118 => |p: &[i64]| std::net::SocketAddr::V4(std::net::SocketAddrV4::new(std::net::Ipv4Addr::new(10, 0, 0, 1), 80 + n(p, 0) as u16)),
        119 => |p: &[i64]| std::num::NonZeroU8::new(n(p, 0) as u8 + 1).unwrap(),
        120 => |p: &[i64]| std::num::NonZeroI64::new(n(p, 0) + 1).unwrap(),
        121 => |p: &[i64]| std::num::NonZeroUsize::new(n(p, 0) as usize + 1).unwrap(),
        // ------------------------------------------------------------------ elements: plain attribute values
        200 => |p: &[i64]| p_el().child(t(p, 5)),
        201 => |p: &[i64]| div().id(t(p, 0)).child(t(p, 5)),
        202 => |p: &[i64]| div().id(s(p, 0)).child(s(p, 5)),
        203 => |p: &[i64]| div().id(arc(p, 0)).child(t(p, 5)),
        204 => |p: &[i64]| div().id(some(p, 0).then(|| t(p, 1))).child(t(p, 5)),
        205 => |p: &[i64]| div().id(some(p, 0).then(|| s(p, 1))).child(t(p, 5)),
        206 => |p: &[i64]| div().id(sref(t(p, 0))).child(t(p, 5)),
        207 => |p: &[i64]| div().hidden(b(p, 0)).child(t(p, 5)),
        208 => |p: &[i64]| div().hidden(some(p, 0).then(|| b(p, 1))).child(t(p, 5)),
        209 => |p: &[i64]| div().tabindex(n(p, 0) as i32).child(t(p, 5)),
        210 => |p: &[i64]| div().title(n(p, 0) as u64).lang(n(p, 1) as f64 + 0.5).dir(char::from(b'a' + n(p, 2) as u8)).child(t(p, 5)),
        211 => |p: &[i64]| div().title(()).child(t(p, 5)),
        212 => |p: &[i64]| div().id(some(p, 0).then(|| arc(p, 1))).child(t(p, 5)),
        213 => |p: &[i64]| div().id(some(p, 0).then(|| n(p, 1) as i32)).child(t(p, 5)),
        214 => |p: &[i64]| input().value(s(p, 0)).id(some(p, 1).then(|| t(p, 1))),
        215 => |p: &[i64]| (t(p, 0), br(), s(p, 1)),
        216 => |p: &[i64]| img().src(t(p, 0)).alt(some(p, 1).then(|| s(p, 1))),
        217 => |p: &[i64]| custom("my-el").id(t(p, 0)).child(t(p, 5)),
        218 => |p: &[i64]| tachys::svg::svg().child(tachys::svg::circle().attr("r", s(p, 0)).attr("cx", some(p, 1).then(|| t(p, 1)))),
        219 => |p: &[i64]| tachys::mathml::math().child(tachys::mathml::mi().child(t(p, 5))),
        // ------------------------------------------------------------------ class
        220 => |p: &[i64]| div().class(cls(p, 0)).child(t(p, 5)),
        221 => |p: &[i64]| div().class(cls(p, 0).to_string()).child(t(p, 5)),
        222 => |p: &[i64]| div().class(if at(p, 0) < 6 { Cow::Borrowed(cls(p, 0)) } else { Cow::Owned(cls(p, 0).to_string()) }).child(t(p, 5)),
        223 => |p: &[i64]| div().class(arc_of(cls(p, 0), at(p, 0) < 6)).child(t(p, 5)),
        224 => |p: &[i64]| div().class(some(p, 1).then(|| cls(p, 0))).child(t(p, 5)),
        225 => |p: &[i64]| div().class(some(p, 1).then(|| cls(p, 0).to_string())).child(t(p, 5)),
        226 => |p: &[i64]| div().class(("on", b(p, 0))).child(t(p, 5)),
        227 => |p: &[i64]| div().class(cls(p, 0)).class(("on", b(p, 1))).child(t(p, 5)),
        228 => |p: &[i64]| div().class(("on", b(p, 0))).class(("a", b(p, 1))).child(t(p, 5)),
        230 => |p: &[i64]| div().class(some(p, 1).then(|| ("on", b(p, 0)))).child(t(p, 5)),
        231 => |p: &[i64]| div().class(cls(p, 0).to_string()).class(("on", b(p, 1))).child(t(p, 5)),
        // ------------------------------------------------------------------ style
        240 => |p: &[i64]| div().style(sty(p, 0)).child(t(p, 5)),
        241 => |p: &[i64]| div().style(sty(p, 0).to_string()).child(t(p, 5)),
        242 => |p: &[i64]| div().style(arc_of(sty(p, 0), at(p, 0) < 3)).child(t(p, 5)),
        243 => |p: &[i64]| div().style(some(p, 1).then(|| sty(p, 0))).child(t(p, 5)),
        244 => |p: &[i64]| div().style(("color", col(p, 0))).child(t(p, 5)),
        245 => |p: &[i64]| div().style(("color", col(p, 0).to_string())).child(t(p, 5)),
        246 => |p: &[i64]| div().style(("color", arc_of(col(p, 0), at(p, 0) < 3))).child(t(p, 5)),
        247 => |p: &[i64]| div().style(("color", some(p, 1).then(|| col(p, 0).to_string()))).child(t(p, 5)),
        248 => |p: &[i64]| div().style(("color", col(p, 0))).style(("margin", some(p, 1).then(|| "0"))).child(t(p, 5)),
        249 => |p: &[i64]| div().style(some(p, 1).then(|| ("color", col(p, 0)))).child(t(p, 5)),
        // ------------------------------------------------------------------ inner_html, custom attributes, properties
        250 => |p: &[i64]| div().inner_html(html(p, 0)),
        251 => |p: &[i64]| div().inner_html(html(p, 0).to_string()),
        252 => |p: &[i64]| div().inner_html(arc_of(html(p, 0), at(p, 0) < 4)),
        253 => |p: &[i64]| div().inner_html(some(p, 1).then(|| html(p, 0).to_string())),
        260 => |p: &[i64]| div().attr("data-x", s(p, 0)).child(t(p, 5)),
        261 => |p: &[i64]| div().attr("data-x", some(p, 0).then(|| t(p, 1))).attr("aria-label", t(p, 2)).child(t(p, 5)),
        262 => |p: &[i64]| input().prop("checked", b(p, 0)),
        263 => |p: &[i64]| input().prop("checked", some(p, 1).then(|| b(p, 0))),
        // ------------------------------------------------------------------ several attributes, nested elements
        270 => |p: &[i64]| div().id(some(p, 0).then(|| t(p, 0))).hidden(b(p, 1)).class(cls(p, 2)).style(("color", col(p, 3)))
                    .child((t(p, 4), span().child(s(p, 5)), some(p, 4).then(|| t(p, 5)))),
        271 => |p: &[i64]| div().id(t(p, 0)).title(s(p, 1)).lang(some(p, 2).then(|| t(p, 2))).dir(arc(p, 3)).hidden(b(p, 4)).tabindex(n(p, 5) as i32)
                    .class(("a", b(p, 0))).style(("color", col(p, 1))).attr("data-y", n(p, 2) as u8).child(t(p, 5)),
        272 => |p: &[i64]| ul().child(strings(p).into_iter().map(|x| li().child(x)).collect::<Vec<_>>()),
        273 => |p: &[i64]| div().child(if b(p, 0) { Either::Right(span().child(s(p, 1))) } else { Either::Left(p_el().id(t(p, 2)).child(t(p, 1))) }),
        274 => |p: &[i64]| div().child((some(p, 0).then(|| span().class(cls(p, 1)).child(t(p, 2))), strings(&p[2..]), p_el().child(n(p, 5) as i32))),
        // ------------------------------------------------------------------ &str prefixes of one buffer as child / attribute / class / style / inner_html
        290 => |p: &[i64]| p_el().child(pre(p, 0)),
        291 => |p: &[i64]| div().id(pre(p, 0)).title(some(p, 1).then(|| pre(p, 2))).child((pre(p, 3), span().child(pre(p, 4)))),
        292 => |p: &[i64]| div().class(cpre(p, 0)).child(pre(p, 5)),
        293 => |p: &[i64]| div().class(some(p, 1).then(|| cpre(p, 0))).child(t(p, 5)),
        294 => |p: &[i64]| div().style(spre(p, 0)).child(t(p, 5)),
        295 => |p: &[i64]| div().style(("color", &"redder"[..[3, 6][at(p, 0) as usize % 2]])).child(t(p, 5)),
        296 => |p: &[i64]| div().inner_html(&"<b>x</b><i>y</i>"[..[0, 8, 16][at(p, 0) as usize % 3]]),
        297 => |p: &[i64]| div().attr("data-x", pre(p, 0)).child(t(p, 5)),
        // ------------------------------------------------------------------ pairs whose NAME changes between rebuilds
        298 => |p: &[i64]| div().style((["color", "background-color", "margin"][at(p, 0) as usize % 3], col(p, 1))).child(t(p, 5)),
        299 => |p: &[i64]| div().style((["color", "background-color", "margin"][at(p, 0) as usize % 3].to_string(), col(p, 1).to_string())).child(t(p, 5)),
        232 => |p: &[i64]| div().class((["on", "a", "b"][at(p, 0) as usize % 3], b(p, 1))).child(t(p, 5)),
        264 => |p: &[i64]| div().attr(["data-x", "data-y"][at(p, 0) as usize % 2], s(p, 1)).child(t(p, 5)),
        // ------------------------------------------------------------------ ViewTemplate
        280 => |p: &[i64]| ViewTemplate::new(div().child((t(p, 0), span().child(s(p, 1)), s(p, 2)))),
        281 => |p: &[i64]| ViewTemplate::new(p_el().id(t(p, 0)).class(cls(p, 1)).child(t(p, 2))),
        282 => |p: &[i64]| ViewTemplate::new(div().id(t(p, 0)).child((t(p, 1), span().class(cls(p, 2)).child(s(p, 3)), s(p, 4)))),
    }
    typed {
        4 => |p: &[i64]| rc(p, 0),
        35 => |p: &[i64]| (rc(p, 0), some(p, 1).then(|| rc(p, 1)), vec![rc(p, 2)]),
    })
}
