//! `h_dom c04` — a mounted reactive view settles to the render of current state (property C04).
//!
//! case `(view sigs steps)` (grammar in coq/theories/Dom/ReactiveRun.v). The harness builds the real
//! tachys view (closures over `RwSignal`s for dynamic text, `title=` / `class=` / `class:on=` /
//! `style:width=` closures, `move || if .. { Either::Left(..) } else { Either::Right(..) }`, the
//! memoised form of `<Show>`), mounts it on the native DOM under a harness-owned executor whose
//! run queue is driven by the case's schedule, applies the signal writes of each step, runs the
//! executor until no task is ready, and reports at every such idle point the closures that ran and
//! the DOM with, per node, whether it is a new node / the same node mutated / the same node
//! untouched since the previous idle point. At the end every idle point's signal values are
//! rendered from scratch (fresh mount) and compared with what was on screen then.
use either_of::Either;
#[allow(deprecated)]
use reactive_graph::wrappers::read::MaybeSignal;
use reactive_graph::{
    computed::{ArcMemo, Memo},
    owner::{on_cleanup, Owner},
    signal::{ArcRwSignal, ReadSignal, RwSignal},
    traits::{Get, GetUntracked, Set},
    wrappers::read::{ArcSignal, Signal},
};
use std::{
    cell::RefCell,
    collections::HashMap,
    future::Future,
    pin::Pin,
    sync::{Arc, Mutex},
    task::{Context, Poll, Wake, Waker},
};
use tachys::{
    html::{
        attribute::{any_attribute::{AnyAttribute, IntoAnyAttribute}, title},
        class::class,
        element::{div, ElementChild},
        style::style,
    },
    reactive_graph::{OwnedView, Suspend},
    renderer::dom::{Dom, Kind, Node},
    view::{
        add_attr::AddAnyAttr,
        any_view::{AnyView, IntoAny},
        keyed::keyed,
        Mountable, Render,
    },
};
use vsexp::{Lst, Num, Sexp};

// ------------------------------------------------------------------ executor with an exposed run queue
pub(crate) mod exec {
    use super::*;
    use any_spawner::{CustomExecutor, Executor, PinnedFuture, PinnedLocalFuture};
    type LocalFut = Pin<Box<dyn Future<Output = ()>>>;
    thread_local! {
        static TASKS: RefCell<Vec<Option<LocalFut>>> = RefCell::new(vec![]);
        static DONE: RefCell<Vec<bool>> = RefCell::new(vec![]);
        static READY: Arc<Mutex<Vec<usize>>> = Arc::new(Mutex::new(vec![]));
        static EPOCH: Arc<Mutex<usize>> = Arc::new(Mutex::new(0));
    }
    struct TaskWaker {
        id: usize,
        epoch: usize,
        cur: Arc<Mutex<usize>>,
        ready: Arc<Mutex<Vec<usize>>>,
    }
    impl Wake for TaskWaker {
        fn wake(self: Arc<Self>) {
            self.wake_by_ref()
        }
        fn wake_by_ref(self: &Arc<Self>) {
            if *self.cur.lock().unwrap() != self.epoch {
                return;
            }
            let mut r = self.ready.lock().unwrap();
            if !r.contains(&self.id) {
                r.push(self.id);
            }
        }
    }
    struct Ex;
    fn push(fut: LocalFut) {
        let id = TASKS.with(|t| {
            let mut t = t.borrow_mut();
            t.push(Some(fut));
            t.len() - 1
        });
        DONE.with(|d| d.borrow_mut().push(false));
        READY.with(|r| r.lock().unwrap().push(id));
    }
    impl CustomExecutor for Ex {
        fn spawn(&self, fut: PinnedFuture<()>) {
            push(fut)
        }
        fn spawn_local(&self, fut: PinnedLocalFuture<()>) {
            push(fut)
        }
        fn poll_local(&self) {}
    }
    pub fn init() {
        let _ = Executor::init_local_custom_executor(Ex);
    }
    pub fn ready() -> Vec<usize> {
        let mut v = READY.with(|r| r.lock().unwrap().clone());
        v.retain(|id| !DONE.with(|d| d.borrow().get(*id).copied().unwrap_or(true)));
        v.sort();
        v.dedup();
        v
    }
    pub fn poll(id: usize) {
        READY.with(|r| r.lock().unwrap().retain(|x| *x != id));
        let fut = TASKS.with(|t| t.borrow_mut()[id].take());
        let Some(mut fut) = fut else { return };
        let waker = Waker::from(Arc::new(TaskWaker {
            id,
            epoch: EPOCH.with(|e| *e.lock().unwrap()),
            cur: EPOCH.with(|e| e.clone()),
            ready: READY.with(|r| r.clone()),
        }));
        let mut cx = Context::from_waker(&waker);
        match fut.as_mut().poll(&mut cx) {
            Poll::Ready(()) => {
                DONE.with(|d| d.borrow_mut()[id] = true);
                drop(fut);
                READY.with(|r| r.lock().unwrap().retain(|x| *x != id));
            }
            Poll::Pending => TASKS.with(|t| t.borrow_mut()[id] = Some(fut)),
        }
    }
    /// poll until no task is ready; the j-th poll takes the (pick[j] mod len)-th ready task
    pub fn run_all(picks: &[i64]) {
        let mut j = 0;
        for _ in 0..10_000 {
            let r = ready();
            if r.is_empty() {
                return;
            }
            let p = picks.get(j).copied().unwrap_or(0).rem_euclid(r.len() as i64) as usize;
            j += 1;
            if std::env::var("C04_DEBUG").is_ok() {
                eprintln!("ready {:?} -> poll {}", r, r[p]);
            }
            poll(r[p]);
        }
        panic!("executor did not become idle");
    }
    pub fn reset() {
        EPOCH.with(|e| *e.lock().unwrap() += 1);
        loop {
            let t: Vec<Option<LocalFut>> = TASKS.with(|t| std::mem::take(&mut *t.borrow_mut()));
            DONE.with(|d| d.borrow_mut().clear());
            if t.is_empty() {
                break;
            }
            drop(t);
        }
        READY.with(|r| r.lock().unwrap().clear());
    }
}

// ------------------------------------------------------------------ programs
#[derive(Clone, Debug)]
pub(crate) enum E {
    Sig(usize),
    Const(i64),
    Add(Box<E>, Box<E>),
}
#[derive(Clone, Debug)]
enum V {
    Static(i64),
    /// dynamic text; `repr` 0 closure, 1 `Arc<dyn Fn>`, 2 `Arc<Mutex<dyn FnMut>>`, 3..11 the signal itself
    /// (RwSignal, ReadSignal, Memo, Signal, MaybeSignal, ArcRwSignal, ArcReadSignal, ArcMemo, ArcSignal)
    Text(i64, E, i64),
    /// props `(kind label expr repr flag)`: kind 0 title, 1 class, 2 class:on, 3 style:width, 4 style (whole),
    /// 5 class = Option (None when 0), 6 Either-valued attribute (title / class by the enclosing value);
    /// flag 1: the class / style name is taken from the value of the enclosing conditional
    Elem(Vec<(i64, i64, E, i64, i64)>, Vec<V>),
    If(i64, bool, E, Arc<V>, Arc<V>),
    /// `move || { let a = sync_expr; Suspend::new(async move { wait; a + async_expr }) }`; content kind 0 text,
    /// 1 `<div>{text}</div>`, 2 a fragment of two texts (value, value + 1)
    Async(i64, E, E, i64),
    /// `move || keyed(lists[signal], key = item, row = "index*100 + item")` (the ForEnumerate shape)
    Keyed(i64, usize, Vec<Vec<i64>>),
    /// wide mode (audit): `move || EitherOfN::X(arms[e mod n])`, n = 3 / 4 / 5
    Nway(i64, E, Vec<Arc<V>>),
    /// a fragment of 0..3 views (as a branch root, too)
    Frag(Vec<V>),
    /// `kid.add_any_attr(lang(move || e))` on the typed view (an element, or a closure: `AddAnyAttr for F`)
    Spread(i64, E, Arc<V>),
}

pub(crate) fn dec_expr(s: &Sexp) -> E {
    match s.at(0).num() {
        0 => E::Sig(s.at(1).num() as usize),
        1 => E::Const(s.at(1).num()),
        _ => E::Add(Box::new(dec_expr(s.at(1))), Box::new(dec_expr(s.at(2)))),
    }
}
fn dec_view(s: &Sexp) -> V {
    match s.at(0).num() {
        0 => V::Static(s.at(1).num()),
        1 => V::Text(s.at(1).num(), dec_expr(s.at(2)), s.at(3).num()),
        2 => V::Elem(
            s.at(1)
                .list()
                .iter()
                .map(|p| (p.at(0).num(), p.at(1).num(), dec_expr(p.at(2)), p.at(3).num(), p.at(4).num()))
                .collect(),
            s.at(2).list().iter().map(dec_view).collect(),
        ),
        4 => V::Async(s.at(1).num(), dec_expr(s.at(2)), dec_expr(s.at(3)), s.at(4).num()),
        5 => V::Keyed(s.at(1).num(), s.at(2).num() as usize, s.at(3).list().iter().map(|l| l.nums()).collect()),
        6 => V::Nway(s.at(1).num(), dec_expr(s.at(2)), s.at(3).list().iter().map(|a| Arc::new(dec_view(a))).collect()),
        7 => V::Frag(s.at(1).list().iter().map(dec_view).collect()),
        8 => V::Spread(s.at(1).num(), dec_expr(s.at(2)), Arc::new(dec_view(s.at(3)))),
        _ => V::If(
            s.at(1).num(),
            s.at(2).num() != 0,
            dec_expr(s.at(3)),
            Arc::new(dec_view(s.at(4))),
            Arc::new(dec_view(s.at(5))),
        ),
    }
}

pub(crate) static LOG: Mutex<Vec<i64>> = Mutex::new(Vec::new());
pub(crate) fn log(l: i64) {
    LOG.lock().unwrap().push(l);
}
/// log entry of the `on_cleanup` callback a text closure with label `l` registers on every run
pub(crate) const CLEANUP: i64 = 500;

/// the futures of the async leaves, in creation order; `None` once completed
pub(crate) static FUTURES: Mutex<Vec<(i64, Option<futures::channel::oneshot::Sender<()>>)>> = Mutex::new(Vec::new());
thread_local! {
    /// fresh mounts: async leaves resolve at once
    pub(crate) static FRESH: std::cell::Cell<bool> = const { std::cell::Cell::new(false) };
}
pub(crate) fn new_future(label: i64) -> Option<futures::channel::oneshot::Receiver<()>> {
    if FRESH.with(|r| r.get()) {
        return None;
    }
    let (tx, rx) = futures::channel::oneshot::channel();
    FUTURES.lock().unwrap().push((label, Some(tx)));
    Some(rx)
}
/// `(l 0)`: the future of the latest run of closure `l` completes (if it is still outstanding);
/// `(l 1)`: all outstanding futures of earlier runs of closure `l` complete (they were superseded)
pub(crate) fn complete_of(label: i64, stale: bool) -> bool {
    let mut f = FUTURES.lock().unwrap();
    let Some(last) = f.iter().rposition(|t| t.0 == label) else { return false };
    let mut txs = vec![];
    if stale {
        for i in 0..last {
            if f[i].0 == label {
                if let Some(tx) = f[i].1.take() {
                    txs.push(tx);
                }
            }
        }
    } else if let Some(tx) = f[last].1.take() {
        txs.push(tx);
    }
    drop(f);
    let any = !txs.is_empty();
    for tx in txs {
        let _ = tx.send(());
    }
    any
}
/// complete the `k mod n`-th of the `n` outstanding futures (oldest first) created by the closure
/// `label` (`None`: by any closure); false if none is left
pub(crate) fn complete(label: Option<i64>, k: i64) -> bool {
    let mut f = FUTURES.lock().unwrap();
    let open: Vec<usize> = f
        .iter()
        .enumerate()
        .filter(|(_, t)| t.1.is_some() && label.map(|l| l == t.0).unwrap_or(true))
        .map(|(i, _)| i)
        .collect();
    if open.is_empty() {
        return false;
    }
    let i = open[k.rem_euclid(open.len() as i64) as usize];
    let tx = f[i].1.take().unwrap();
    drop(f);
    let _ = tx.send(());
    true
}

pub(crate) type Sigs = Arc<Vec<RwSignal<i64>>>;

/// reads every signal of the expression (tracked)
pub(crate) fn eval(e: &E, s: &Sigs) -> i64 {
    match e {
        E::Sig(i) => s.get(*i).map(|x| x.get()).unwrap_or(0),
        E::Const(n) => *n,
        E::Add(a, b) => eval(a, s) + eval(b, s),
    }
}

fn tuple_any(mut vs: Vec<AnyView>) -> AnyView {
    match vs.len() {
        0 => ().into_any(),
        1 => (vs.remove(0),).into_any(),
        2 => {
            let b = vs.remove(1);
            (vs.remove(0), b).into_any()
        }
        3 => {
            let c = vs.remove(2);
            let b = vs.remove(1);
            (vs.remove(0), b, c).into_any()
        }
        _ => {
            let rest = vs.split_off(3);
            let c = vs.remove(2);
            let b = vs.remove(1);
            (vs.remove(0), b, c, tuple_any(rest)).into_any()
        }
    }
}

/// wide mode: per logical signal, the same information as `String` / `bool` signals for the attribute kinds
/// whose signal representations need them (written together with the number)
#[derive(Clone)]
pub(crate) struct Twin {
    cls: ArcRwSignal<String>,
    flag: ArcRwSignal<bool>,
    px: ArcRwSignal<String>,
    sty: ArcRwSignal<String>,
}
thread_local! {
    pub(crate) static TWINS: RefCell<Vec<Twin>> = const { RefCell::new(Vec::new()) };
}
pub(crate) fn init_twins(vals: &[i64]) {
    let l = vals
        .iter()
        .map(|v| Twin {
            cls: ArcRwSignal::new(format!("c{v}")),
            flag: ArcRwSignal::new(*v != 0),
            px: ArcRwSignal::new(format!("{v}px")),
            sty: ArcRwSignal::new(format!("width: {v}px")),
        })
        .collect();
    TWINS.with(|t| *t.borrow_mut() = l);
}
pub(crate) fn write_twin(i: usize, v: i64) {
    let t = TWINS.with(|t| t.borrow().get(i).cloned());
    if let Some(t) = t {
        t.cls.set(format!("c{v}"));
        t.flag.set(v != 0);
        t.px.set(format!("{v}px"));
        t.sty.set(format!("width: {v}px"));
    }
}
fn twin(i: usize) -> Twin {
    TWINS.with(|t| t.borrow()[i].clone())
}

/// `$body` with `$x` bound to the chosen representation of a reactive value: `$clos` as a closure (0), an
/// `Arc<dyn Fn>` (1), a SharedReactiveFunction (2), or — when the expression is one signal — the signal
/// `$arc` itself in one of its nine types (3..11)
macro_rules! reprs {
    ($repr:expr, $arc:expr, $t:ty, $clos:expr, $x:ident => $body:expr) => {{
        #[allow(deprecated)]
        match $repr {
            0 => {
                let $x = $clos;
                $body
            }
            1 => {
                let f = $clos;
                let $x: Arc<dyn Fn() -> $t + Send + Sync> = Arc::new(f);
                $body
            }
            2 => {
                let f = $clos;
                let $x: Arc<Mutex<dyn FnMut() -> $t + Send>> = Arc::new(Mutex::new(f));
                $body
            }
            r => {
                let arc: ArcRwSignal<$t> = ($arc).expect("harness: a signal representation needs a single-signal expression");
                match r {
                    3 => {
                        let $x: RwSignal<$t> = RwSignal::from(arc);
                        $body
                    }
                    4 => {
                        let $x: ReadSignal<$t> = ReadSignal::from(arc.read_only());
                        $body
                    }
                    5 => {
                        let a = arc.clone();
                        let $x = Memo::new(move |_| a.get());
                        $body
                    }
                    6 => {
                        let $x: Signal<$t> = Signal::from(arc);
                        $body
                    }
                    7 => {
                        let $x: MaybeSignal<$t> = MaybeSignal::from(arc);
                        $body
                    }
                    8 => {
                        let $x = arc;
                        $body
                    }
                    9 => {
                        let $x = arc.read_only();
                        $body
                    }
                    10 => {
                        let a = arc.clone();
                        let $x = ArcMemo::new(move |_| a.get());
                        $body
                    }
                    _ => {
                        let $x: ArcSignal<$t> = ArcSignal::from(arc);
                        $body
                    }
                }
            }
        }
    }};
}

/// the signal an expression consists of, if it is exactly one signal
fn single(e: &E) -> Option<usize> {
    match e {
        E::Sig(i) => Some(*i),
        _ => None,
    }
}

const CLASS_NAMES: [&str; 2] = ["on", "alt"];
const STYLE_NAMES: [&str; 2] = ["width", "height"];

fn mk(v: &V, s: &Sigs) -> AnyView {
    mk_env(v, s, 0)
}

/// `env`: the value of the nearest enclosing plain conditional (0 outside): class / style names with
/// flag 1 and Either-valued attributes are chosen by it, so that an in-place rebuild changes them
fn mk_env(v: &V, s: &Sigs, env: i64) -> AnyView {
    match v {
        V::Static(n) => n.to_string().into_any(),
        V::Text(l, e, repr) => {
            let (l, e2, s2) = (*l, e.clone(), s.clone());
            if *repr >= 3 {
                // the signal itself is the child: its value is rendered as a number
                let arc = single(e).and_then(|i| s.get(i).map(|x| ArcRwSignal::from(*x)));
                return reprs!(*repr, arc, i64, move || 0i64, x => x.into_any());
            }
            reprs!(*repr, None::<ArcRwSignal<String>>, String, move || {
                log(l);
                on_cleanup(move || log(l + CLEANUP));
                eval(&e2, &s2).to_string()
            }, x => x.into_any())
        }
        V::Async(l, es, ea, ckind) => {
            let (l, es, ea, s, ckind) = (*l, es.clone(), ea.clone(), s.clone(), *ckind);
            (move || {
                log(l);
                let a = eval(&es, &s);
                let rx = new_future(l);
                let (ea, s) = (ea.clone(), s.clone());
                Suspend::new(async move {
                    if let Some(rx) = rx {
                        let _ = rx.await;
                    }
                    let n = a + eval(&ea, &s);
                    match ckind {
                        1 => div().child(n.to_string()).into_any(),
                        2 => (n.to_string(), (n + 1).to_string()).into_any(),
                        _ => n.to_string().into_any(),
                    }
                })
            })
            .into_any()
        }
        V::Keyed(l, i, lists) => {
            let (l, i, lists, s) = (*l, *i, lists.clone(), s.clone());
            let parent = Owner::current().expect("no reactive owner");
            (move || {
                log(l);
                let n = s.get(i).map(|x| x.get()).unwrap_or(0);
                let items = if lists.is_empty() { vec![] } else { lists[n.rem_euclid(lists.len() as i64) as usize].clone() };
                let parent = parent.clone();
                keyed(
                    items,
                    |k: &i64| *k,
                    move |idx: usize, item: i64| {
                        let owner = parent.with(Owner::new);
                        let index = ArcRwSignal::new(idx);
                        let set = index.clone();
                        let view = owner.with(|| move || (index.get() as i64 * 100 + item).to_string());
                        (move |i: usize| set.set(i), OwnedView::new_with_owner(view, owner))
                    },
                )
            })
            .into_any()
        }
        V::Elem(props, kids) => {
            let attrs = mk_props(props, s, env);
            let el = div().add_any_attr(attrs);
            if kids.is_empty() {
                el.into_any()
            } else {
                el.child(tuple_any(kids.iter().map(|k| mk_env(k, s, env)).collect())).into_any()
            }
        }
        V::If(l, memo, c, a, b) => {
            let (l, a, b, s) = (*l, a.clone(), b.clone(), s.clone());
            if *memo {
                // <Show>: the condition is read through a memo
                let (c, s2) = (c.clone(), s.clone());
                let m = Memo::new(move |_| eval(&c, &s2) != 0);
                (move || {
                    let on = m.get();
                    log(l);
                    if on {
                        Either::<AnyView, AnyView>::Left(mk_env(&a, &s, 0))
                    } else {
                        Either::Right(mk_env(&b, &s, 0))
                    }
                })
                .into_any()
            } else {
                let c = c.clone();
                (move || {
                    log(l);
                    let n = eval(&c, &s);
                    if n != 0 {
                        Either::<AnyView, AnyView>::Left(mk_env(&a, &s, n))
                    } else {
                        Either::Right(mk_env(&b, &s, n))
                    }
                })
                .into_any()
            }
        }
        V::Nway(l, e, arms) => {
            use either_of::{EitherOf3, EitherOf4, EitherOf5};
            let (l, e, arms, s) = (*l, e.clone(), arms.clone(), s.clone());
            type A = AnyView;
            match arms.len() {
                3 => (move || {
                    log(l);
                    let n = eval(&e, &s);
                    let x = mk_env(&arms[n.rem_euclid(3) as usize], &s, n);
                    match n.rem_euclid(3) {
                        0 => EitherOf3::<A, A, A>::A(x),
                        1 => EitherOf3::B(x),
                        _ => EitherOf3::C(x),
                    }
                })
                .into_any(),
                4 => (move || {
                    log(l);
                    let n = eval(&e, &s);
                    let x = mk_env(&arms[n.rem_euclid(4) as usize], &s, n);
                    match n.rem_euclid(4) {
                        0 => EitherOf4::<A, A, A, A>::A(x),
                        1 => EitherOf4::B(x),
                        2 => EitherOf4::C(x),
                        _ => EitherOf4::D(x),
                    }
                })
                .into_any(),
                _ => (move || {
                    log(l);
                    let n = eval(&e, &s);
                    let x = mk_env(&arms[n.rem_euclid(5) as usize], &s, n);
                    match n.rem_euclid(5) {
                        0 => EitherOf5::<A, A, A, A, A>::A(x),
                        1 => EitherOf5::B(x),
                        2 => EitherOf5::C(x),
                        3 => EitherOf5::D(x),
                        _ => EitherOf5::E(x),
                    }
                })
                .into_any(),
            }
        }
        V::Frag(kids) => {
            let vs: Vec<AnyView> = kids.iter().map(|k| mk_env(k, s, env)).collect();
            if vs.len() == 2 {
                // a typed pair; other sizes as a Vec (its own marker node)
                let mut it = vs.into_iter();
                (it.next().unwrap(), it.next().unwrap()).into_any()
            } else {
                vs.into_any()
            }
        }
        V::Spread(l, e, kid) => {
            use tachys::html::attribute::lang;
            let (l, e, s2) = (*l, e.clone(), s.clone());
            let attr = lang(move || {
                log(l);
                eval(&e, &s2).to_string()
            });
            match &**kid {
                V::Elem(props, kids) => {
                    let attrs = mk_props(props, s, env);
                    let el = div().add_any_attr(attrs);
                    if kids.is_empty() {
                        el.add_any_attr(attr).into_any()
                    } else {
                        el.child(tuple_any(kids.iter().map(|k| mk_env(k, s, env)).collect())).add_any_attr(attr).into_any()
                    }
                }
                V::If(l2, false, c, a, b) => {
                    // `AddAnyAttr for F`: a new closure that spreads onto whatever the closure returns
                    let (l2, c, a, b, s) = (*l2, c.clone(), a.clone(), b.clone(), s.clone());
                    (move || {
                        log(l2);
                        let n = eval(&c, &s);
                        if n != 0 {
                            Either::<AnyView, AnyView>::Left(mk_env(&a, &s, n))
                        } else {
                            Either::Right(mk_env(&b, &s, n))
                        }
                    })
                    .add_any_attr(attr)
                    .into_any()
                }
                other => mk_env(other, s, env).add_any_attr(attr).into_any(),
            }
        }
    }
}

fn mk_props(props: &[(i64, i64, E, i64, i64)], s: &Sigs, env: i64) -> Vec<AnyAttribute> {
    let mut attrs: Vec<AnyAttribute> = vec![];
    for (k, l, e, repr, flag) in props {
        let (l, e, s) = (*l, e.clone(), s.clone());
        let sig = single(&e);
        let cname = CLASS_NAMES[if *flag != 0 { env.rem_euclid(2) as usize } else { 0 }];
        let sname = STYLE_NAMES[if *flag != 0 { env.rem_euclid(2) as usize } else { 0 }];
        attrs.push(match k {
            0 => {
                let arc = sig.and_then(|i| s.get(i).map(|x| ArcRwSignal::from(*x)));
                if *repr >= 3 {
                    reprs!(*repr, arc, i64, move || 0i64, x => title(x).into_any_attr())
                } else {
                    reprs!(*repr, None::<ArcRwSignal<String>>, String, move || {
                        log(l);
                        eval(&e, &s).to_string()
                    }, x => title(x).into_any_attr())
                }
            }
            1 => reprs!(*repr, sig.map(|i| twin(i).cls), String, move || {
                log(l);
                format!("c{}", eval(&e, &s))
            }, x => class(x).into_any_attr()),
            2 => reprs!(*repr, sig.map(|i| twin(i).flag), bool, move || {
                log(l);
                eval(&e, &s) != 0
            }, x => class((cname, x)).into_any_attr()),
            3 => reprs!(*repr, sig.map(|i| twin(i).px), String, move || {
                log(l);
                format!("{}px", eval(&e, &s))
            }, x => style((sname, x)).into_any_attr()),
            4 => reprs!(*repr, sig.map(|i| twin(i).sty), String, move || {
                log(l);
                format!("width: {}px", eval(&e, &s))
            }, x => style(x).into_any_attr()),
            5 => class(move || {
                log(l);
                let n = eval(&e, &s);
                (n != 0).then(|| format!("c{n}"))
            })
            .into_any_attr(),
            _ => {
                // an Either-valued attribute: `title=` on even, `class=` on odd values of the enclosing conditional
                type BoxFn = Box<dyn FnMut() -> String + Send>;
                type Ei = Either<tachys::html::attribute::Attr<tachys::html::attribute::Title, BoxFn>, tachys::html::class::Class<BoxFn>>;
                let (e2, s2) = (e.clone(), s.clone());
                if env.rem_euclid(2) == 0 {
                    let f: BoxFn = Box::new(move || {
                        log(l);
                        eval(&e, &s).to_string()
                    });
                    Ei::Left(title(f)).into_any_attr()
                } else {
                    let f: BoxFn = Box::new(move || {
                        log(l);
                        format!("c{}", eval(&e2, &s2))
                    });
                    Ei::Right(class(f)).into_any_attr()
                }
            }
        });
    }
    attrs
}

// ------------------------------------------------------------------ observation
fn num_of(s: &str) -> i64 {
    s.parse::<i64>().unwrap_or(-7)
}

fn elem_props(n: &Node) -> Sexp {
    let t = n.get_attribute("title").map(|v| num_of(&v)).unwrap_or(-1);
    let classes = n.classes();
    let c = classes
        .iter()
        .find_map(|c| c.strip_prefix('c').and_then(|d| d.parse::<i64>().ok()))
        .unwrap_or(-1);
    let on = classes.iter().any(|c| c == "on") as i64;
    let w = n
        .styles()
        .iter()
        .find(|s| s.0 == "width")
        .map(|s| num_of(s.1.trim_end_matches("px")))
        .unwrap_or(-1);
    if WIDE.with(|w| w.get()) {
        // wide mode: also the alternative class / style names and the spread `lang`
        let alt = classes.iter().any(|c| c == "alt") as i64;
        let css = n.styles();
        // the whole-style form (`style=`) lands in the attribute
        let from_attr = n.get_attribute("style").and_then(|v| {
            v.split(';').find_map(|d| d.split_once(':').filter(|(k, _)| k.trim() == "width").map(|(_, x)| num_of(x.trim().trim_end_matches("px"))))
        });
        let w = css.iter().find(|s| s.0 == "width").map(|s| num_of(s.1.trim_end_matches("px"))).or(from_attr).unwrap_or(-1);
        let h = css.iter().find(|s| s.0 == "height").map(|s| num_of(s.1.trim_end_matches("px"))).unwrap_or(-1);
        let lang = n.get_attribute("lang").map(|v| num_of(&v)).unwrap_or(-1);
        return Lst(vec![Num(t), Num(c), Num(on), Num(w), Num(alt), Num(h), Num(lang)]);
    }
    Lst(vec![Num(t), Num(c), Num(on), Num(w)])
}

fn snap(n: &Node, prev: &HashMap<u64, u64>, with_status: bool, cur: &mut HashMap<u64, u64>) -> Option<Sexp> {
    let st = match prev.get(&n.id()) {
        None => 2,
        Some(m) if *m == n.mutations() => 0,
        Some(_) => 1,
    };
    cur.insert(n.id(), n.mutations());
    let st = if with_status { Num(st) } else { Num(0) };
    match n.kind() {
        Kind::Text => Some(Lst(vec![Num(0), Num(num_of(&n.data())), st])),
        Kind::Comment => None,
        _ => Some(Lst(vec![
            Num(1),
            elem_props(n),
            st,
            Lst(n.children().iter().filter_map(|c| snap(c, prev, with_status, cur)).collect()),
        ])),
    }
}

pub(crate) fn top(root: &Node, prev: &HashMap<u64, u64>, with_status: bool) -> (Sexp, HashMap<u64, u64>) {
    let mut cur = HashMap::new();
    let kids: Vec<Sexp> = root.children().iter().filter_map(|c| snap(c, prev, with_status, &mut cur)).collect();
    // every view renders to exactly one node; anything else is reported as a list
    let s = if EXT.with(|e| e.get()) {
        Lst(kids)
    } else if kids.len() == 1 {
        kids.into_iter().next().unwrap()
    } else {
        Lst(vec![Num(-9), Lst(kids)])
    };
    (s, cur)
}

thread_local! {
    /// extended cases (async leaves / keyed lists): a snapshot is the list of the root's nodes
    pub(crate) static EXT: std::cell::Cell<bool> = const { std::cell::Cell::new(false) };
    /// wide cases (audit): seven element properties instead of four
    pub(crate) static WIDE: std::cell::Cell<bool> = const { std::cell::Cell::new(false) };
}

/// case `(view sigs steps)` or, extended, `(view sigs steps (drain))`: then a step is
/// `(writes picks completions)` — after the writes and the polls, each completion `k` resolves the
/// `k mod n`-th outstanding future (oldest first) and the executor runs until idle again — and after
/// the last step all outstanding futures are resolved (`drain` 0: oldest first, 1: newest first),
/// which yields one more observation entry.
pub fn run(c: &Sexp) -> Sexp {
    if matches!(c.at(0), Num(7)) {
        return crate::c04l::run(c);
    }
    exec::init();
    exec::reset();
    LOG.lock().unwrap().clear();
    FUTURES.lock().unwrap().clear();
    let ext = c.list().len() > 3;
    EXT.with(|e| e.set(ext));
    // `(view sigs steps (drain) (2 early))`: the wide grammar of the audit; `early`: the first step's writes
    // happen before any task of the mounted view was polled
    let wide = c.at(4).at(0).num() == 2;
    let early = wide && c.at(4).at(1).num() != 0;
    WIDE.with(|w| w.set(wide));
    let owner = Owner::new();
    owner.set();
    let view = dec_view(c.at(0));
    let sigs: Sigs = Arc::new(c.at(1).list().iter().map(|x| RwSignal::new(x.num())).collect());
    init_twins(&c.at(1).nums());

    let root = Dom::create_element("div", None);
    let mut state = mk(&view, &sigs).build();
    state.mount(&root, None);
    if !early {
        exec::run_all(&[]);
    }

    let mut out: Vec<(Vec<i64>, Sexp, Vec<i64>)> = vec![];
    let take_log = || std::mem::take(&mut *LOG.lock().unwrap());
    let values = |s: &Sigs| s.iter().map(|x| x.get_untracked()).collect::<Vec<_>>();
    let (s0, mut prev) = top(&root, &HashMap::new(), true);
    out.push((take_log(), s0, values(&sigs)));
    for step in c.at(2).list() {
        for w in step.at(0).list() {
            if let Some(sig) = sigs.get(w.at(0).num() as usize) {
                sig.set(w.at(1).num());
                write_twin(w.at(0).num() as usize, w.at(1).num());
            }
        }
        exec::run_all(&step.at(1).nums());
        for k in step.at(2).list() {
            if complete_of(k.at(0).num(), k.at(1).num() != 0) {
                exec::run_all(&[]);
            }
        }
        let (s, cur) = top(&root, &prev, true);
        prev = cur;
        out.push((take_log(), s, values(&sigs)));
    }
    if ext {
        let newest_first = c.at(3).at(0).num() != 0;
        while complete(None, if newest_first { -1 } else { 0 }) {
            exec::run_all(&[]);
        }
        let (s, _) = top(&root, &prev, true);
        out.push((take_log(), s, values(&sigs)));
    }

    if c.list().len() > 4 && !wide {
        // reduced observation (compared with the model): what is on screen at every idle point
        drop(state);
        owner.cleanup();
        drop(owner);
        exec::reset();
        LOG.lock().unwrap().clear();
        FUTURES.lock().unwrap().clear();
        return Lst(out.iter().map(|(_, shot, _)| strip_status(shot)).collect());
    }
    // fresh mounts with the values of each idle point (after the run, so that the executor's
    // task numbering of the run is not disturbed)
    let plain = |s: &Sexp| strip_status(s);
    let mut res = vec![];
    for (lg, shot, vals) in out {
        for (i, (sig, v)) in sigs.iter().zip(vals.iter()).enumerate() {
            sig.set(*v);
            write_twin(i, *v);
        }
        let fresh_root = Dom::create_element("div", None);
        FRESH.with(|r| r.set(true));
        let mut fresh = mk(&view, &sigs).build();
        FRESH.with(|r| r.set(false));
        fresh.mount(&fresh_root, None);
        let (f, _) = top(&fresh_root, &HashMap::new(), false);
        let eq = plain(&shot) == f;
        drop(fresh);
        res.push(Lst(vec![Sexp::from_nums(lg), shot, Sexp::bool(eq)]));
    }
    drop(state);
    owner.cleanup();
    drop(owner);
    exec::reset();
    LOG.lock().unwrap().clear();
    WIDE.with(|w| w.set(false));
    TWINS.with(|t| t.borrow_mut().clear());
    Lst(res)
}

pub(crate) fn strip_status(s: &Sexp) -> Sexp {
    if EXT.with(|e| e.get()) && !matches!(s.at(0), Num(_)) {
        return Lst(s.list().iter().map(strip_status).collect());
    }
    match s.at(0).num() {
        0 => Lst(vec![Num(0), s.at(1).clone(), Num(0)]),
        1 => Lst(vec![Num(1), s.at(1).clone(), Num(0), Lst(s.at(3).list().iter().map(strip_status).collect())]),
        _ => s.clone(),
    }
}
