//! `h_dom c04` — a mounted reactive view settles to the render of current state (property C04).
//!
//! case `(view sigs steps)` (grammar in coq/theories/Dom/ReactiveRun.v). The harness builds the real
//! tachys view (closures over `RwSignal`s for dynamic text, `title=` / `class=` / `class:on=` /
//! `style:width=` closures, `move || if .. { Either::Left(..) } else { Either::Right(..) }`, the
//! memoised form of `<Show>`), mounts it on the native DOM under a harness-owned executor whose
//! run queue is driven by the case's schedule, applies the signal writes of each step, runs the
//! executor until no task is ready, and reports at every such idle point the closures that ran and
//! the DOM with, per node, whether it is a new node / the same node mutated / the same node
//! untouched since the previous idle point. At the end every idle point's signal values are
//! rendered from scratch (fresh mount) and compared with what was on screen then.
use either_of::Either;
use reactive_graph::{
    computed::Memo,
    owner::{on_cleanup, Owner},
    signal::{ArcRwSignal, RwSignal},
    traits::{Get, GetUntracked, Set},
};
use std::{
    cell::RefCell,
    collections::HashMap,
    future::Future,
    pin::Pin,
    sync::{Arc, Mutex},
    task::{Context, Poll, Wake, Waker},
};
use tachys::{
    html::{
        attribute::{any_attribute::{AnyAttribute, IntoAnyAttribute}, title},
        class::class,
        element::{div, ElementChild},
        style::style,
    },
    reactive_graph::{OwnedView, Suspend},
    renderer::dom::{Dom, Kind, Node},
    view::{
        add_attr::AddAnyAttr,
        any_view::{AnyView, IntoAny},
        keyed::keyed,
        Mountable, Render,
    },
};
use vsexp::{Lst, Num, Sexp};

// ------------------------------------------------------------------ executor with an exposed run queue
pub(crate) mod exec {
    use super::*;
    use any_spawner::{CustomExecutor, Executor, PinnedFuture, PinnedLocalFuture};
    type LocalFut = Pin<Box<dyn Future<Output = ()>>>;
    thread_local! {
        static TASKS: RefCell<Vec<Option<LocalFut>>> = RefCell::new(vec![]);
        static DONE: RefCell<Vec<bool>> = RefCell::new(vec![]);
        static READY: Arc<Mutex<Vec<usize>>> = Arc::new(Mutex::new(vec![]));
        static EPOCH: Arc<Mutex<usize>> = Arc::new(Mutex::new(0));
    }
    struct TaskWaker {
        id: usize,
        epoch: usize,
        cur: Arc<Mutex<usize>>,
        ready: Arc<Mutex<Vec<usize>>>,
    }
    impl Wake for TaskWaker {
        fn wake(self: Arc<Self>) {
            self.wake_by_ref()
        }
        fn wake_by_ref(self: &Arc<Self>) {
            if *self.cur.lock().unwrap() != self.epoch {
                return;
            }
            let mut r = self.ready.lock().unwrap();
            if !r.contains(&self.id) {
                r.push(self.id);
            }
        }
    }
    struct Ex;
    fn push(fut: LocalFut) {
        let id = TASKS.with(|t| {
            let mut t = t.borrow_mut();
            t.push(Some(fut));
            t.len() - 1
        });
        DONE.with(|d| d.borrow_mut().push(false));
        READY.with(|r| r.lock().unwrap().push(id));
    }
    impl CustomExecutor for Ex {
        fn spawn(&self, fut: PinnedFuture<()>) {
            push(fut)
        }
        fn spawn_local(&self, fut: PinnedLocalFuture<()>) {
            push(fut)
        }
        fn poll_local(&self) {}
    }
    pub fn init() {
        let _ = Executor::init_local_custom_executor(Ex);
    }
    pub fn ready() -> Vec<usize> {
        let mut v = READY.with(|r| r.lock().unwrap().clone());
        v.retain(|id| !DONE.with(|d| d.borrow().get(*id).copied().unwrap_or(true)));
        v.sort();
        v.dedup();
        v
    }
    pub fn poll(id: usize) {
        READY.with(|r| r.lock().unwrap().retain(|x| *x != id));
        let fut = TASKS.with(|t| t.borrow_mut()[id].take());
        let Some(mut fut) = fut else { return };
        let waker = Waker::from(Arc::new(TaskWaker {
            id,
            epoch: EPOCH.with(|e| *e.lock().unwrap()),
            cur: EPOCH.with(|e| e.clone()),
            ready: READY.with(|r| r.clone()),
        }));
        let mut cx = Context::from_waker(&waker);
        match fut.as_mut().poll(&mut cx) {
            Poll::Ready(()) => {
                DONE.with(|d| d.borrow_mut()[id] = true);
                drop(fut);
                READY.with(|r| r.lock().unwrap().retain(|x| *x != id));
            }
            Poll::Pending => TASKS.with(|t| t.borrow_mut()[id] = Some(fut)),
        }
    }
    /// poll until no task is ready; the j-th poll takes the (pick[j] mod len)-th ready task
    pub fn run_all(picks: &[i64]) {
        let mut j = 0;
        for _ in 0..10_000 {
            let r = ready();
            if r.is_empty() {
                return;
            }
            let p = picks.get(j).copied().unwrap_or(0).rem_euclid(r.len() as i64) as usize;
            j += 1;
            if std::env::var("C04_DEBUG").is_ok() {
                eprintln!("ready {:?} -> poll {}", r, r[p]);
            }
            poll(r[p]);
        }
        panic!("executor did not become idle");
    }
    pub fn reset() {
        EPOCH.with(|e| *e.lock().unwrap() += 1);
        loop {
            let t: Vec<Option<LocalFut>> = TASKS.with(|t| std::mem::take(&mut *t.borrow_mut()));
            DONE.with(|d| d.borrow_mut().clear());
            if t.is_empty() {
                break;
            }
            drop(t);
        }
        READY.with(|r| r.lock().unwrap().clear());
    }
}

// ------------------------------------------------------------------ programs
#[derive(Clone, Debug)]
pub(crate) enum E {
    Sig(usize),
    Const(i64),
    Add(Box<E>, Box<E>),
}
#[derive(Clone, Debug)]
enum V {
    Static(i64),
    Text(i64, E),
    Elem(Vec<(i64, i64, E)>, Vec<V>),
    If(i64, bool, E, Arc<V>, Arc<V>),
    /// `move || { let a = sync_expr; Suspend::new(async move { wait; a + async_expr }) }`
    Async(i64, E, E),
    /// `move || keyed(lists[signal], key = item, row = "index*100 + item")` (the ForEnumerate shape)
    Keyed(i64, usize, Vec<Vec<i64>>),
}

pub(crate) fn dec_expr(s: &Sexp) -> E {
    match s.at(0).num() {
        0 => E::Sig(s.at(1).num() as usize),
        1 => E::Const(s.at(1).num()),
        _ => E::Add(Box::new(dec_expr(s.at(1))), Box::new(dec_expr(s.at(2)))),
    }
}
fn dec_view(s: &Sexp) -> V {
    match s.at(0).num() {
        0 => V::Static(s.at(1).num()),
        1 => V::Text(s.at(1).num(), dec_expr(s.at(2))),
        2 => V::Elem(
            s.at(1).list().iter().map(|p| (p.at(0).num(), p.at(1).num(), dec_expr(p.at(2)))).collect(),
            s.at(2).list().iter().map(dec_view).collect(),
        ),
        4 => V::Async(s.at(1).num(), dec_expr(s.at(2)), dec_expr(s.at(3))),
        5 => V::Keyed(s.at(1).num(), s.at(2).num() as usize, s.at(3).list().iter().map(|l| l.nums()).collect()),
        _ => V::If(
            s.at(1).num(),
            s.at(2).num() != 0,
            dec_expr(s.at(3)),
            Arc::new(dec_view(s.at(4))),
            Arc::new(dec_view(s.at(5))),
        ),
    }
}

pub(crate) static LOG: Mutex<Vec<i64>> = Mutex::new(Vec::new());
pub(crate) fn log(l: i64) {
    LOG.lock().unwrap().push(l);
}
/// log entry of the `on_cleanup` callback a text closure with label `l` registers on every run
pub(crate) const CLEANUP: i64 = 500;

/// the futures of the async leaves, in creation order; `None` once completed
pub(crate) static FUTURES: Mutex<Vec<(i64, Option<futures::channel::oneshot::Sender<()>>)>> = Mutex::new(Vec::new());
thread_local! {
    /// fresh mounts: async leaves resolve at once
    pub(crate) static FRESH: std::cell::Cell<bool> = const { std::cell::Cell::new(false) };
}
pub(crate) fn new_future(label: i64) -> Option<futures::channel::oneshot::Receiver<()>> {
    if FRESH.with(|r| r.get()) {
        return None;
    }
    let (tx, rx) = futures::channel::oneshot::channel();
    FUTURES.lock().unwrap().push((label, Some(tx)));
    Some(rx)
}
/// `(l 0)`: the future of the latest run of closure `l` completes (if it is still outstanding);
/// `(l 1)`: all outstanding futures of earlier runs of closure `l` complete (they were superseded)
pub(crate) fn complete_of(label: i64, stale: bool) -> bool {
    let mut f = FUTURES.lock().unwrap();
    let Some(last) = f.iter().rposition(|t| t.0 == label) else { return false };
    let mut txs = vec![];
    if stale {
        for i in 0..last {
            if f[i].0 == label {
                if let Some(tx) = f[i].1.take() {
                    txs.push(tx);
                }
            }
        }
    } else if let Some(tx) = f[last].1.take() {
        txs.push(tx);
    }
    drop(f);
    let any = !txs.is_empty();
    for tx in txs {
        let _ = tx.send(());
    }
    any
}
/// complete the `k mod n`-th of the `n` outstanding futures (oldest first) created by the closure
/// `label` (`None`: by any closure); false if none is left
pub(crate) fn complete(label: Option<i64>, k: i64) -> bool {
    let mut f = FUTURES.lock().unwrap();
    let open: Vec<usize> = f
        .iter()
        .enumerate()
        .filter(|(_, t)| t.1.is_some() && label.map(|l| l == t.0).unwrap_or(true))
        .map(|(i, _)| i)
        .collect();
    if open.is_empty() {
        return false;
    }
    let i = open[k.rem_euclid(open.len() as i64) as usize];
    let tx = f[i].1.take().unwrap();
    drop(f);
    let _ = tx.send(());
    true
}

pub(crate) type Sigs = Arc<Vec<RwSignal<i64>>>;

/// reads every signal of the expression (tracked)
pub(crate) fn eval(e: &E, s: &Sigs) -> i64 {
    match e {
        E::Sig(i) => s.get(*i).map(|x| x.get()).unwrap_or(0),
        E::Const(n) => *n,
        E::Add(a, b) => eval(a, s) + eval(b, s),
    }
}

fn tuple_any(mut vs: Vec<AnyView>) -> AnyView {
    match vs.len() {
        0 => ().into_any(),
        1 => (vs.remove(0),).into_any(),
        2 => {
            let b = vs.remove(1);
            (vs.remove(0), b).into_any()
        }
        3 => {
            let c = vs.remove(2);
            let b = vs.remove(1);
            (vs.remove(0), b, c).into_any()
        }
        _ => {
            let rest = vs.split_off(3);
            let c = vs.remove(2);
            let b = vs.remove(1);
            (vs.remove(0), b, c, tuple_any(rest)).into_any()
        }
    }
}

fn mk(v: &V, s: &Sigs) -> AnyView {
    match v {
        V::Static(n) => n.to_string().into_any(),
        V::Text(l, e) => {
            let (l, e, s) = (*l, e.clone(), s.clone());
            (move || {
                log(l);
                on_cleanup(move || log(l + CLEANUP));
                eval(&e, &s).to_string()
            })
            .into_any()
        }
        V::Async(l, es, ea) => {
            let (l, es, ea, s) = (*l, es.clone(), ea.clone(), s.clone());
            (move || {
                log(l);
                let a = eval(&es, &s);
                let rx = new_future(l);
                let (ea, s) = (ea.clone(), s.clone());
                Suspend::new(async move {
                    if let Some(rx) = rx {
                        let _ = rx.await;
                    }
                    (a + eval(&ea, &s)).to_string()
                })
            })
            .into_any()
        }
        V::Keyed(l, i, lists) => {
            let (l, i, lists, s) = (*l, *i, lists.clone(), s.clone());
            let parent = Owner::current().expect("no reactive owner");
            (move || {
                log(l);
                let n = s.get(i).map(|x| x.get()).unwrap_or(0);
                let items = if lists.is_empty() { vec![] } else { lists[n.rem_euclid(lists.len() as i64) as usize].clone() };
                let parent = parent.clone();
                keyed(
                    items,
                    |k: &i64| *k,
                    move |idx: usize, item: i64| {
                        let owner = parent.with(Owner::new);
                        let index = ArcRwSignal::new(idx);
                        let set = index.clone();
                        let view = owner.with(|| move || (index.get() as i64 * 100 + item).to_string());
                        (move |i: usize| set.set(i), OwnedView::new_with_owner(view, owner))
                    },
                )
            })
            .into_any()
        }
        V::Elem(props, kids) => {
            let mut attrs: Vec<AnyAttribute> = vec![];
            for (k, l, e) in props {
                let (l, e, s) = (*l, e.clone(), s.clone());
                attrs.push(match k {
                    0 => title(move || {
                        log(l);
                        eval(&e, &s).to_string()
                    })
                    .into_any_attr(),
                    1 => class(move || {
                        log(l);
                        format!("c{}", eval(&e, &s))
                    })
                    .into_any_attr(),
                    2 => class(("on", move || {
                        log(l);
                        eval(&e, &s) != 0
                    }))
                    .into_any_attr(),
                    _ => style(("width", move || {
                        log(l);
                        format!("{}px", eval(&e, &s))
                    }))
                    .into_any_attr(),
                });
            }
            let el = div().add_any_attr(attrs);
            if kids.is_empty() {
                el.into_any()
            } else {
                el.child(tuple_any(kids.iter().map(|k| mk(k, s)).collect())).into_any()
            }
        }
        V::If(l, memo, c, a, b) => {
            let (l, a, b, s) = (*l, a.clone(), b.clone(), s.clone());
            if *memo {
                // <Show>: the condition is read through a memo
                let (c, s2) = (c.clone(), s.clone());
                let m = Memo::new(move |_| eval(&c, &s2) != 0);
                (move || {
                    let on = m.get();
                    log(l);
                    if on {
                        Either::<AnyView, AnyView>::Left(mk(&a, &s))
                    } else {
                        Either::Right(mk(&b, &s))
                    }
                })
                .into_any()
            } else {
                let c = c.clone();
                (move || {
                    log(l);
                    if eval(&c, &s) != 0 {
                        Either::<AnyView, AnyView>::Left(mk(&a, &s))
                    } else {
                        Either::Right(mk(&b, &s))
                    }
                })
                .into_any()
            }
        }
    }
}

// ------------------------------------------------------------------ observation
fn num_of(s: &str) -> i64 {
    s.parse::<i64>().unwrap_or(-7)
}

fn elem_props(n: &Node) -> Sexp {
    let t = n.get_attribute("title").map(|v| num_of(&v)).unwrap_or(-1);
    let classes = n.classes();
    let c = classes
        .iter()
        .find_map(|c| c.strip_prefix('c').and_then(|d| d.parse::<i64>().ok()))
        .unwrap_or(-1);
    let on = classes.iter().any(|c| c == "on") as i64;
    let w = n
        .styles()
        .iter()
        .find(|s| s.0 == "width")
        .map(|s| num_of(s.1.trim_end_matches("px")))
        .unwrap_or(-1);
    Lst(vec![Num(t), Num(c), Num(on), Num(w)])
}

fn snap(n: &Node, prev: &HashMap<u64, u64>, with_status: bool, cur: &mut HashMap<u64, u64>) -> Option<Sexp> {
    let st = match prev.get(&n.id()) {
        None => 2,
        Some(m) if *m == n.mutations() => 0,
        Some(_) => 1,
    };
    cur.insert(n.id(), n.mutations());
    let st = if with_status { Num(st) } else { Num(0) };
    match n.kind() {
        Kind::Text => Some(Lst(vec![Num(0), Num(num_of(&n.data())), st])),
        Kind::Comment => None,
        _ => Some(Lst(vec![
            Num(1),
            elem_props(n),
            st,
            Lst(n.children().iter().filter_map(|c| snap(c, prev, with_status, cur)).collect()),
        ])),
    }
}

pub(crate) fn top(root: &Node, prev: &HashMap<u64, u64>, with_status: bool) -> (Sexp, HashMap<u64, u64>) {
    let mut cur = HashMap::new();
    let kids: Vec<Sexp> = root.children().iter().filter_map(|c| snap(c, prev, with_status, &mut cur)).collect();
    // every view renders to exactly one node; anything else is reported as a list
    let s = if EXT.with(|e| e.get()) {
        Lst(kids)
    } else if kids.len() == 1 {
        kids.into_iter().next().unwrap()
    } else {
        Lst(vec![Num(-9), Lst(kids)])
    };
    (s, cur)
}

thread_local! {
    /// extended cases (async leaves / keyed lists): a snapshot is the list of the root's nodes
    pub(crate) static EXT: std::cell::Cell<bool> = const { std::cell::Cell::new(false) };
}

/// case `(view sigs steps)` or, extended, `(view sigs steps (drain))`: then a step is
/// `(writes picks completions)` — after the writes and the polls, each completion `k` resolves the
/// `k mod n`-th outstanding future (oldest first) and the executor runs until idle again — and after
/// the last step all outstanding futures are resolved (`drain` 0: oldest first, 1: newest first),
/// which yields one more observation entry.
pub fn run(c: &Sexp) -> Sexp {
    if matches!(c.at(0), Num(7)) {
        return crate::c04l::run(c);
    }
    exec::init();
    exec::reset();
    LOG.lock().unwrap().clear();
    FUTURES.lock().unwrap().clear();
    let ext = c.list().len() > 3;
    EXT.with(|e| e.set(ext));
    let owner = Owner::new();
    owner.set();
    let view = dec_view(c.at(0));
    let sigs: Sigs = Arc::new(c.at(1).list().iter().map(|x| RwSignal::new(x.num())).collect());

    let root = Dom::create_element("div", None);
    let mut state = mk(&view, &sigs).build();
    state.mount(&root, None);
    exec::run_all(&[]);

    let mut out: Vec<(Vec<i64>, Sexp, Vec<i64>)> = vec![];
    let take_log = || std::mem::take(&mut *LOG.lock().unwrap());
    let values = |s: &Sigs| s.iter().map(|x| x.get_untracked()).collect::<Vec<_>>();
    let (s0, mut prev) = top(&root, &HashMap::new(), true);
    out.push((take_log(), s0, values(&sigs)));
    for step in c.at(2).list() {
        for w in step.at(0).list() {
            if let Some(sig) = sigs.get(w.at(0).num() as usize) {
                sig.set(w.at(1).num());
            }
        }
        exec::run_all(&step.at(1).nums());
        for k in step.at(2).list() {
            if complete_of(k.at(0).num(), k.at(1).num() != 0) {
                exec::run_all(&[]);
            }
        }
        let (s, cur) = top(&root, &prev, true);
        prev = cur;
        out.push((take_log(), s, values(&sigs)));
    }
    if ext {
        let newest_first = c.at(3).at(0).num() != 0;
        while complete(None, if newest_first { -1 } else { 0 }) {
            exec::run_all(&[]);
        }
        let (s, _) = top(&root, &prev, true);
        out.push((take_log(), s, values(&sigs)));
    }

    if c.list().len() > 4 {
        // reduced observation (compared with the model): what is on screen at every idle point
        drop(state);
        owner.cleanup();
        drop(owner);
        exec::reset();
        LOG.lock().unwrap().clear();
        FUTURES.lock().unwrap().clear();
        return Lst(out.iter().map(|(_, shot, _)| strip_status(shot)).collect());
    }
    // fresh mounts with the values of each idle point (after the run, so that the executor's
    // task numbering of the run is not disturbed)
    let plain = |s: &Sexp| strip_status(s);
    let mut res = vec![];
    for (lg, shot, vals) in out {
        for (sig, v) in sigs.iter().zip(vals.iter()) {
            sig.set(*v);
        }
        let fresh_root = Dom::create_element("div", None);
        FRESH.with(|r| r.set(true));
        let mut fresh = mk(&view, &sigs).build();
        FRESH.with(|r| r.set(false));
        fresh.mount(&fresh_root, None);
        let (f, _) = top(&fresh_root, &HashMap::new(), false);
        let eq = plain(&shot) == f;
        drop(fresh);
        res.push(Lst(vec![Sexp::from_nums(lg), shot, Sexp::bool(eq)]));
    }
    drop(state);
    owner.cleanup();
    drop(owner);
    exec::reset();
    LOG.lock().unwrap().clear();
    Lst(res)
}

pub(crate) fn strip_status(s: &Sexp) -> Sexp {
    if EXT.with(|e| e.get()) && !matches!(s.at(0), Num(_)) {
        return Lst(s.list().iter().map(strip_status).collect());
    }
    match s.at(0).num() {
        0 => Lst(vec![Num(0), s.at(1).clone(), Num(0)]),
        1 => Lst(vec![Num(1), s.at(1).clone(), Num(0), Lst(s.at(3).list().iter().map(strip_status).collect())]),
        _ => s.clone(),
    }
}
