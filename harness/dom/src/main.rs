//! Harness for the DOM properties, on the native in-memory DOM that tachys uses under
//! `--cfg leptos_verif` (see README.md). `h_dom <sub-command>` reads cases on stdin (one
//! sexp per line) and prints one observation per line. One file per sub-command.
mod c04;
mod c04l;
mod c05;
mod c03;
mod c03t;
mod c11;
mod c11for;
mod c11store;
mod smoke;
pub mod util;

fn main() {
    let which = std::env::args().nth(1).unwrap_or_default();
    match which.as_str() {
        "c04" => vsexp::drive(c04::run),
        "c05" => vsexp::drive(c05::run),
        "c03" => vsexp::drive(c03::run),
        "c11" => vsexp::drive(c11::run),
        "smoke" => vsexp::drive(smoke::run),
        other => {
            eprintln!("unknown sub-command {other:?}");
            std::process::exit(2)
        }
    }
}
