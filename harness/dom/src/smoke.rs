//! `h_dom smoke`: shows how to drive real tachys views on the native DOM hook.
//! case `(0 pre post (byte…) (byte…))`: build `<p class=..>{a}</p>` + text, mount between
//! siblings, rebuild with b, unmount. Observation: visible children after each step, the
//! retained `<p>` id is unchanged (1/0), mutation count of the rebuild.
//! case `(1 (byte…))`: server-render a view, parse it into the native DOM, hydrate it.
use crate::util::*;
use tachys::{
    html::element::{p, ElementChild},
    hydration::Cursor,
    renderer::dom::{self as ndom, Dom},
    view::{Mountable, PositionState, Render, RenderHtml},
    html::attribute::global::ClassAttribute,
};
use vsexp::{Lst, Num, Sexp};

fn view(s: String) -> impl RenderHtml {
    (p().class("k").child(s.clone()), s)
}

pub fn run(c: &Sexp) -> Sexp {
    match c.at(0).num() {
        0 => {
            let (pre, post) = (c.at(1).num() as usize, c.at(2).num() as usize);
            let a = c.at(3).string().unwrap();
            let b = c.at(4).string().unwrap();
            let (parent, marker) = parent_with_siblings(pre, post);
            let mut st = view(a).build();
            st.mount(&parent, marker.as_ref());
            let s1 = visible(&parent);
            let p_before = parent.children()[pre].id();
            let m0 = ndom::mutations();
            view(b).rebuild(&mut st);
            let muts = ndom::mutations() - m0;
            let s2 = visible(&parent);
            let p_after = parent.children()[pre].id();
            st.unmount();
            let s3 = visible(&parent);
            Lst(vec![Sexp::from_str(&s1), Sexp::from_str(&s2), Sexp::from_str(&s3), Sexp::bool(p_before == p_after), Num(muts as i64)])
        }
        _ => {
            install_parser();
            let a = c.at(1).string().unwrap();
            let html = view(a.clone()).to_html();
            let root = Dom::create_element("div", None);
            Dom::set_inner_html(&root, &html);
            let ids_before = root.child_ids();
            let st = view(a).hydrate::<true>(&Cursor::new(root.clone()), &PositionState::default());
            let _ = st;
            Lst(vec![Sexp::from_str(&html), Sexp::from_str(&root.serialize_children()), Sexp::bool(ids_before == root.child_ids()), Lst(ndom::errors().iter().map(|e| Sexp::from_str(e)).collect())])
        }
    }
}
